/-
  C03 — results are the call-graph closure of own accesses under argument substitution.

  Model: `Results.generate` (RattrModel/Results.lean) — BFS call tree with tree-global `seen`,
  reversed-BFS fold, ONE shared store.  Spec: `Spec.derive` / `Derivable` (RattrModel/Spec/Closure.lean).

  The full statement `C03_full` is false on the pinned code (`C03_cex_*`, `C03_full_false`); each
  refuting class is a known finding. Proved for all programs (any call graph, recursion included):
    * `C03_terminates` / `C03_never_out_of_fuel`: tree construction ends within
      `totalCalls P + 1` nodes — the formal content of "under recursion the analysis terminates";
    * `C03_own_included`: every own access of a function is in its results (store only grows);
    * `C03_no_resolvable_exact`: with no resolvable callee the results are exactly the own accesses.
  Depth-one fragment (every resolvable callee is a leaf; programs of any size), where the pinned
  code is right:
    * `callTree_depthOne`, `runRoot_depthOne` (+ `_frame`, `_mem`, `_ok`): exact tree and fold;
    * `C03_depthOne_sound_complete`, `C03_depthOne_full_holds`: reported spellings = the spec's
      closure (`C03_at` holds), with the C04 fact as the explicit hypothesis `hSw_C04`;
    * `C03_depthOne_derive_stable`: `derive S (d+1) = derive S 1`.
  The C04 fact is no longer assumed: `swapsAreBinding_of_C04` derives it from the general theorem
  `C04.C04_partial` under well-formedness hypotheses (`SigsDistinct`, `KwDistinct`, `OutsideE1E2`);
  `C03_depthOne_sound_complete_unconditional`, `C03_depthOne_full_holds_unconditional`.
  TREE fragment — call graphs of ARBITRARY depth (`TreeFragment`: from every root the resolvable
  call graph unfolds to a tree, arguments are bare identifiers), where the pinned code is right:
    * `C03_tree_callTree_full`: the BFS tree is the full unfolding (`seen` never cuts);
    * `C03_tree_result_is_closure`, `C03_tree_storeInv_preserved`: over any store with
      own ⊆ σ g ⊆ closure g, a root's result is exactly its closure `Clo`, and the invariant is kept;
    * `C03_tree_sound_complete` (+ `_rank`): first root, reported spellings = `∃ d, derive S d f`
      (= `derive S (rank f) f`);
    * `C03_tree_store_invariant`, `C03_tree_any_order`, `C03_tree_full_holds` (`C03_at` holds),
      `C03_tree_generate_ok`; `C03_chain_sound_complete`: every CHAIN program is in the fragment.
    * `C03_bare_sound_all_graphs`: with bare arguments the SOUNDNESS half holds for every call
      graph (diamonds, recursion); only completeness needs the tree shape.
  The instance of an initialiser (`T = K(args)`, T a name / attribute / item):
    * `C03_classAssign_binds_target`: for EVERY statement diverted to `visit_ClassAssign`, the Call
      record's first argument is the FULL spelling of the target (`holder.pt`), the set is
      `Name(full, base)`; `pipeline_test_instance_targets`, `pipeline_instance_stored_in_attribute`:
      end to end on `holder.pt = Point(a)` / `table.rows[0] = Point(a)` (`pipeline_depth_one` applied).
  PROJECTS — target + followed modules in one model (`RattrModel/Project.lean`: per-file root context
  and file walk, location-aware `find_call_target_and_ir` (`locate`, `realClassP`, `resolveImportP`),
  `seen` keyed on (Call symbol, calling file), ONE store over all files):
    * `project_composition`, `project_own_and_calls`, `project_tree_sound_complete`,
      `project_sound_all_graphs`: the stage-local theorems lifted to the combined program `toProgP`;
    * `project_function_resolves_in_its_own_file`, `project_class_resolves_in_its_own_file`: in a
      path-coherent environment a Func / Class target found in file i resolves only into a file with
      the path of i — never a same-named function / class of the target or of another module;
    * `project_single_file_resolution`: on a one-file environment the resolver is `Pipeline.resolveCall`;
    * `project_test_two_helpers`, `project_two_helpers_closure`, `project_test_same_record_two_files`:
      kernel evaluation of the whole project model on two followed modules with same-named helpers.
  ROUND 3 (section at the end of the file):
    * keywords spelled like a positional-only / `*args` / `**kwargs` parameter of a callee with `**kwargs`
      (`record(ev, event=x)` for `def record(event, /, **fields)`): `C03_swaps_are_binding_inside_E1` — the
      swaps are Python's binding also INSIDE the C04 class `E1` (only the diagnostic deviates), hence
      `swapsAreBinding_outside_E2`, `C03_depthOne_full_holds_any_keywords`, `C03_tree_full_holds_any_keywords`
      (the fragment theorems without the `E1` / distinct-keywords hypotheses);
    * recursion, EVERY call graph: `C03_tree_node_contributes` (every node of the BFS call tree reaches the
      root's result, unbound along its path), `C03_first_level_all_graphs`, `C03_direct_recursion_unrolled_once`,
      `C03_second_level_all_graphs`, `C03_callTree_wellformed`; `C03_test_swap_recursion`;
    * calls below statements without a dedicated visitor (`match` guards / subjects, conditions, `assert`,
      `raise`, `await`, `yield`, f-strings, operators): `C03_call_under_compound_is_own_call`,
      `C03_match_guard_call_is_own_call`, `C03_args_under_compound_reported`;
    * static methods: `C03_static_method_registered_before_body`, `C03_static_body_sees_itself`;
    * `pipeline_test_round3`: kernel evaluation of the whole pipeline model on a module with all three;
    * Tie A (`py/tables/t_c03.py`): `tieA_function_visitors`, `tieA_generic_kinds_have_no_visitor`,
      `tieA_static_method_steps`;
    * the SPEC of the recursion clause, `Spec.unroll` (RattrModel/Spec/Unroll.lean; op `c03_spec` holds it and
      `Spec.derive` against the harness' oracle on every generated program): `C03_unroll_is_derivable`,
      `C03_unroll_contains_own`, `C03_unroll_direct_recursion`, `C03_test_unroll_swap`.
-/
import RattrProofs.Lemmas.Results
import RattrProofs.Lemmas.ResultsCex
import RattrProofs.Lemmas.ResultsDepthOne
import RattrProofs.Lemmas.ResultsDepthOneSpec
import RattrProofs.Lemmas.ResultsTree
import RattrProofs.Lemmas.ResultsTreeSpec
import RattrProofs.Lemmas.ResultsTreeCheck
import RattrProofs.Props.C04
import RattrProofs.Lemmas.Pipeline
import RattrProofs.Lemmas.Project
import RattrProofs.Lemmas.C03ClassAssign
import RattrProofs.Lemmas.C03KwClash
import RattrProofs.Lemmas.C03Unroll
import RattrProofs.Lemmas.C03Nested
import RattrProofs.Lemmas.C03StaticSelf
import RattrProofs.Lemmas.C03UnrollSpec
import RattrModel.FnVisitors
import RattrModel.Generated.C03

namespace Rattr.C03
open Rattr Rattr.Results Rattr.Cex

/-! ### full statement -/

/-- soundness ∧ (on acyclic graphs) completeness of the reported gets/sets/dels w.r.t. the closure,
starting from the own accesses. -/
def C03_at (S : Spec.SProg) (order : List Key) : Prop :=
  ∀ rs σ', generate S.prog order S.own = .ok (rs, σ') → ∀ f res, (f, res) ∈ rs →
    (∀ n ∈ res.gets, Spec.DerivableGet S f n.full) ∧
    (∀ n ∈ res.sets, Spec.DerivableSet S f n.full) ∧
    (∀ n ∈ res.dels, Spec.DerivableDel S f n.full) ∧
    (Spec.Acyclic S.prog →
      (∀ n, Spec.DerivableGet S f n → n ∈ fulls res.gets) ∧
      (∀ n, Spec.DerivableSet S f n → n ∈ fulls res.sets) ∧
      (∀ n, Spec.DerivableDel S f n → n ∈ fulls res.dels))

def C03_full : Prop := ∀ S order, C03_at S order

/-! ### what holds for every program -/

/-- The call tree of any root, in any program (recursive or not), is built within the fuel
`totalCalls P + 1`. -/
theorem C03_terminates (P : Prog) (root : Key) : ∃ nodes, callTree P root = some nodes :=
  callTree_terminates P root

theorem runRoot_not_outOfFuel (P : Prog) (σ : Store) (root : Key) :
    runRoot P σ root ≠ .outOfFuel := by
  unfold runRoot
  obtain ⟨nodes, h⟩ := callTree_terminates P root
  rw [h]
  simp only
  split <;> simp

/-- Result generation never runs out of fuel: "the analysis terminates". -/
theorem C03_never_out_of_fuel (P : Prog) (order : List Key) (σ : Store) :
    generate P order σ ≠ .outOfFuel := by
  induction order generalizing σ with
  | nil => simp [generate]
  | cons f r ih =>
    simp only [generate]
    split
    · rename_i h; exact absurd h (runRoot_not_outOfFuel P σ f)
    · simp
    · rename_i res σ1 _
      split
      · simp
      · rename_i h; exact absurd h (ih σ1)
      · simp

/-- Every access in the store before generation (in particular: every own access) is reported
for its function. -/
theorem C03_own_included (P : Prog) (order : List Key) (σ σ' : Store) (rs : List (Key × IrSets))
    (h : generate P order σ = .ok (rs, σ')) :
    ∀ f res, (f, res) ∈ rs → ∀ x,
      (x ∈ (σ f).gets → x ∈ res.gets) ∧ (x ∈ (σ f).sets → x ∈ res.sets) ∧
      (x ∈ (σ f).dels → x ∈ res.dels) := by
  induction order generalizing σ rs with
  | nil =>
    simp [generate] at h
    obtain ⟨h1, _⟩ := h
    subst h1
    intro f res hm; cases hm
  | cons g r ih =>
    simp only [generate] at h
    split at h
    · cases h
    · cases h
    · rename_i res1 σ1 h1
      split at h
      · rename_i rs2 σ2 h2
        injection h with h
        injection h with hrs hs
        subst hrs
        subst hs
        have hle := runRoot_le P σ σ1 g res1 h1
        intro f res hm x
        rcases List.mem_cons.mp hm with hm | hm
        · injection hm with hf hres
          subst hf; subst hres
          unfold runRoot at h1
          split at h1
          · cases h1
          · split at h1
            · cases h1
            · injection h1 with h1
              injection h1 with hr hs
              subst hs
              rw [← hr]
              exact hle _ x
        · have := ih σ1 rs2 h2 f res hm x
          exact ⟨fun hx => this.1 ((hle f x).1 hx), fun hx => this.2.1 ((hle f x).2.1 hx),
                 fun hx => this.2.2 ((hle f x).2.2 hx)⟩
      · cases h
      · cases h

/-- With no resolvable callee, results are exactly the store entries (own accesses), in order. -/
theorem C03_no_resolvable_exact (P : Prog) (hP : ∀ c, P.resolve c = none) (order : List Key)
    (σ : Store) : generate P order σ = .ok (order.map (fun f => (f, σ f)), σ) :=
  generate_no_resolve P hP order σ

/-! ### counterexamples (known findings), by kernel evaluation of the model -/

/-- dedupe across paths: `b.attr` is derivable for `top` (depth 2) but not reported. -/
theorem C03_cex_dedupe :
    getsOf Pd σd [0, 1, 2, 3] 0 = some [s "a", s "b", s "a.attr"] ∧
    s "b.attr" ∈ (Spec.derive Sd 2 0).gets := by decide +kernel

/-- compound argument: `top` reports `sets p.q.attr` (a callee parameter survives) and misses the
derivable `z.y.q.attr`. -/
theorem C03_cex_compound :
    setsOf Pc σc [0, 1, 2, 3] 0 = some [s "p.q.attr"] ∧
    s "z.y.q.attr" ∈ (Spec.derive Sc 3 0).sets := by decide +kernel

theorem Pd_acyclic : Spec.Acyclic Pd := by
  refine ⟨fun k => 3 - k, ?_⟩
  intro f c g hc hr
  match f with
  | 0 =>
    have : c = call 0 "one" ["a"] ∨ c = call 1 "two" ["b"] := by simpa [Pd, fnAt] using hc
    rcases this with h | h <;> subst h <;> simp [Pd, call] at hr <;> subst hr <;> decide
  | 1 =>
    have : c = call 2 "leaf" ["x"] := by simpa [Pd, fnAt] using hc
    subst this; simp [Pd, call] at hr; subst hr; decide
  | 2 =>
    have : c = call 2 "leaf" ["x"] := by simpa [Pd, fnAt] using hc
    subst this; simp [Pd, call] at hr; subst hr; decide
  | 3 => simp [Pd, fnAt] at hc
  | n + 4 => simp [Pd, fnAt] at hc

theorem C03_full_false : ¬ C03_full := by
  intro h
  have hc := C03_cex_dedupe
  have hg : ∃ rs σ', generate Pd [0, 1, 2, 3] σd = .ok (rs, σ') ∧
      (rs.lookup 0).map (fun ir => fulls ir.gets) = some [s "a", s "b", s "a.attr"] := by
    have := hc.1
    unfold getsOf at this
    split at this
    · rename_i rs σ' hgen; exact ⟨rs, σ', hgen, this⟩
    · cases this
  obtain ⟨rs, σ', hgen, hl⟩ := hg
  cases hlk : rs.lookup 0 with
  | none => simp [hlk] at hl
  | some res =>
    simp only [hlk, Option.map_some, Option.some.injEq] at hl
    have hmem : (0, res) ∈ rs := by
      clear hl hgen
      induction rs with
      | nil => simp [List.lookup] at hlk
      | cons p r ih =>
        obtain ⟨k, v⟩ := p
        by_cases hk : (0 : Nat) = k
        · subst hk; simp [List.lookup] at hlk; subst hlk; exact List.mem_cons_self
        · have : (0 == k) = false := by simpa using hk
          simp [List.lookup, this] at hlk
          exact List.mem_cons_of_mem _ (ih hlk)
    have := (h Sd [0, 1, 2, 3] rs σ' hgen 0 res hmem).2.2.2 Pd_acyclic
    have hb := this.1 (s "b.attr") ⟨2, hc.2⟩
    rw [hl] at hb
    revert hb
    decide

/-! ### the depth-one fragment (every resolvable callee is a leaf): the pinned code is right -/

/-- The call tree of a root in a depth-one program is the root followed by its children
`kidsOf P f` (`kids` = explicit fold of `expand`), and nothing else: no grandchildren. A node is
a child iff it stems from a resolvable call of the name-sorted call list whose cid does not occur
earlier in that list (first occurrence wins); its parent is the root (index 0). -/
theorem callTree_depthOne (P : Prog) (hP : DepthOne P) (f : Key) :
    callTree P f = some (rootNode f :: kidsOf P f) ∧
    ∀ n, n ∈ kidsOf P f ↔
      ∃ pre c post g, sortCalls (fnAt P f).calls = pre ++ c :: post ∧
        (∀ c' ∈ pre, c'.cid ≠ c.cid) ∧ P.resolve c.cid = some g ∧
        n = { key := g, edgeIn := some c, parent := some 0 } := by
  refine ⟨callTree_eq_of_depthOne P hP f, ?_⟩
  intro n
  unfold kidsOf
  rw [mem_kids_iff]
  constructor
  · rintro ⟨pre, c, post, g, h1, h2, _, h3, h4⟩
    exact ⟨pre, c, post, g, h1, h2, h3, h4⟩
  · rintro ⟨pre, c, post, g, h1, h2, h3, h4⟩
    exact ⟨pre, c, post, g, h1, h2, by simp, h3, h4⟩

/-- One root in a depth-one program, exactly: the run fails iff some `unbind_name` raises;
otherwise only the root's entry changes, to `rootResult` = the root's entry `|=` the unbound entry
of each child's callee, in child order (`mergeKids`). -/
theorem runRoot_depthOne (P : Prog) (hP : DepthOne P) (σ : Store) (f : Key) :
    runRoot P σ f = match mergeKids P σ (kidsOf P f) (σ f) with
      | none => .never
      | some r => .ok (r, σ.update f r) :=
  runRoot_eq_of_depthOne P hP σ f

/-- frame: a run changes no entry but the root's — callees and all other functions are untouched. -/
theorem runRoot_depthOne_frame (P : Prog) (hP : DepthOne P) (σ σ' : Store) (f : Key) (res : IrSets)
    (h : runRoot P σ f = .ok (res, σ')) : σ' f = res ∧ ∀ k, k ≠ f → σ' k = σ k := by
  rw [runRoot_eq_of_depthOne P hP] at h
  cases hr : rootResult P σ f with
  | none => simp [hr] at h
  | some r =>
    simp only [hr, Out.ok.injEq, Prod.mk.injEq] at h
    obtain ⟨h1, h2⟩ := h
    subst h1; subst h2
    exact ⟨update_same _ _ _, fun k hk => update_other _ _ hk⟩

/-- membership form: a name is reported for the root iff it was in the root's entry or is in the
unbound entry of some child's callee. -/
theorem runRoot_depthOne_mem (P : Prog) (hP : DepthOne P) (σ σ' : Store) (f : Key) (res : IrSets)
    (h : runRoot P σ f = .ok (res, σ')) (k : Kind) (x : NameS) :
    x ∈ res.of k ↔ x ∈ (σ f).of k ∨
      ∃ ch ∈ kidsOf P f, ∃ c u, ch.edgeIn = some c ∧
        unbindIr (swapsOf P ch.key c) (σ ch.key) = some u ∧ x ∈ u.of k := by
  rw [runRoot_eq_of_depthOne P hP] at h
  cases hr : rootResult P σ f with
  | none => simp [hr] at h
  | some r =>
    simp only [hr, Out.ok.injEq, Prod.mk.injEq] at h
    obtain ⟨h1, _⟩ := h
    subst h1
    exact mem_mergeKids P σ _ _ _ hr k x

/-- `unbind_name` cannot raise when every callee's names start with their basename
(`CalleeWB`): the run succeeds. -/
theorem runRoot_depthOne_ok (P : Prog) (hP : DepthOne P) (σ : Store) (hσ : CalleeWB P σ) (f : Key) :
    ∃ res, runRoot P σ f = .ok (res, σ.update f res) := by
  rw [runRoot_eq_of_depthOne P hP]
  have := rootResult_isSome hσ f
  cases hr : rootResult P σ f with
  | none => simp [hr] at this
  | some r => exact ⟨r, rfl⟩

/-- `generate` over a depth-one program whose callees' names start with their basename never
raises. -/
theorem C03_depthOne_generate_ok (P : Prog) (hP : DepthOne P) (σ : Store) (hσ : CalleeWB P σ)
    (order : List Key) : ∃ rs σ', generate P order σ = .ok (rs, σ') :=
  generate_depthOne_ok hP order σ (Inv.refl P σ) (fun f _ => rootResult_isSome hσ f)

/-- non-vacuity (two callers sharing a leaf): the fragment hypotheses hold and both callers get a
child. -/
example : DepthOne P1 ∧ CalleeWB P1 σ1 ∧ (kidsOf P1 0).length = 1 ∧ (kidsOf P1 1).length = 1 ∧
    ∃ σ', runRoot P1 σ1 1 = .ok (⟨[nm "b.y" "b", nm "b.y.attr" "b.y"], [nm "b.y.z" "b.y"],
      [nm "b.y.w" "b.y"]⟩, σ') := by
  refine ⟨P1_depthOne, ?_, by decide, by decide, ?_⟩
  · rintro g ⟨f, c, hc, hr⟩
    have hg : g = 2 := by
      simp only [P1] at hr
      split at hr <;> simp_all
    subst hg
    intro k n hn
    cases k <;> simp [σ1, IrSets.of] at hn <;> subst hn <;> decide
  · rw [runRoot_eq_of_depthOne P1 P1_depthOne]
    have : rootResult P1 σ1 1 = some ⟨[nm "b.y" "b", nm "b.y.attr" "b.y"], [nm "b.y.z" "b.y"],
      [nm "b.y.w" "b.y"]⟩ := by decide +kernel
    rw [this]
    exact ⟨_, rfl⟩

/-! ### depth-one fragment: soundness and completeness w.r.t. the independent closure spec -/

/-- In a depth-one program the spec's unfolding is complete after one call level. -/
theorem C03_depthOne_derive_stable (S : Spec.SProg) (hP : DepthOne S.prog) (d : Nat) (f : Key) :
    Spec.derive S (d + 1) f = Spec.derive S 1 f :=
  derive_depthOne S hP d f

/-- C03 in the depth-one fragment. Hypotheses: every resolvable callee is a leaf (`DepthOne`);
equal Call symbols of one function have equal arguments (`CidArgs`, true of all real inputs);
callee own names have basename = root variable (`CalleeRootBased`); no `*`-spelled argument
(`NoStarArgs` — compound arguments `a.b`, `a[0]` ARE allowed at this depth); interfaces are those
of the signatures; Python accepts every resolvable call and a `**kwargs` parameter receives
something (`AcceptedCalls`); and — ASSUMED, it is the C04 statement — `hSw_C04 : SwapsAreBinding S`
(`construct_call_swaps` = Python's binding + stand-ins on those calls).
Then the spellings reported for any root are exactly the spec's closure `derive S 1 f`
(= `derive S d f` for every `d ≥ 1`), in any generation order. -/
theorem C03_depthOne_sound_complete (S : Spec.SProg) (hP : DepthOne S.prog)
    (hC : CidArgs S.prog) (hR : CalleeRootBased S) (hN : NoStarArgs S.prog) (hI : IfaceOfSig S)
    (hA : AcceptedCalls S) (hSw_C04 : SwapsAreBinding S)
    (order : List Key) (rs : List (Key × IrSets)) (σ' : Store)
    (hgen : generate S.prog order S.own = .ok (rs, σ')) (f : Key) (res : IrSets)
    (hf : (f, res) ∈ rs) (n : Str) :
    (n ∈ fulls res.gets ↔ n ∈ (Spec.derive S 1 f).gets) ∧
    (n ∈ fulls res.sets ↔ n ∈ (Spec.derive S 1 f).sets) ∧
    (n ∈ fulls res.dels ↔ n ∈ (Spec.derive S 1 f).dels) := by
  obtain ⟨_, hres, _⟩ := generate_depthOne hP order S.own σ' rs (Inv.refl _ _) hgen
  have hr := hres (f, res) hf
  simp only at hr
  have key := fun k => rootResult_iff_derive S hP hC hR hN hI hA hSw_C04 f res hr k n
  unfold fulls
  simp only [List.mem_map]
  exact ⟨key .get, key .set, key .del⟩

/-- …hence the FULL statement `C03_at` holds on the fragment (soundness, and completeness — the
call graph of a depth-one program is acyclic, `depthOne_acyclic`). -/
theorem C03_depthOne_full_holds (S : Spec.SProg) (hP : DepthOne S.prog)
    (hC : CidArgs S.prog) (hR : CalleeRootBased S) (hN : NoStarArgs S.prog) (hI : IfaceOfSig S)
    (hA : AcceptedCalls S) (hSw_C04 : SwapsAreBinding S) (order : List Key) :
    C03_at S order := by
  intro rs σ' hgen f res hf
  have key := C03_depthOne_sound_complete S hP hC hR hN hI hA hSw_C04 order rs σ' hgen f res hf
  have dg := fun n => derivable_iff_depthOne S hP f .get n
  have ds := fun n => derivable_iff_depthOne S hP f .set n
  have dd := fun n => derivable_iff_depthOne S hP f .del n
  refine ⟨?_, ?_, ?_, fun _ => ⟨?_, ?_, ?_⟩⟩
  · intro x hx
    exact (dg x.full).mpr ((key x.full).1.mp (List.mem_map.mpr ⟨x, hx, rfl⟩))
  · intro x hx
    exact (ds x.full).mpr ((key x.full).2.1.mp (List.mem_map.mpr ⟨x, hx, rfl⟩))
  · intro x hx
    exact (dd x.full).mpr ((key x.full).2.2.mp (List.mem_map.mpr ⟨x, hx, rfl⟩))
  · intro n hn
    exact (key n).1.mpr ((dg n).mp hn)
  · intro n hn
    exact (key n).2.1.mpr ((ds n).mp hn)
  · intro n hn
    exact (key n).2.2.mpr ((dd n).mp hn)

/-- non-vacuity: the two-callers-one-leaf program meets all hypotheses, is acyclic, and caller
`c2(b): leaf(b.y)` gets the compound-argument names `b.y.attr` / `b.y.z` / `b.y.w`. -/
example : C03_at S1 [0, 1, 2] ∧ Spec.Acyclic S1.prog ∧
    (Spec.derive S1 1 1).gets = [s "b.y", s "b.y.attr"] ∧
    (Spec.derive S1 1 1).sets = [s "b.y.z"] ∧ (Spec.derive S1 1 1).dels = [s "b.y.w"] := by
  obtain ⟨h1, h2, h3, h4, h5, h6, h7⟩ := S1_hyps
  exact ⟨C03_depthOne_full_holds S1 h1 h2 h3 h4 h5 h6 h7 _, depthOne_acyclic h1,
    by decide +kernel, by decide +kernel, by decide +kernel⟩

/-! ### the C04 fact, discharged from the general C04 theorem -/

/-- the parameter names of every callee's signature are pairwise distinct (Python guarantees it:
"duplicate argument" is a SyntaxError). -/
def SigsDistinct (S : Spec.SProg) : Prop :=
  ∀ g, IsCallee S.prog g → (Spec.sigAt S g).iface.all.Nodup

/-- the keyword keys of every resolvable call are pairwise distinct (Python guarantees it:
"keyword argument repeated" is a SyntaxError). -/
def KwDistinct (P : Prog) : Prop :=
  ∀ f c g, c ∈ (fnAt P f).calls → P.resolve c.cid = some g → (c.args.kwargs.map Prod.fst).Nodup

/-- every resolvable call is outside the two C04 defect classes `E1` (a keyword spelled like a
positional-only / `*args` / `**kwargs` parameter of a callee with `**kwargs`) and `E2` (a
positional-only parameter omitted). -/
def OutsideE1E2 (S : Spec.SProg) : Prop :=
  ∀ f c g, c ∈ (fnAt S.prog f).calls → S.prog.resolve c.cid = some g →
    ¬ C04.E1 (Spec.sigAt S g) c.args ∧ ¬ C04.E2 (Spec.sigAt S g) c.args

/-- **The C04 fact is a theorem.** For well-formed inputs outside `E1`/`E2`, on every resolvable
call Python accepts, `construct_call_swaps` is Python's binding plus stand-ins — from
`C04.C04_partial`. (That every resolvable call IS accepted is the separate hypothesis
`AcceptedCalls` of the fragment theorems; this statement is conditional on acceptance.) -/
theorem swapsAreBinding_of_C04 (S : Spec.SProg) (hSig : SigsDistinct S) (hKw : KwDistinct S.prog)
    (hE : OutsideE1E2 S) : SwapsAreBinding S := by
  intro f c g b hc hr hb k
  have h := C04.C04_partial (si S.prog) (Spec.sigAt S g) c.args (hSig g ⟨f, c, hc, hr⟩)
    (hKw f c g hc hr) (hE f c g hc hr).1 (hE f c g hc hr).2
  rw [hb] at h
  exact h.2 k

/-- `C03_depthOne_sound_complete` without the assumed C04 hypothesis. -/
theorem C03_depthOne_sound_complete_unconditional (S : Spec.SProg) (hP : DepthOne S.prog)
    (hC : CidArgs S.prog) (hR : CalleeRootBased S) (hN : NoStarArgs S.prog) (hI : IfaceOfSig S)
    (hA : AcceptedCalls S) (hSig : SigsDistinct S) (hKw : KwDistinct S.prog) (hE : OutsideE1E2 S)
    (order : List Key) (rs : List (Key × IrSets)) (σ' : Store)
    (hgen : generate S.prog order S.own = .ok (rs, σ')) (f : Key) (res : IrSets)
    (hf : (f, res) ∈ rs) (n : Str) :
    (n ∈ fulls res.gets ↔ n ∈ (Spec.derive S 1 f).gets) ∧
    (n ∈ fulls res.sets ↔ n ∈ (Spec.derive S 1 f).sets) ∧
    (n ∈ fulls res.dels ↔ n ∈ (Spec.derive S 1 f).dels) :=
  C03_depthOne_sound_complete S hP hC hR hN hI hA (swapsAreBinding_of_C04 S hSig hKw hE)
    order rs σ' hgen f res hf n

/-- `C03_depthOne_full_holds` without the assumed C04 hypothesis. -/
theorem C03_depthOne_full_holds_unconditional (S : Spec.SProg) (hP : DepthOne S.prog)
    (hC : CidArgs S.prog) (hR : CalleeRootBased S) (hN : NoStarArgs S.prog) (hI : IfaceOfSig S)
    (hA : AcceptedCalls S) (hSig : SigsDistinct S) (hKw : KwDistinct S.prog) (hE : OutsideE1E2 S)
    (order : List Key) : C03_at S order :=
  C03_depthOne_full_holds S hP hC hR hN hI hA (swapsAreBinding_of_C04 S hSig hKw hE) order

/-- executable check of the three C04 well-formedness hypotheses. -/
def c04ReadyB (S : Spec.SProg) : Bool :=
  edgesB S.prog (fun _ c g =>
    decide ((Spec.sigAt S g).iface.all.Nodup) && decide ((c.args.kwargs.map Prod.fst).Nodup) &&
    decide (¬ C04.E1 (Spec.sigAt S g) c.args) && decide (¬ C04.E2 (Spec.sigAt S g) c.args))

theorem c04Ready_of_check {S : Spec.SProg} (h : c04ReadyB S = true) :
    SigsDistinct S ∧ KwDistinct S.prog ∧ OutsideE1E2 S := by
  have key := fun f c g hc hr => edges_of_check h f c g hc hr
  simp only [Bool.and_eq_true, decide_eq_true_eq] at key
  refine ⟨?_, ?_, ?_⟩
  · rintro g ⟨f, c, hc, hr⟩; exact (key f c g hc hr).1.1.1
  · intro f c g hc hr; exact (key f c g hc hr).1.1.2
  · intro f c g hc hr; exact ⟨(key f c g hc hr).1.2, (key f c g hc hr).2⟩

/-- non-vacuity: the two-callers-one-leaf program meets the well-formedness hypotheses, so
`C03_at` holds for it with nothing assumed. -/
example : C03_at S1 [0, 1, 2] := by
  obtain ⟨h1, h2, h3, h4, h5, h6, _⟩ := S1_hyps
  obtain ⟨w1, w2, w3⟩ := c04Ready_of_check (S := S1) (by decide +kernel)
  exact C03_depthOne_full_holds_unconditional S1 h1 h2 h3 h4 h5 h6 w1 w2 w3 _

/-! ### the TREE fragment: call graphs of arbitrary depth -/

/-- **The tree fragment.** -/
structure TreeFragment (S : Spec.SProg) : Prop where
  /-- the resolvable call graph is acyclic and unfolds, from every root, to a tree: no call
  symbol class is reached along two different paths (`Reach`) from one root. -/
  tree : TreeLike S.prog
  /-- equal Call symbols of one function have equal arguments (true of all real inputs). -/
  cid : CidArgs S.prog
  /-- own names of callees have basename = root variable of the spelling. -/
  rootBased : CalleeRootBased S
  /-- every argument of a resolvable call is a bare identifier or an `@` stand-in. -/
  bare : BareArgs S.prog
  /-- the interface rattr holds for a callee is the one of its real signature. -/
  iface : IfaceOfSig S
  /-- Python accepts every resolvable call (and `**kwargs`, if any, receives something). -/
  accepted : AcceptedCalls S
  sigs : SigsDistinct S
  kws : KwDistinct S.prog
  c04 : OutsideE1E2 S

theorem TreeFragment.hyps {S : Spec.SProg} (h : TreeFragment S) : TreeHyps S :=
  ⟨h.cid, h.rootBased, h.bare, h.iface, h.accepted, swapsAreBinding_of_C04 S h.sigs h.kws h.c04⟩

/-- In the tree fragment the BFS call tree of `make_target_ir_call_tree` is the FULL unfolding of
the resolvable call graph from the root: node 0 is the root; every other node hangs under an
EARLIER node by a resolvable call of that node's function; and — the point — every resolvable
call of every node has a child (the tree-global `seen` set never cuts a call). -/
theorem C03_tree_callTree_full (P : Prog) (hT : TreeLike P) (root : Key) :
    ∃ nodes, callTree P root = some nodes ∧ FullTree P root nodes := by
  obtain ⟨nodes, h⟩ := callTree_terminates P root
  exact ⟨nodes, h, callTree_fullTree hT.2 root nodes h⟩

/-- ONE ROOT over ANY store `σ` with `own ⊆ σ g ⊆ Clo g` for every `g` (`StoreInv` — e.g. the own
accesses themselves, or the store any earlier roots left behind): the result of the root is
EXACTLY its closure `Clo` (own accesses ∪ unbound closures of all resolvable callees, at every
depth). Needs only `TreeLike` and `CidArgs`. -/
theorem C03_tree_result_is_closure (P : Prog) (hT : TreeLike P) (hC : CidArgs P) (own σ σ' : Store)
    (hInv : StoreInv P own σ) (f : Key) (res : IrSets) (h : runRoot P σ f = .ok (res, σ'))
    (k : Kind) (x : NameS) : x ∈ res.of k ↔ Clo P own k f x :=
  (runRoot_tree hT.2 hC hInv h).1 k x

/-- `StoreInv` (own ⊆ σ g ⊆ closure g, all g) is preserved by generating any sequence of roots;
every generated root's entry ends up complete. This is what makes later roots right although
the store is shared and mutated. -/
theorem C03_tree_storeInv_preserved (P : Prog) (hT : TreeLike P) (hC : CidArgs P)
    (own σ σ' : Store) (hInv : StoreInv P own σ) (order : List Key) (rs : List (Key × IrSets))
    (h : generate P order σ = .ok (rs, σ')) :
    StoreInv P own σ' ∧ ∀ f ∈ order, CompleteAt P own σ' f := by
  obtain ⟨_, _, a, b⟩ := generate_tree hT.2 hC order σ σ' rs hInv h
  exact ⟨a, b⟩

theorem tree_mem_iff {S : Spec.SProg} (hF : TreeFragment S) {f : Key} {res : IrSets}
    (hres : ∀ k x, x ∈ res.of k ↔ Clo S.prog S.own k f x) (n : Str) :
    (n ∈ fulls res.gets ↔ Spec.DerivableGet S f n) ∧
    (n ∈ fulls res.sets ↔ Spec.DerivableSet S f n) ∧
    (n ∈ fulls res.dels ↔ Spec.DerivableDel S f n) := by
  have key : ∀ k : Kind, (∃ x ∈ res.of k, x.full = n) ↔ ∃ d, n ∈ (Spec.derive S d f).of k := by
    intro k
    rw [← clo_iff_derivable hF.hyps k f n]
    constructor
    · rintro ⟨x, hx, e⟩; exact ⟨x, (hres k x).mp hx, e⟩
    · rintro ⟨x, hx, e⟩; exact ⟨x, (hres k x).mpr hx, e⟩
  unfold fulls
  simp only [List.mem_map]
  exact ⟨key .get, key .set, key .del⟩

/-- **(a) C03 in the tree fragment, first root.** For a root processed first (over the own
accesses), at ANY call depth: a spelling is reported for `f` iff it is derivable for `f` in the
independent closure spec (`∃ d, · ∈ Spec.derive S d f`), for gets, sets and dels. -/
theorem C03_tree_sound_complete (S : Spec.SProg) (hF : TreeFragment S) (f : Key) (res : IrSets)
    (σ' : Store) (h : runRoot S.prog S.own f = .ok (res, σ')) (n : Str) :
    (n ∈ fulls res.gets ↔ Spec.DerivableGet S f n) ∧
    (n ∈ fulls res.sets ↔ Spec.DerivableSet S f n) ∧
    (n ∈ fulls res.dels ↔ Spec.DerivableDel S f n) :=
  tree_mem_iff hF (runRoot_tree hF.tree.2 hF.cid (StoreInv.refl _ _) h).1 n

/-- …equivalently the unfolding at depth `rank f`, for any rank function witnessing acyclicity. -/
theorem C03_tree_sound_complete_rank (S : Spec.SProg) (hF : TreeFragment S) (rank : Key → Nat)
    (hrank : ∀ f c g, c ∈ (fnAt S.prog f).calls → S.prog.resolve c.cid = some g → rank g < rank f)
    (f : Key) (res : IrSets) (σ' : Store) (h : runRoot S.prog S.own f = .ok (res, σ')) (n : Str) :
    (n ∈ fulls res.gets ↔ n ∈ (Spec.derive S (rank f) f).gets) ∧
    (n ∈ fulls res.sets ↔ n ∈ (Spec.derive S (rank f) f).sets) ∧
    (n ∈ fulls res.dels ↔ n ∈ (Spec.derive S (rank f) f).dels) := by
  obtain ⟨a, b, c⟩ := C03_tree_sound_complete S hF f res σ' h n
  have key : ∀ k : Kind, (∃ d, n ∈ (Spec.derive S d f).of k) ↔
      n ∈ (Spec.derive S (rank f) f).of k :=
    fun k => ⟨fun ⟨d, hd⟩ => derive_at_rank S rank hrank k d f n hd, fun h => ⟨_, h⟩⟩
  exact ⟨a.trans (key .get), b.trans (key .set), c.trans (key .del)⟩

/-- **(b) the store invariant of DESIGN §5 C03.** After generating results for any sequence of
roots, for EVERY function `g` (generated or not): its own accesses are still in its entry, and
every name in its entry is derivable for `g` — `own g ⊆ σ' g ⊆ Derivable g`. -/
theorem C03_tree_store_invariant (S : Spec.SProg) (hF : TreeFragment S) (order : List Key)
    (rs : List (Key × IrSets)) (σ' : Store) (h : generate S.prog order S.own = .ok (rs, σ'))
    (g : Key) :
    ((∀ x ∈ (S.own g).gets, x ∈ (σ' g).gets) ∧ (∀ x ∈ (S.own g).sets, x ∈ (σ' g).sets) ∧
      (∀ x ∈ (S.own g).dels, x ∈ (σ' g).dels)) ∧
    ((∀ x ∈ (σ' g).gets, Spec.DerivableGet S g x.full) ∧
      (∀ x ∈ (σ' g).sets, Spec.DerivableSet S g x.full) ∧
      (∀ x ∈ (σ' g).dels, Spec.DerivableDel S g x.full)) := by
  obtain ⟨⟨hO, hS⟩, _⟩ := C03_tree_storeInv_preserved S.prog hF.tree hF.cid S.own S.own σ'
    (StoreInv.refl _ _) order rs h
  have d := fun k x hx => clo_derivable hF.hyps k g x (hS g k x hx)
  exact ⟨⟨hO g .get, hO g .set, hO g .del⟩, d .get, d .set, d .del⟩

/-- **(c) C03 in the tree fragment, every root, any order.** Whatever the order of roots — i.e.
whatever earlier roots wrote into the shared store — the spellings reported for every root are
exactly the derivable ones. -/
theorem C03_tree_any_order (S : Spec.SProg) (hF : TreeFragment S) (order : List Key)
    (rs : List (Key × IrSets)) (σ' : Store) (hgen : generate S.prog order S.own = .ok (rs, σ'))
    (f : Key) (res : IrSets) (hf : (f, res) ∈ rs) (n : Str) :
    (n ∈ fulls res.gets ↔ Spec.DerivableGet S f n) ∧
    (n ∈ fulls res.sets ↔ Spec.DerivableSet S f n) ∧
    (n ∈ fulls res.dels ↔ Spec.DerivableDel S f n) := by
  obtain ⟨_, hres, _, _⟩ := generate_tree hF.tree.2 hF.cid order S.own σ' rs (StoreInv.refl _ _) hgen
  exact tree_mem_iff hF (hres f res hf) n

/-- …hence the FULL statement `C03_at` holds on the tree fragment, for every order. -/
theorem C03_tree_full_holds (S : Spec.SProg) (hF : TreeFragment S) (order : List Key) :
    C03_at S order := by
  intro rs σ' hgen f res hf
  have key := C03_tree_any_order S hF order rs σ' hgen f res hf
  refine ⟨?_, ?_, ?_, fun _ => ⟨?_, ?_, ?_⟩⟩
  · intro x hx; exact (key x.full).1.mp (List.mem_map.mpr ⟨x, hx, rfl⟩)
  · intro x hx; exact (key x.full).2.1.mp (List.mem_map.mpr ⟨x, hx, rfl⟩)
  · intro x hx; exact (key x.full).2.2.mp (List.mem_map.mpr ⟨x, hx, rfl⟩)
  · intro n hn; exact (key n).1.mpr hn
  · intro n hn; exact (key n).2.1.mpr hn
  · intro n hn; exact (key n).2.2.mpr hn

/-- In the tree fragment `unbind_name` never raises: `generate` succeeds for every order. -/
theorem C03_tree_generate_ok (S : Spec.SProg) (hF : TreeFragment S) (order : List Key) :
    ∃ rs σ', generate S.prog order S.own = .ok (rs, σ') :=
  generate_tree_ok hF.tree.2 hF.cid (noFail_of_hyps hF.hyps) order S.own (StoreInv.refl _ _)

/-- **Soundness for EVERY call graph.** With bare arguments (and the other hypotheses about the
analysed program — but NO hypothesis on the shape of the call graph: shared callees, diamonds and
recursion included), every name the pinned code reports for any root, in any order, is derivable.
What fails outside the tree fragment is completeness only (`C03_cex_dedupe`). -/
theorem C03_bare_sound_all_graphs (S : Spec.SProg) (hC : CidArgs S.prog) (hR : CalleeRootBased S)
    (hB : BareArgs S.prog) (hI : IfaceOfSig S) (hA : AcceptedCalls S) (hSig : SigsDistinct S)
    (hKw : KwDistinct S.prog) (hE : OutsideE1E2 S) (order : List Key) (rs : List (Key × IrSets))
    (σ' : Store) (hgen : generate S.prog order S.own = .ok (rs, σ')) (f : Key) (res : IrSets)
    (hf : (f, res) ∈ rs) :
    (∀ n ∈ res.gets, Spec.DerivableGet S f n.full) ∧
    (∀ n ∈ res.sets, Spec.DerivableSet S f n.full) ∧
    (∀ n ∈ res.dels, Spec.DerivableDel S f n.full) := by
  have hH : TreeHyps S := ⟨hC, hR, hB, hI, hA, swapsAreBinding_of_C04 S hSig hKw hE⟩
  obtain ⟨a, _⟩ := generate_sound_all order S.own σ' rs (StoreInv.refl S.prog S.own).2 hgen
  have d := fun k x hx => clo_derivable hH k f x (a f res hf k x hx)
  exact ⟨d .get, d .set, d .del⟩

/-- non-vacuity: the C03-dedupe program (a diamond: `leaf(x)` reached on two paths) is OUTSIDE
the tree fragment, meets the hypotheses of `C03_bare_sound_all_graphs`, and indeed reports only
derivable names while missing the derivable `b.attr`. -/
example : ¬ TreeLike Pd ∧ TreeHyps0 Sd ∧
    (SigsDistinct Sd ∧ KwDistinct Sd.prog ∧ OutsideE1E2 Sd) ∧
    getsOf Pd σd [0, 1, 2, 3] 0 = some [s "a", s "b", s "a.attr"] := by
  refine ⟨?_, treeHyps0_of_check (by decide +kernel), c04Ready_of_check (by decide +kernel),
    by decide +kernel⟩
  intro hT
  have r1 : Reach Pd 0 ([0] ++ [2]) 3 :=
    Reach.cons (c := call 0 "one" ["a"]) (by decide) rfl
      (Reach.cons (c := call 2 "leaf" ["x"]) (by decide) rfl (Reach.nil 3))
  have r2 : Reach Pd 0 ([1] ++ [2]) 3 :=
    Reach.cons (c := call 1 "two" ["b"]) (by decide) rfl
      (Reach.cons (c := call 2 "leaf" ["x"]) (by decide) rfl (Reach.nil 3))
  exact absurd (hT.2 0 [0] [1] 2 3 3 r1 r2) (by decide)

/-- CHAIN programs (acyclic, every function has at most one resolvable call; a function may
be called from many functions and roots) are in the tree fragment: along the single path from a
root no cid repeats, because the graph is acyclic. -/
theorem C03_chain_treeLike (P : Prog) (h : Chain P) : TreeLike P := chain_treeLike h

/-- C03 for chains of any length, every root, any order. -/
theorem C03_chain_sound_complete (S : Spec.SProg) (hCh : Chain S.prog) (hC : CidArgs S.prog)
    (hR : CalleeRootBased S) (hB : BareArgs S.prog) (hI : IfaceOfSig S) (hA : AcceptedCalls S)
    (hSig : SigsDistinct S) (hKw : KwDistinct S.prog) (hE : OutsideE1E2 S) (order : List Key)
    (rs : List (Key × IrSets)) (σ' : Store) (hgen : generate S.prog order S.own = .ok (rs, σ'))
    (f : Key) (res : IrSets) (hf : (f, res) ∈ rs) (n : Str) :
    (n ∈ fulls res.gets ↔ Spec.DerivableGet S f n) ∧
    (n ∈ fulls res.sets ↔ Spec.DerivableSet S f n) ∧
    (n ∈ fulls res.dels ↔ Spec.DerivableDel S f n) :=
  C03_tree_any_order S ⟨chain_treeLike hCh, hC, hR, hB, hI, hA, hSig, hKw, hE⟩ order rs σ' hgen
    f res hf n

/-- non-vacuity, the 4-function chain `a → b → c → d` (depth three, bare arguments): it is in the
fragment, `C03_at` holds, generation succeeds, and `a` reports the names of `d` three levels
down rewritten to its own parameter. -/
example : Chain Pchain ∧ TreeFragment Schain ∧ C03_at Schain [0, 1, 2, 3] ∧
    getsOf Pchain σchain [0, 1, 2, 3] 0 = some [s "x.a0", s "x.b0", s "x.d0"] ∧
    setsOf Pchain σchain [3, 1, 0, 2] 0 = some [s "x.c0"] ∧
    (Spec.derive Schain 3 0).gets = [s "x.a0", s "x.b0", s "x.d0"] := by
  have hF : TreeFragment Schain := by
    obtain ⟨w1, w2, w3⟩ := c04Ready_of_check (S := Schain) (by decide +kernel)
    exact ⟨Pchain_treeLike, Schain_hyps0.cid, Schain_hyps0.rootBased, Schain_hyps0.bare,
      Schain_hyps0.iface, Schain_hyps0.accepted, w1, w2, w3⟩
  exact ⟨Pchain_chain, hF, C03_tree_full_holds Schain hF _, by decide +kernel, by decide +kernel,
    by decide +kernel⟩

/-- non-vacuity, the 5-function binary tree `top → {l → {ll, lr}, r}` with swapped arguments. -/
example : TreeFragment Stree ∧ C03_at Stree [0, 1, 2, 3, 4] ∧
    setsOf Ptree σtree [0, 1, 2, 3, 4] 0 = some [s "p.x"] ∧
    (Spec.derive Stree 2 0).sets = [s "p.x"] ∧ (Spec.derive Stree 2 0).dels = [s "q.y"] := by
  have hF : TreeFragment Stree := by
    obtain ⟨w1, w2, w3⟩ := c04Ready_of_check (S := Stree) (by decide +kernel)
    exact ⟨Ptree_treeLike, Stree_hyps0.cid, Stree_hyps0.rootBased, Stree_hyps0.bare,
      Stree_hyps0.iface, Stree_hyps0.accepted, w1, w2, w3⟩
  exact ⟨hF, C03_tree_full_holds Stree hF _, by decide +kernel, by decide +kernel,
    by decide +kernel⟩

/-- non-vacuity of (b)/(c), two roots sharing the NON-LEAF callee `g` (`r1 → g → h`, `r2 → g`):
whichever root is generated second reads the entry of `g` that the first one already closed, and
still reports exactly the derivable names. -/
example : TreeFragment Sshare ∧ C03_at Sshare [0, 1, 2, 3] ∧ C03_at Sshare [2, 1, 3, 0] ∧
    getsOf Pshare σshare [0, 1, 2, 3] 1 = some [s "b.q"] ∧
    setsOf Pshare σshare [0, 1, 2, 3] 1 = some [s "b.z"] ∧
    setsOf Pshare σshare [2, 1, 3, 0] 1 = some [s "b.z"] ∧
    storeAfter Pshare σshare [0] 2 = some ⟨[nm "x.q" "x"], [nm "x.z" "x"], []⟩ := by
  have hF : TreeFragment Sshare := by
    obtain ⟨w1, w2, w3⟩ := c04Ready_of_check (S := Sshare) (by decide +kernel)
    exact ⟨Pshare_treeLike, Sshare_hyps0.cid, Sshare_hyps0.rootBased, Sshare_hyps0.bare,
      Sshare_hyps0.iface, Sshare_hyps0.accepted, w1, w2, w3⟩
  exact ⟨hF, C03_tree_full_holds Sshare hF _, C03_tree_full_holds Sshare hF _, by decide +kernel,
    by decide +kernel, by decide +kernel, by decide +kernel⟩

end Rattr.C03

/-! ## The whole single-file pipeline in ONE model (`RattrModel/Pipeline.lean`)

`Pipeline.run env mn facts builtins module imports` = compile the root context → analyse the file
(every function / named lambda / class initialiser / static method) → find the callee IR of every
Call symbol → generate the results of every callable over ONE shared store → the printed document.
The theorems below are END-TO-END: their subject is the document computed FROM THE MODULE; the
stage-local theorems above are used through the adapter lemmas of `Lemmas/Pipeline.lean`.
`fir` is always the FileIr of the file stage (`FileA.analyseFile`), `specOf … fir sigs` the closure
spec's view of it (`sigs`: any assignment of defaults to the parameters — the model's `Params` do
not carry them). -/

namespace Rattr.C03
open Rattr Rattr.Results Rattr.Pipeline Rattr.Spec

section PipelineTheorems
variable {env : FnA.Env} {mn : Str} {f : Facts} {b : List Str} {body : List Top} {imp : ImpFacts}
  {doc : ResultsDoc} {ds : List Diag}

theorem mem_entry_of {ir : IR} {res : IrSets} (k : Kind) (n : Str) :
    (match k with
      | .get => n ∈ (entry ir res).gets
      | .set => n ∈ (entry ir res).sets
      | .del => n ∈ (entry ir res).dels) ↔ ∃ x ∈ res.of k, x.full = n := by
  cases k <;> simp [entry, mem_sortStrs, Pipeline.fulls, IrSets.of]

/-- **`pipeline_composition`.** A successful run of the pipeline model is exactly: the FileIr of
the file stage; the proved `Results.generate` on the adapter's program (`toProg`: keys = positions,
cids = equality classes of Call symbols, `resolve` = `find_call_target_and_ir`) over the FileIr's
own sets, every key a root, in FileIr order; the document holds `entry` of each key's result under
the key's name (the last key of a name wins, as in a Python dict). -/
theorem pipeline_composition (h : run env mn f b body imp = .ok (doc, ds)) :
    ∃ fir d0 rs σ', FileA.analyseFile env mn f b body = .ok (fir, d0) ∧
      generate (toProg id f imp fir) (List.range fir.length) (toStore fir) = .ok (rs, σ') ∧
      doc = mkDoc fir rs ∧
      ∀ k sym ir, fir[k]? = some (sym, ir) → LastOfName fir k sym.name →
        ∃ res, (k, res) ∈ rs ∧ Dict.get? doc sym.name = some (entry ir res) :=
  run_entry h

/-- **`pipeline_entries`.** The functions of the results document are exactly the analysed
callables of the file stage (names; order irrelevant): every key of the FileIr has an entry, and
there is no other entry. -/
theorem pipeline_entries (h : run env mn f b body imp = .ok (doc, ds)) :
    ∃ fir d0, FileA.analyseFile env mn f b body = .ok (fir, d0) ∧
      ∀ n, n ∈ Dict.keys doc ↔ ∃ p ∈ fir, p.1.name = n := by
  obtain ⟨fir, d0, rs, σ', hfile, hg, hdoc, _⟩ := run_entry h
  refine ⟨fir, d0, hfile, ?_⟩
  intro n
  have hfst := generate_fst _ _ _ _ _ hg
  rw [hdoc, mkDoc_keys]
  constructor
  · rintro ⟨p, _, sym, ir, hp, hn⟩
    exact ⟨(sym, ir), List.mem_of_getElem? hp, hn⟩
  · rintro ⟨p, hp, hn⟩
    obtain ⟨k, hk⟩ := List.getElem?_of_mem hp
    obtain ⟨res, hm⟩ := mem_rs_of_lt hfst (lt_length_of_getElem? hk)
    exact ⟨(k, res), hm, p.1, p.2, hk, hn⟩

/-- **`pipeline_own_and_calls`** — for EVERY module, every call graph: the entry of a callable
contains every name of its own IR, and its `calls` are exactly its own calls (`name()`), never a
callee's. -/
theorem pipeline_own_and_calls (h : run env mn f b body imp = .ok (doc, ds)) :
    ∃ fir d0, FileA.analyseFile env mn f b body = .ok (fir, d0) ∧
      ∀ k sym ir, fir[k]? = some (sym, ir) → LastOfName fir k sym.name →
        ∃ e, Dict.get? doc sym.name = some e ∧
          (∀ x ∈ ir.gets, x.full ∈ e.gets) ∧ (∀ x ∈ ir.sets, x.full ∈ e.sets) ∧
          (∀ x ∈ ir.dels, x.full ∈ e.dels) ∧ e.calls = sortStrs (ir.calls.map nameOfCall) := by
  obtain ⟨fir, d0, rs, σ', hfile, hg, _, hent⟩ := run_entry h
  refine ⟨fir, d0, hfile, ?_⟩
  intro k sym ir hk hlast
  obtain ⟨res, hm, hget⟩ := hent k sym ir hk hlast
  have hown := C03_own_included _ _ _ _ _ hg k res hm
  have hst : toStore fir k = irSets ir := toStore_eq fir k (sym, ir) hk
  refine ⟨entry ir res, hget, ?_, ?_, ?_, rfl⟩
  · intro x hx
    exact (mem_entry_of .get x.full).mpr ⟨x, (hown x).1 (by rw [hst]; exact hx), rfl⟩
  · intro x hx
    exact (mem_entry_of .set x.full).mpr ⟨x, (hown x).2.1 (by rw [hst]; exact hx), rfl⟩
  · intro x hx
    exact (mem_entry_of .del x.full).mpr ⟨x, (hown x).2.2 (by rw [hst]; exact hx), rfl⟩

/-- **`pipeline_leaf_exact`** — source → document. A callable whose IR holds no call that
`find_call_target_and_ir` resolves (no calls at all, or only calls to builtins, methods, undefined
/ ignored / excluded / nested / imported targets) gets EXACTLY the names of its own IR — whatever
the rest of the module is (it may be called from anywhere, at any depth, before or after: the
shared store is never written at a leaf). -/
theorem pipeline_leaf_exact (h : run env mn f b body imp = .ok (doc, ds)) :
    ∃ fir d0, FileA.analyseFile env mn f b body = .ok (fir, d0) ∧
      ∀ k sym ir, fir[k]? = some (sym, ir) → LastOfName fir k sym.name → NoResolvable f imp fir ir →
        Dict.get? doc sym.name = some
          { gets := sortStrs (Pipeline.fulls ir.gets), sets := sortStrs (Pipeline.fulls ir.sets),
            dels := sortStrs (Pipeline.fulls ir.dels), calls := sortStrs (ir.calls.map nameOfCall) } := by
  obtain ⟨fir, d0, rs, σ', hfile, hg, _, hent⟩ := run_entry h
  refine ⟨fir, d0, hfile, ?_⟩
  intro k sym ir hk hlast hleaf
  obtain ⟨res, hm, hget⟩ := hent k sym ir hk hlast
  have hL := isLeaf_toProg hk hleaf
  obtain ⟨σ1, σ2, _, hfr, _, hrun⟩ := generate_at _ hg hm
  rw [runRoot_leaf hL] at hrun
  simp only [Out.ok.injEq, Prod.mk.injEq] at hrun
  have hres : res = irSets ir := by
    rw [← hrun.1, hfr k hL]
    exact toStore_eq fir k (sym, ir) hk
  rw [hget, hres]
  rfl

/-- what `pipeline_depth_one` asks of ONE resolvable call `c` of the caller to callee `g`. -/
structure EdgeHyp (S : Spec.SProg) (c : CallRec) (g : Key) : Prop where
  /-- own names of the callee have basename = root variable of the spelling -/
  rootBased : ∀ k, ∀ n ∈ (S.own g).of k, RootBased n
  /-- no `*`-spelled argument (compound arguments `a.b`, `a[0]` ARE allowed at this depth) -/
  noStar : (∀ a ∈ c.args.args, a.head? ≠ some '*') ∧ (∀ kv ∈ c.args.kwargs, kv.2.head? ≠ some '*')
  /-- the interface rattr holds for the callee is that of its signature -/
  iface : (fnAt S.prog g).iface = (Spec.sigAt S g).iface
  /-- Python accepts the call, and `**kwargs` (if any) receives something -/
  accepted : ∃ b, Spec.pyBind (Spec.sigAt S g) c.args = .ok b ∧ ((Spec.sigAt S g).kwarg.isSome → b.kwargGot ≠ [])
  sigDistinct : (Spec.sigAt S g).iface.all.Nodup
  kwDistinct : (c.args.kwargs.map Prod.fst).Nodup
  notE1 : ¬ C04.E1 (Spec.sigAt S g) c.args
  notE2 : ¬ C04.E2 (Spec.sigAt S g) c.args

theorem EdgeHyp.to0 {S : Spec.SProg} {c : CallRec} {g : Key} (h : EdgeHyp S c g) : Spec.EdgeHyp0 S c g :=
  { rootBased := h.rootBased, noStar := h.noStar, iface := h.iface, accepted := h.accepted,
    swaps := by
      intro bd hb k
      have hh := C04.C04_partial (si S.prog) (Spec.sigAt S g) c.args h.sigDistinct h.kwDistinct h.notE1 h.notE2
      rw [hb] at hh
      exact hh.2 k }

/-- **`pipeline_depth_one`** — source → document, against the independent closure spec. For a
caller `k` whose resolvable callees are all leaves and whose calls to them are accepted by Python,
outside the C04 defect classes, without `*`-spelled arguments: the document entry of `k` is exactly
the spec's one-level unfolding — its own names plus each callee's names with the callee's
parameters substituted by the argument expressions (`Spec.derive S 1 k`). Every hypothesis is
about `k` and its own calls; the rest of the module is arbitrary (deep chains, shared callees,
recursion elsewhere), and so is the position of `k` among the roots. -/
theorem pipeline_depth_one (h : run env mn f b body imp = .ok (doc, ds)) :
    ∃ fir d0, FileA.analyseFile env mn f b body = .ok (fir, d0) ∧
      ∀ (sigs : List (Spec.Sig Str)) k sym ir, fir[k]? = some (sym, ir) → LastOfName fir k sym.name →
        LocalD1 (specOf f imp fir sigs).prog k →
        (∀ c ∈ (fnAt (specOf f imp fir sigs).prog k).calls, ∀ g,
            (specOf f imp fir sigs).prog.resolve c.cid = some g → EdgeHyp (specOf f imp fir sigs) c g) →
        ∃ e, Dict.get? doc sym.name = some e ∧
          e.calls = sortStrs (ir.calls.map nameOfCall) ∧
          ∀ n, (n ∈ e.gets ↔ n ∈ (Spec.derive (specOf f imp fir sigs) 1 k).gets) ∧
               (n ∈ e.sets ↔ n ∈ (Spec.derive (specOf f imp fir sigs) 1 k).sets) ∧
               (n ∈ e.dels ↔ n ∈ (Spec.derive (specOf f imp fir sigs) 1 k).dels) := by
  obtain ⟨fir, d0, rs, σ', hfile, hg, _, hent⟩ := run_entry h
  refine ⟨fir, d0, hfile, ?_⟩
  intro sigs k sym ir hk hlast hL hE
  obtain ⟨res, hm, hget⟩ := hent k sym ir hk hlast
  refine ⟨entry ir res, hget, rfl, ?_⟩
  intro n
  have key := fun kd => Spec.localD1_iff_derive (specOf f imp fir sigs) (toProg_cidArgs f imp fir)
    (standIns_toProg f imp fir) _ rs σ' hg hm hL (fun c hc g hr => (hE c hc g hr).to0) kd n
  exact ⟨(mem_entry_of .get n).trans (key .get), (mem_entry_of .set n).trans (key .set),
    (mem_entry_of .del n).trans (key .del)⟩

/-- **`pipeline_tree_sound_complete`** — source → document at ANY depth. If the module's resolvable
call graph is in the tree fragment (`TreeFragment`: acyclic, no call symbol reached along two paths
from one root, bare-name arguments, calls Python accepts, outside the C04 defect classes), the
document entry of EVERY callable is exactly the closure: a spelling is listed iff it is derivable
in the independent spec, for gets, sets and dels — although all callables are generated over one
shared, mutated store. -/
theorem pipeline_tree_sound_complete (h : run env mn f b body imp = .ok (doc, ds)) :
    ∃ fir d0, FileA.analyseFile env mn f b body = .ok (fir, d0) ∧
      ∀ (sigs : List (Spec.Sig Str)), TreeFragment (specOf f imp fir sigs) →
        ∀ k sym ir, fir[k]? = some (sym, ir) → LastOfName fir k sym.name →
          ∃ e, Dict.get? doc sym.name = some e ∧
            e.calls = sortStrs (ir.calls.map nameOfCall) ∧
            ∀ n, (n ∈ e.gets ↔ Spec.DerivableGet (specOf f imp fir sigs) k n) ∧
                 (n ∈ e.sets ↔ Spec.DerivableSet (specOf f imp fir sigs) k n) ∧
                 (n ∈ e.dels ↔ Spec.DerivableDel (specOf f imp fir sigs) k n) := by
  obtain ⟨fir, d0, rs, σ', hfile, hg, _, hent⟩ := run_entry h
  refine ⟨fir, d0, hfile, ?_⟩
  intro sigs hF k sym ir hk hlast
  obtain ⟨res, hm, hget⟩ := hent k sym ir hk hlast
  refine ⟨entry ir res, hget, rfl, ?_⟩
  intro n
  obtain ⟨a1, a2, a3⟩ := C03_tree_any_order (specOf f imp fir sigs) hF _ rs σ' hg k res hm n
  refine ⟨?_, ?_, ?_⟩
  · rw [← a1]; simp [entry, mem_sortStrs, Pipeline.fulls, Cex.fulls]
  · rw [← a2]; simp [entry, mem_sortStrs, Pipeline.fulls, Cex.fulls]
  · rw [← a3]; simp [entry, mem_sortStrs, Pipeline.fulls, Cex.fulls]

/-- **`pipeline_sound_all_graphs`** — soundness end-to-end for EVERY call graph (diamonds, shared
callees, recursion): with bare-name arguments and accepted calls, every spelling the document lists
for any callable is derivable. (Completeness is what fails outside the tree fragment:
`C03_cex_dedupe`.) -/
theorem pipeline_sound_all_graphs (h : run env mn f b body imp = .ok (doc, ds)) :
    ∃ fir d0, FileA.analyseFile env mn f b body = .ok (fir, d0) ∧
      ∀ (sigs : List (Spec.Sig Str)), CalleeRootBased (specOf f imp fir sigs) →
        BareArgs (specOf f imp fir sigs).prog → IfaceOfSig (specOf f imp fir sigs) →
        AcceptedCalls (specOf f imp fir sigs) → SigsDistinct (specOf f imp fir sigs) →
        KwDistinct (specOf f imp fir sigs).prog → OutsideE1E2 (specOf f imp fir sigs) →
        ∀ k sym ir, fir[k]? = some (sym, ir) → LastOfName fir k sym.name →
          ∃ e, Dict.get? doc sym.name = some e ∧
            (∀ n ∈ e.gets, Spec.DerivableGet (specOf f imp fir sigs) k n) ∧
            (∀ n ∈ e.sets, Spec.DerivableSet (specOf f imp fir sigs) k n) ∧
            (∀ n ∈ e.dels, Spec.DerivableDel (specOf f imp fir sigs) k n) := by
  obtain ⟨fir, d0, rs, σ', hfile, hg, _, hent⟩ := run_entry h
  refine ⟨fir, d0, hfile, ?_⟩
  intro sigs hR hB hI hA hSig hKw hE k sym ir hk hlast
  obtain ⟨res, hm, hget⟩ := hent k sym ir hk hlast
  obtain ⟨a1, a2, a3⟩ := C03_bare_sound_all_graphs (specOf f imp fir sigs) (toProg_cidArgs f imp fir)
    hR hB hI hA hSig hKw hE _ rs σ' hg k res hm
  refine ⟨entry ir res, hget, ?_, ?_, ?_⟩
  · intro n hn
    obtain ⟨x, hx, e⟩ := (mem_entry_of .get n).mp hn
    rw [← e]; exact a1 x hx
  · intro n hn
    obtain ⟨x, hx, e⟩ := (mem_entry_of .set n).mp hn
    rw [← e]; exact a2 x hx
  · intro n hn
    obtain ⟨x, hx, e⟩ := (mem_entry_of .del n).mp hn
    rw [← e]; exact a3 x hx


/-- **`pipeline_results_outcomes`** — how stage S6 can end, for EVERY FileIr and every order of ties:
with a document, with `ValueError` (`raise ValueError("never")` in `unbind_name`), or with the
`ImportError` of a call to an import whose module is not found (`NoImportFact`: the per-case facts
did not cover the import — an error of the harness, reported as such). Never with a fatal error,
and never out of fuel: tree construction terminates on every call graph, recursion included. -/
theorem pipeline_results_outcomes (ord : List CallSym → List CallSym) (f : Facts) (imp : ImpFacts)
    (fir : Pipeline.FileIr) :
    (∃ doc ds, results ord f imp fir = .ok (doc, ds)) ∨
    results ord f imp fir = .crash "ValueError".toList ∨
    results ord f imp fir = .crash "ImportError".toList ∨
    results ord f imp fir = .crash "NoImportFact".toList := by
  have key : results ord f imp fir =
      match genLoop (toProg ord f imp fir) (diagCtx f imp fir (toProg ord f imp fir))
          (List.range fir.length) (toStore fir) with
      | .ok (rs, _, ds) => .ok (mkDoc fir rs, ds)
      | .fatal ds d => .fatal ds d
      | .crash e => .crash e := by
    unfold results resultsStore
    simp only
    cases genLoop (toProg ord f imp fir) (diagCtx f imp fir (toProg ord f imp fir))
        (List.range fir.length) (toStore fir) <;> rfl
  rw [key]
  cases hg : genLoop (toProg ord f imp fir) (diagCtx f imp fir (toProg ord f imp fir))
      (List.range fir.length) (toStore fir) with
  | ok q => obtain ⟨rs, σ, ds⟩ := q; exact Or.inl ⟨_, _, rfl⟩
  | fatal a d => exact absurd hg (genLoop_not_fatal _ _ _ _ a d)
  | crash e =>
    right
    rcases genLoop_crash _ _ _ _ e hg with h | ⟨c, hc⟩
    · subst h; exact Or.inl rfl
    · right
      simp only [diagCtx] at hc
      split at hc
      · rename_i cs _
        cases hr : resolveCall f imp fir cs with
        | target k => simp [hr] at hc
        | nothing => simp [hr] at hc
        | crash e' =>
          simp only [hr, Option.some.injEq] at hc
          subst hc
          rcases resolveCall_crash hr with h | h
          · subst h; exact Or.inl rfl
          · subst h; exact Or.inr rfl
      · cases hc

end PipelineTheorems

/-! ### checkers for the local hypotheses, and a concrete module (non-vacuity) -/

def localD1B (P : Prog) (k : Key) : Bool :=
  (fnAt P k).calls.all fun c => match P.resolve c.cid with | none => true | some g => leafB P g

theorem localD1_of_check {P : Prog} {k : Key} (h : localD1B P k = true) : LocalD1 P k := by
  intro c hc g hr
  have := List.all_eq_true.mp h c hc
  simp only [hr] at this
  exact (leafB_iff P g).mp this

def edgeHypB (S : Spec.SProg) (k : Key) : Bool :=
  (fnAt S.prog k).calls.all fun c =>
    match S.prog.resolve c.cid with
    | none => true
    | some g =>
      decide ((∀ n ∈ (S.own g).gets, RootBased n) ∧ (∀ n ∈ (S.own g).sets, RootBased n) ∧
        (∀ n ∈ (S.own g).dels, RootBased n)) &&
      decide ((∀ a ∈ c.args.args, a.head? ≠ some '*') ∧ (∀ kv ∈ c.args.kwargs, kv.2.head? ≠ some '*')) &&
      decide ((fnAt S.prog g).iface = (Spec.sigAt S g).iface) &&
      (match Spec.pyBind (Spec.sigAt S g) c.args with
        | .ok bd => decide ((Spec.sigAt S g).kwarg.isSome → bd.kwargGot ≠ [])
        | .error _ => false) &&
      decide ((Spec.sigAt S g).iface.all.Nodup) && decide ((c.args.kwargs.map Prod.fst).Nodup) &&
      decide (¬ C04.E1 (Spec.sigAt S g) c.args) && decide (¬ C04.E2 (Spec.sigAt S g) c.args)

theorem edgeHyp_of_check {S : Spec.SProg} {k : Key} (h : edgeHypB S k = true) :
    ∀ c ∈ (fnAt S.prog k).calls, ∀ g, S.prog.resolve c.cid = some g → EdgeHyp S c g := by
  intro c hc g hr
  have := List.all_eq_true.mp h c hc
  simp only [hr, Bool.and_eq_true, decide_eq_true_eq] at this
  obtain ⟨⟨⟨⟨⟨⟨⟨⟨a, b', d⟩, h2⟩, h3⟩, h4⟩, h5⟩, h6⟩, h7⟩, h8⟩ := this
  refine ⟨?_, h2, h3, ?_, h5, h6, h7, h8⟩
  · intro kd n hn
    cases kd
    · exact a n hn
    · exact b' n hn
    · exact d n hn
  · cases hb : Spec.pyBind (Spec.sigAt S g) c.args with
    | error e => simp [hb] at h4
    | ok bd =>
      simp only [hb, decide_eq_true_eq] at h4
      exact ⟨bd, rfl, h4⟩

def envP : FnA.Env := { ctxEnv := { prims := [], literals := [] }, analysers := [] }

/-- the model's encoding (rendered by `py/tools/lean_module.py`) of

```
def leaf(l, m):
    l.attr
    m.other = 1
    print(l.shown)
def top(a, b):
    leaf(a, m=b)
    del b.gone
class K:
    def __init__(self, v):
        self.f = v.in_init
def use(o):
    k = K(o)
    return top(o, o)
def chain(z):
    use(z)
``` -/
def modP : List Top :=
  [.funcDef "leaf".toList ⟨[], ["l".toList, "m".toList], none, [], none⟩
      [(.other "Expr".toList [(.attr (.name "l".toList .load) "attr".toList .load)]), (.assign [(.attr (.name "m".toList .load) "other".toList .store)] .const), (.other "Expr".toList [(.call (.name "print".toList .load) [(.attr (.name "l".toList .load) "shown".toList .load)] [] [])])]
      [] false,
   .funcDef "top".toList ⟨[], ["a".toList, "b".toList], none, [], none⟩
      [(.other "Expr".toList [(.call (.name "leaf".toList .load) [(.name "a".toList .load)] [(some "m".toList)] [(.name "b".toList .load)])]), (.delete [(.attr (.name "b".toList .load) "gone".toList .del)])]
      [] false,
   .classDef "K".toList []
     [.funcDef "__init__".toList ⟨[], ["self".toList, "v".toList], none, [], none⟩
      [(.assign [(.attr (.name "self".toList .load) "f".toList .store)] (.attr (.name "v".toList .load) "in_init".toList .load))]
      [] false]
     [],
   .funcDef "use".toList ⟨[], ["o".toList], none, [], none⟩
      [(.assign [(.name "k".toList .store)] (.call (.name "K".toList .load) [(.name "o".toList .load)] [] [])), (.ret [(.call (.name "top".toList .load) [(.name "o".toList .load), (.name "o".toList .load)] [] [])])]
      [] false,
   .funcDef "chain".toList ⟨[], ["z".toList], none, [], none⟩
      [(.other "Expr".toList [(.call (.name "use".toList .load) [(.name "z".toList .load)] [] [])])]
      [] false]

def S' (x : String) : Str := x.toList

/-- what `python -m rattr -o results -f 0` prints for that file (checked against the real CLI). -/
def docP : ResultsDoc :=
  [(S' "leaf", ⟨[S' "l.attr", S' "l.shown"], [S' "m.other"], [], [S' "print()"]⟩),
   (S' "top", ⟨[S' "a", S' "a.attr", S' "a.shown", S' "b"], [S' "b.other"], [S' "b.gone"], [S' "leaf()"]⟩),
   (S' "K", ⟨[S' "v.in_init"], [S' "self.f"], [], []⟩),
   (S' "use", ⟨[S' "o", S' "o.attr", S' "o.in_init", S' "o.shown"], [S' "k", S' "k.f", S' "o.other"], [S' "o.gone"],
     [S' "K()", S' "top()"]⟩),
   (S' "chain", ⟨[S' "z", S' "z.attr", S' "z.in_init", S' "z.shown"], [S' "k", S' "k.f", S' "z.other"], [S' "z.gone"],
     [S' "use()"]⟩)]

def firP : Pipeline.FileIr :=
  match FileA.analyseFile envP (S' "target") {} [S' "print"] modP with
  | .ok (fir, _) => fir
  | _ => []

theorem firP_eq {fir : Pipeline.FileIr} {d0 : List Diag}
    (h : FileA.analyseFile envP (S' "target") {} [S' "print"] modP = .ok (fir, d0)) : fir = firP := by
  unfold firP; rw [h]

-- the elaborator must not try to evaluate the analyser (the kernel does, in `decide +kernel`)
attribute [irreducible] firP

def sigP (ps : List String) : Spec.Sig Str := ⟨[], ps.map (fun x => ⟨S' x, false⟩), none, [], none⟩
def sigsP : List (Spec.Sig Str) := [sigP ["l", "m"], sigP ["a", "b"], sigP ["self", "v"], sigP ["o"], sigP ["z"]]
def specP : Spec.SProg := specOf {} [] firP sigsP

/-- the outcome is `ok (doc, ds)`, as a Boolean (for kernel evaluation) -/
def outcomeIs (o : FileA.Outcome (ResultsDoc × List Diag)) (doc : ResultsDoc) (ds : List Diag) : Bool :=
  match o with
  | .ok (d, s) => decide (d = doc) && decide (s = ds)
  | _ => false

theorem eq_of_outcomeIs {o : FileA.Outcome (ResultsDoc × List Diag)} {doc : ResultsDoc} {ds : List Diag}
    (h : outcomeIs o doc ds = true) : o = .ok (doc, ds) := by
  cases o with
  | ok a =>
    obtain ⟨d, s⟩ := a
    simp only [outcomeIs, Bool.and_eq_true, decide_eq_true_eq] at h
    rw [h.1, h.2]
  | fatal a b => simp [outcomeIs] at h
  | crash e => simp [outcomeIs] at h

/-- TEST (kernel evaluation of the WHOLE pipeline model on the module above): the document is the
one the real CLI prints, and no diagnostic is emitted. -/
theorem pipeline_test_module :
    run envP (S' "target") {} [S' "print"] modP = .ok (docP, []) :=
  eq_of_outcomeIs (by decide +kernel)

theorem firP_names : firP.map (fun p => p.1.name) = [S' "leaf", S' "top", S' "K", S' "use", S' "chain"] := by
  decide +kernel

theorem specP_treeFragment : TreeFragment specP := by
  have hT : TreeLike specP.prog :=
    treeLike_of_check (fun k => match k with | 0 => 0 | 1 => 1 | 2 => 0 | 3 => 2 | _ => 3) 3 (by decide +kernel)
  have h0 : TreeHyps0 specP := treeHyps0_of_check (by decide +kernel)
  obtain ⟨w1, w2, w3⟩ := c04Ready_of_check (S := specP) (by decide +kernel)
  exact ⟨hT, h0.cid, h0.rootBased, h0.bare, h0.iface, h0.accepted, w1, w2, w3⟩

/-- non-vacuity of `pipeline_entries`, `pipeline_leaf_exact`, `pipeline_depth_one` and
`pipeline_tree_sound_complete` on that module: the run succeeds; `leaf` (key 0, one call, to the
builtin `print`) meets `NoResolvable`; `top` (key 1) meets `LocalD1` and `EdgeHyp` although the
module as a whole is three calls deep; the module is in the tree fragment; and the right-hand sides
the theorems equate the document with are the expected spellings (`chain` three levels above
`leaf`, through a class initialiser bound to the local `k`). -/
example :
    (∃ doc ds, run envP (S' "target") {} [S' "print"] modP = .ok (doc, ds) ∧ doc = docP) ∧
    (∃ sym ir, firP[0]? = some (sym, ir) ∧ ir.calls ≠ [] ∧ NoResolvable {} [] firP ir) ∧
    LocalD1 specP.prog 1 ∧
    (∀ c ∈ (fnAt specP.prog 1).calls, ∀ g, specP.prog.resolve c.cid = some g → EdgeHyp specP c g) ∧
    ¬ LocalD1 specP.prog 3 ∧ TreeFragment specP ∧
    (Spec.derive specP 1 1).gets = [S' "a", S' "b", S' "a.attr", S' "a.shown"] ∧
    (Spec.derive specP 1 1).sets = [S' "b.other"] ∧ (Spec.derive specP 1 1).dels = [S' "b.gone"] ∧
    (Spec.derive specP 3 4).gets = [S' "z", S' "z.in_init", S' "z.attr", S' "z.shown"] ∧
    (Spec.derive specP 3 4).sets = [S' "k", S' "k.f", S' "z.other"] := by
  refine ⟨?_, ?_, localD1_of_check (by decide +kernel), edgeHyp_of_check (by decide +kernel), ?_,
    specP_treeFragment, by decide +kernel, by decide +kernel, by decide +kernel, by decide +kernel,
    by decide +kernel⟩
  · exact ⟨docP, [], pipeline_test_module, rfl⟩
  · have h : (match firP[0]? with
        | some (_, ir) => !ir.calls.isEmpty && ir.calls.all (fun c => match resolveCall {} [] firP c with
            | .target _ => false | _ => true)
        | none => false) = true := by decide +kernel
    cases hk : firP[0]? with
    | none => simp [hk] at h
    | some p =>
      obtain ⟨sym, ir⟩ := p
      simp only [hk, Bool.and_eq_true] at h
      refine ⟨sym, ir, rfl, ?_, ?_⟩
      · intro e; rw [e] at h; simp at h
      · intro c hc g hr
        have := List.all_eq_true.mp h.2 c hc
        simp [hr] at this
  · intro hL
    have : localD1B specP.prog 3 = false := by decide +kernel
    have h2 : localD1B specP.prog 3 = true := by
      unfold localD1B
      apply List.all_eq_true.mpr
      intro c hc
      cases hr : specP.prog.resolve c.cid with
      | none => rfl
      | some g => exact (leafB_iff _ g).mpr (hL c hc g hr)
    rw [this] at h2
    cases h2



/-- key `k` of the FileIr is called `name` and no later key is (Boolean check for concrete modules). -/
def keyB (fir : Pipeline.FileIr) (k : Key) (name : Str) : Bool :=
  match fir[k]? with
  | some p => p.1.name == name && (fir.drop (k + 1)).all (fun q => q.1.name != name)
  | none => false

theorem key_of_check {fir : Pipeline.FileIr} {k : Key} {name : Str} (h : keyB fir k name = true) :
    ∃ sym ir, fir[k]? = some (sym, ir) ∧ sym.name = name ∧ LastOfName fir k sym.name := by
  unfold keyB at h
  cases hk : fir[k]? with
  | none => simp [hk] at h
  | some p =>
    obtain ⟨sym, ir⟩ := p
    simp only [hk, Bool.and_eq_true, beq_iff_eq, List.all_eq_true, bne_iff_ne, ne_eq] at h
    refine ⟨sym, ir, rfl, h.1, ?_⟩
    intro j sym' ir' hj hj'
    rw [h.1]
    apply h.2 (sym', ir')
    have : (fir.drop (k + 1))[j - (k + 1)]? = some (sym', ir') := by
      rw [List.getElem?_drop]
      rw [Nat.add_sub_of_le hj]; exact hj'
    exact List.mem_of_getElem? this

/-- `pipeline_leaf_exact`, `pipeline_depth_one` and `pipeline_tree_sound_complete` APPLIED to the
module `modP` (their hypotheses discharged by the checkers above): the entry the document holds
for `leaf` is its own IR; the entry for `top` is the one-level unfolding; the entry for `chain`
— three calls above `leaf`, one of them through the initialiser of `K` — is the closure. -/
example :
    (Dict.get? docP (S' "leaf")).isSome ∧
    (∃ e, Dict.get? docP (S' "top") = some e ∧
      ∀ n, (n ∈ e.gets ↔ n ∈ (Spec.derive specP 1 1).gets) ∧ (n ∈ e.sets ↔ n ∈ (Spec.derive specP 1 1).sets) ∧
           (n ∈ e.dels ↔ n ∈ (Spec.derive specP 1 1).dels)) ∧
    (∃ e, Dict.get? docP (S' "chain") = some e ∧
      ∀ n, (n ∈ e.gets ↔ Spec.DerivableGet specP 4 n) ∧ (n ∈ e.sets ↔ Spec.DerivableSet specP 4 n) ∧
           (n ∈ e.dels ↔ Spec.DerivableDel specP 4 n)) := by
  refine ⟨?_, ?_, ?_⟩
  · obtain ⟨fir, d0, hfile, hthm⟩ := pipeline_leaf_exact pipeline_test_module
    have hfir : fir = firP := firP_eq hfile
    subst hfir
    obtain ⟨sym, ir, hk, hn, hlast⟩ := key_of_check (fir := firP) (k := 0) (name := S' "leaf") (by decide +kernel)
    have hleaf : NoResolvable {} [] firP ir := by
      have h : (match firP[0]? with
          | some (_, ir) => ir.calls.all (fun c => match resolveCall {} [] firP c with
              | .target _ => false | _ => true)
          | none => false) = true := by decide +kernel
      simp only [hk] at h
      intro c hc g hr
      have := List.all_eq_true.mp h c hc
      simp [hr] at this
    have := hthm 0 sym ir hk hlast hleaf
    rw [hn] at this
    rw [this]; rfl
  · obtain ⟨fir, d0, hfile, hthm⟩ := pipeline_depth_one pipeline_test_module
    have hfir : fir = firP := firP_eq hfile
    subst hfir
    obtain ⟨sym, ir, hk, hn, hlast⟩ := key_of_check (fir := firP) (k := 1) (name := S' "top") (by decide +kernel)
    obtain ⟨e, he, _, hmem⟩ := hthm sigsP 1 sym ir hk hlast (localD1_of_check (by decide +kernel))
      (edgeHyp_of_check (by decide +kernel))
    rw [hn] at he
    exact ⟨e, he, hmem⟩
  · obtain ⟨fir, d0, hfile, hthm⟩ := pipeline_tree_sound_complete pipeline_test_module
    have hfir : fir = firP := firP_eq hfile
    subst hfir
    obtain ⟨sym, ir, hk, hn, hlast⟩ := key_of_check (fir := firP) (k := 4) (name := S' "chain") (by decide +kernel)
    obtain ⟨e, he, _, hmem⟩ := hthm sigsP specP_treeFragment 4 sym ir hk hlast
    rw [hn] at he
    exact ⟨e, he, hmem⟩


/-- the encoding of the C03 "dedupe" witness as SOURCE:
```
def top(a, b):
    one(a)
    two(b)
def one(x):
    leaf(x)
def two(x):
    leaf(x)
def leaf(l):
    l.attr
``` -/
def modD : List Top :=
  [.funcDef "top".toList ⟨[], ["a".toList, "b".toList], none, [], none⟩
      [(.other "Expr".toList [(.call (.name "one".toList .load) [(.name "a".toList .load)] [] [])]), (.other "Expr".toList [(.call (.name "two".toList .load) [(.name "b".toList .load)] [] [])])]
      [] false,
   .funcDef "one".toList ⟨[], ["x".toList], none, [], none⟩
      [(.other "Expr".toList [(.call (.name "leaf".toList .load) [(.name "x".toList .load)] [] [])])]
      [] false,
   .funcDef "two".toList ⟨[], ["x".toList], none, [], none⟩
      [(.other "Expr".toList [(.call (.name "leaf".toList .load) [(.name "x".toList .load)] [] [])])]
      [] false,
   .funcDef "leaf".toList ⟨[], ["l".toList], none, [], none⟩
      [(.other "Expr".toList [(.attr (.name "l".toList .load) "attr".toList .load)])]
      [] false]

def docD : ResultsDoc :=
  [(S' "top", ⟨[S' "a", S' "a.attr", S' "b"], [], [], [S' "one()", S' "two()"]⟩),
   (S' "one", ⟨[S' "x", S' "x.attr"], [], [], [S' "leaf()"]⟩),
   (S' "two", ⟨[S' "x", S' "x.attr"], [], [], [S' "leaf()"]⟩),
   (S' "leaf", ⟨[S' "l.attr"], [], [], []⟩)]

def firD : Pipeline.FileIr :=
  match FileA.analyseFile envP (S' "target") {} [] modD with
  | .ok (fir, _) => fir
  | _ => []

theorem firD_eq {fir : Pipeline.FileIr} {d0 : List Diag}
    (h : FileA.analyseFile envP (S' "target") {} [] modD = .ok (fir, d0)) : fir = firD := by
  unfold firD; rw [h]

attribute [irreducible] firD

def specD : Spec.SProg := specOf {} [] firD [sigP ["a", "b"], sigP ["x"], sigP ["x"], sigP ["l"]]

/-- **`pipeline_cex_dedupe`** (kernel evaluation, end to end from the source above): the document
rattr prints for `top` lacks `b.attr`, which the closure spec derives at depth two (`two(b)` →
`leaf(x)`): the tree-global `seen` set of `make_target_ir_call_tree` cuts the second `leaf(x)`.
The module is outside `TreeFragment` only by its diamond; `pipeline_sound_all_graphs` still applies. -/
theorem pipeline_cex_dedupe :
    run envP (S' "target") {} [] modD = .ok (docD, []) ∧
    (Dict.get? docD (S' "top")).map (·.gets) = some [S' "a", S' "a.attr", S' "b"] ∧
    S' "b.attr" ∈ (Spec.derive specD 2 0).gets ∧ S' "a.attr" ∈ (Spec.derive specD 2 0).gets :=
  ⟨eq_of_outcomeIs (by decide +kernel), by decide +kernel, by decide +kernel, by decide +kernel⟩

/-- non-vacuity of `pipeline_sound_all_graphs`: the diamond module `modD` (outside the tree
fragment) meets its hypotheses; applied, every name the document lists for `top` is derivable. -/
example : ∃ e, Dict.get? docD (S' "top") = some e ∧ ∀ n ∈ e.gets, Spec.DerivableGet specD 0 n := by
  obtain ⟨fir, d0, hfile, hthm⟩ := pipeline_sound_all_graphs pipeline_cex_dedupe.1
  have hfir : fir = firD := firD_eq hfile
  subst hfir
  have h0 : TreeHyps0 specD := treeHyps0_of_check (by decide +kernel)
  obtain ⟨w1, w2, w3⟩ := c04Ready_of_check (S := specD) (by decide +kernel)
  obtain ⟨sym, ir, hk, hn, hlast⟩ := key_of_check (fir := firD) (k := 0) (name := S' "top") (by decide +kernel)
  obtain ⟨e, he, hg, _⟩ := hthm _ h0.rootBased h0.bare h0.iface h0.accepted w1 w2 w3 0 sym ir hk hlast
  rw [hn] at he
  exact ⟨e, he, hg⟩



/-! ## The instance a class initialiser is bound to (`holder.pt = Point(a)`)

`visit_ClassAssign` records the Call to the initialiser with the FULL spelling of the assignment
target as its first argument; result generation substitutes the initialiser's `self` by it. -/

/-- **`C03_classAssign_binds_target`** — for EVERY statement `targets = value` the function visitor
diverts to `visit_ClassAssign` and completes: the first target is named `(base, name)`, and the IR
then holds a Call record whose first positional argument is `name` — the spelling of the whole
target (`holder.pt`, `table.rows[]`), not its base variable — with the class's call target, and the
set `Name(name, base)`. (`FnA.classAssign_records`, Lemmas/C03ClassAssign.lean.) -/
theorem C03_classAssign_binds_target {env : FnA.Env} {mn : Str} {targets : List Node} {v : Node} {s s' : St}
    (hl : FnA.lambdaInRhs v = false) (hn : FnA.namedtupleInRhs v = false)
    (hc : FnA.classInRhs env s.ctx v = .ok true)
    (h : FnA.assignDiv env mn targets v s = .done (.ok s')) :
    ∃ t rest f args kwn kwv base name cb cn,
      targets = t :: rest ∧ v = .call f args kwn kwv ∧ namesOf false t = .ok base name ∧
      namesOf false v = .ok cb cn ∧
      (∃ c ∈ s'.calls, c.args.head? = some name ∧
        c.target = (Context.getCallTarget env.ctxEnv s.ctx cn false true).1) ∧
      (⟨name, base⟩ : NameS) ∈ s'.sets :=
  FnA.classAssign_records hl hn hc h

/-- the model's encoding (rendered by `py/tools/lean_module.py`) of

```
class Point:
    def __init__(self, src):
        self.x = src.value
        self.y = src.other
def make_local(a):
    p = Point(a)
    return p
def make_attr(holder, a):
    holder.pt = Point(a)
    return holder
def make_item(table, a):
    table.rows[0] = Point(a)
``` -/
def modI : List Top :=
  [.classDef "Point".toList []
     [.funcDef "__init__".toList ⟨[], ["self".toList, "src".toList], none, [], none⟩
      [(.assign [(.attr (.name "self".toList .load) "x".toList .store)] (.attr (.name "src".toList .load) "value".toList .load)), (.assign [(.attr (.name "self".toList .load) "y".toList .store)] (.attr (.name "src".toList .load) "other".toList .load))]
      [] false]
     [],
   .funcDef "make_local".toList ⟨[], ["a".toList], none, [], none⟩
      [(.assign [(.name "p".toList .store)] (.call (.name "Point".toList .load) [(.name "a".toList .load)] [] [])), (.ret [(.name "p".toList .load)])]
      [] false,
   .funcDef "make_attr".toList ⟨[], ["holder".toList, "a".toList], none, [], none⟩
      [(.assign [(.attr (.name "holder".toList .load) "pt".toList .store)] (.call (.name "Point".toList .load) [(.name "a".toList .load)] [] [])), (.ret [(.name "holder".toList .load)])]
      [] false,
   .funcDef "make_item".toList ⟨[], ["table".toList, "a".toList], none, [], none⟩
      [(.assign [(.sub (.attr (.name "table".toList .load) "rows".toList .load) .const .store)] (.call (.name "Point".toList .load) [(.name "a".toList .load)] [] []))]
      [] false]

/-- what `python -m rattr -o results -f 0` prints for that file (checked against the real CLI). -/
def docI : ResultsDoc :=
  [(S' "Point", ⟨[S' "src.other", S' "src.value"], [S' "self.x", S' "self.y"], [], []⟩),
   (S' "make_local", ⟨[S' "a", S' "a.other", S' "a.value", S' "p"], [S' "p", S' "p.x", S' "p.y"], [], [S' "Point()"]⟩),
   (S' "make_attr", ⟨[S' "a", S' "a.other", S' "a.value", S' "holder"], [S' "holder.pt", S' "holder.pt.x", S' "holder.pt.y"], [],
     [S' "Point()"]⟩),
   (S' "make_item", ⟨[S' "a", S' "a.other", S' "a.value"], [S' "table.rows[]", S' "table.rows[].x", S' "table.rows[].y"], [],
     [S' "Point()"]⟩)]

def firI : Pipeline.FileIr :=
  match FileA.analyseFile envP (S' "target") {} [] modI with
  | .ok (fir, _) => fir
  | _ => []

theorem firI_eq {fir : Pipeline.FileIr} {d0 : List Diag}
    (h : FileA.analyseFile envP (S' "target") {} [] modI = .ok (fir, d0)) : fir = firI := by
  unfold firI; rw [h]

attribute [irreducible] firI

def specI : Spec.SProg :=
  specOf {} [] firI [sigP ["self", "src"], sigP ["a"], sigP ["holder", "a"], sigP ["table", "a"]]

/-- TEST (kernel evaluation of the whole pipeline model on the module above): the document is the one
the real CLI prints — the initialiser's `self.x`, `self.y` surface as `holder.pt.x`, `holder.pt.y`
and `table.rows[].x`, `table.rows[].y`; no diagnostic. -/
theorem pipeline_test_instance_targets :
    run envP (S' "target") {} [] modI = .ok (docI, []) :=
  eq_of_outcomeIs (by decide +kernel)

/-- **`pipeline_instance_stored_in_attribute`** — `pipeline_depth_one` APPLIED to `make_attr` and
`make_item` of the module above: the document entry is exactly the spec's one-level unfolding, in
which the initialiser's `self` is rewritten to the spelled assignment target: `holder.pt.x`,
`holder.pt.y` (never `holder.x`), `table.rows[].x`, `table.rows[].y`. -/
theorem pipeline_instance_stored_in_attribute :
    (∃ e, Dict.get? docI (S' "make_attr") = some e ∧
      (∀ n, (n ∈ e.sets ↔ n ∈ (Spec.derive specI 1 2).sets) ∧ (n ∈ e.gets ↔ n ∈ (Spec.derive specI 1 2).gets))) ∧
    (∃ e, Dict.get? docI (S' "make_item") = some e ∧
      (∀ n, (n ∈ e.sets ↔ n ∈ (Spec.derive specI 1 3).sets) ∧ (n ∈ e.gets ↔ n ∈ (Spec.derive specI 1 3).gets))) ∧
    (Spec.derive specI 1 2).sets = [S' "holder.pt", S' "holder.pt.x", S' "holder.pt.y"] ∧
    (Spec.derive specI 1 3).sets = [S' "table.rows[]", S' "table.rows[].x", S' "table.rows[].y"] ∧
    S' "holder.x" ∉ (Spec.derive specI 1 2).sets := by
  refine ⟨?_, ?_, by decide +kernel, by decide +kernel, by decide +kernel⟩
  · obtain ⟨fir, d0, hfile, hthm⟩ := pipeline_depth_one pipeline_test_instance_targets
    have hfir : fir = firI := firI_eq hfile
    subst hfir
    obtain ⟨sym, ir, hk, hn, hlast⟩ := key_of_check (fir := firI) (k := 2) (name := S' "make_attr") (by decide +kernel)
    obtain ⟨e, he, _, hmem⟩ := hthm [sigP ["self", "src"], sigP ["a"], sigP ["holder", "a"], sigP ["table", "a"]] 2 sym ir hk hlast
      (localD1_of_check (by decide +kernel)) (edgeHyp_of_check (by decide +kernel))
    rw [hn] at he
    exact ⟨e, he, fun n => ⟨(hmem n).2.1, (hmem n).1⟩⟩
  · obtain ⟨fir, d0, hfile, hthm⟩ := pipeline_depth_one pipeline_test_instance_targets
    have hfir : fir = firI := firI_eq hfile
    subst hfir
    obtain ⟨sym, ir, hk, hn, hlast⟩ := key_of_check (fir := firI) (k := 3) (name := S' "make_item") (by decide +kernel)
    obtain ⟨e, he, _, hmem⟩ := hthm [sigP ["self", "src"], sigP ["a"], sigP ["holder", "a"], sigP ["table", "a"]] 3 sym ir hk hlast
      (localD1_of_check (by decide +kernel)) (edgeHyp_of_check (by decide +kernel))
    rw [hn] at he
    exact ⟨e, he, fun n => ⟨(hmem n).2.1, (hmem n).1⟩⟩

end Rattr.C03

/-! ## Projects: the target file and the followed modules in ONE model (`RattrModel/Project.lean`) -/

namespace Rattr.C03
open Rattr Rattr.Results Rattr.Pipeline Rattr.Spec Rattr.Project

/-- the closure spec's view of a project: the adapter's program over ALL files and their own sets,
with real signatures `sigs` (one per key of the concatenated FileIrs). -/
def specOfP (pf : PFacts) (env : PEnv) (sigs : List (Spec.Sig Str)) : Spec.SProg :=
  { prog := toProgP id pf env, sigs := sigs, own := toStore (gfir env) }

theorem gfir_target {env : PEnv} {k : Nat} (hk : k < (fileAt env 0).fir.length) :
    (gfir env)[k]? = (fileAt env 0).fir[k]? := by
  cases env with
  | nil => simp [fileAt, emptyFile] at hk
  | cons e r =>
    have : fileAt (e :: r) 0 = e := rfl
    rw [this] at hk ⊢
    unfold gfir
    simp only [List.flatMap_cons]
    exact List.getElem?_append_left hk

section ProjectTheorems
variable {pf : PFacts} {env : PEnv} {doc : ResultsDoc} {σs : List IrSets}

/-- **`project_composition`.** A successful result generation over a project IS the proved
`Results.generate` on the adapter's program (`toProgP`: keys = positions in the concatenated FileIrs,
cids = (path of the calling file, Call symbol) classes, `resolve` = the location-aware
`find_call_target_and_ir`) over the own sets of EVERY file, the TARGET's keys being the roots, in
order; the document holds `entry` of each target key's result under its name. -/
theorem project_composition (h : Project.results id pf env = .ok (doc, σs)) :
    ∃ rs σ', generate (toProgP id pf env) (List.range (fileAt env 0).fir.length) (toStore (gfir env)) = .ok (rs, σ') ∧
      doc = mkDoc (gfir env) rs ∧
      ∀ k sym ir, (fileAt env 0).fir[k]? = some (sym, ir) → LastOfName (fileAt env 0).fir k sym.name →
        ∃ res, (k, res) ∈ rs ∧ Dict.get? doc sym.name = some (entry ir res) := by
  unfold Project.results at h
  simp only at h
  cases hg : genLoop (toProgP id pf env) (crashCtx pf env) (List.range (fileAt env 0).fir.length)
      (toStore (gfir env)) with
  | fatal a d => simp [hg] at h
  | crash e => simp [hg] at h
  | ok q =>
    obtain ⟨rs, σ', ds3⟩ := q
    simp only [hg, FileA.Outcome.ok.injEq, Prod.mk.injEq] at h
    have hgen := genLoop_generate _ _ _ _ hg
    refine ⟨rs, σ', hgen, h.1.symm, ?_⟩
    intro k sym ir hk hlast
    have hfst := generate_fst _ _ _ _ _ hgen
    have hklt := lt_length_of_getElem? hk
    obtain ⟨res, hm⟩ := mem_rs_of_lt hfst hklt
    obtain ⟨pre, post, e, hpost⟩ := split_at_key hfst hm
    refine ⟨res, hm, ?_⟩
    rw [← h.1, e]
    have hk' : (gfir env)[k]? = some (sym, ir) := by rw [gfir_target hklt]; exact hk
    refine mkDoc_get? (gfir env) pre post k res sym ir hk' ?_
    intro p hp sym' ir' hp'
    have hpm : p ∈ rs := by rw [e]; exact List.mem_append_right _ (List.mem_cons_of_mem _ hp)
    have hplt : p.1 < (fileAt env 0).fir.length := by
      have : p.1 ∈ rs.map Prod.fst := List.mem_map.mpr ⟨p, hpm, rfl⟩
      rw [hfst] at this
      exact List.mem_range.mp this
    rw [gfir_target hplt] at hp'
    exact hlast p.1 sym' ir' (hpost p hp) hp'

/-- **`project_own_and_calls`** — for EVERY project, every call graph across files: the entry of a
function of the target contains every name of its own IR, and its `calls` are exactly its own
calls, never a callee's. -/
theorem project_own_and_calls (h : Project.results id pf env = .ok (doc, σs)) :
    ∀ k sym ir, (fileAt env 0).fir[k]? = some (sym, ir) → LastOfName (fileAt env 0).fir k sym.name →
      ∃ e, Dict.get? doc sym.name = some e ∧
        (∀ x ∈ ir.gets, x.full ∈ e.gets) ∧ (∀ x ∈ ir.sets, x.full ∈ e.sets) ∧
        (∀ x ∈ ir.dels, x.full ∈ e.dels) ∧ e.calls = sortStrs (ir.calls.map nameOfCall) := by
  obtain ⟨rs, σ', hg, _, hent⟩ := project_composition h
  intro k sym ir hk hlast
  obtain ⟨res, hm, hget⟩ := hent k sym ir hk hlast
  have hown := C03_own_included _ _ _ _ _ hg k res hm
  have hk' : (gfir env)[k]? = some (sym, ir) := by rw [gfir_target (lt_length_of_getElem? hk)]; exact hk
  have hst : toStore (gfir env) k = irSets ir := toStore_eq (gfir env) k (sym, ir) hk'
  refine ⟨entry ir res, hget, ?_, ?_, ?_, rfl⟩
  · intro x hx
    exact (mem_entry_of .get x.full).mpr ⟨x, (hown x).1 (by rw [hst]; exact hx), rfl⟩
  · intro x hx
    exact (mem_entry_of .set x.full).mpr ⟨x, (hown x).2.1 (by rw [hst]; exact hx), rfl⟩
  · intro x hx
    exact (mem_entry_of .del x.full).mpr ⟨x, (hown x).2.2 (by rw [hst]; exact hx), rfl⟩

/-- **`project_tree_sound_complete`** — sources of ALL files → document, at ANY depth across files.
If the project's resolvable call graph is in the tree fragment (`TreeFragment` of the combined
program: acyclic, no call reached along two paths from one root, bare-name arguments, calls Python
accepts, outside the C04 defect classes), the document entry of EVERY function of the target is
exactly the closure over the callees in whatever file they live: a spelling is listed iff it is
derivable in the independent spec. -/
theorem project_tree_sound_complete (h : Project.results id pf env = .ok (doc, σs))
    (sigs : List (Spec.Sig Str)) (hF : TreeFragment (specOfP pf env sigs)) :
    ∀ k sym ir, (fileAt env 0).fir[k]? = some (sym, ir) → LastOfName (fileAt env 0).fir k sym.name →
      ∃ e, Dict.get? doc sym.name = some e ∧
        e.calls = sortStrs (ir.calls.map nameOfCall) ∧
        ∀ n, (n ∈ e.gets ↔ Spec.DerivableGet (specOfP pf env sigs) k n) ∧
             (n ∈ e.sets ↔ Spec.DerivableSet (specOfP pf env sigs) k n) ∧
             (n ∈ e.dels ↔ Spec.DerivableDel (specOfP pf env sigs) k n) := by
  obtain ⟨rs, σ', hg, _, hent⟩ := project_composition h
  intro k sym ir hk hlast
  obtain ⟨res, hm, hget⟩ := hent k sym ir hk hlast
  refine ⟨entry ir res, hget, rfl, ?_⟩
  intro n
  obtain ⟨a1, a2, a3⟩ := C03_tree_any_order (specOfP pf env sigs) hF _ rs σ' hg k res hm n
  refine ⟨?_, ?_, ?_⟩
  · rw [← a1]; simp [entry, mem_sortStrs, Pipeline.fulls, Cex.fulls]
  · rw [← a2]; simp [entry, mem_sortStrs, Pipeline.fulls, Cex.fulls]
  · rw [← a3]; simp [entry, mem_sortStrs, Pipeline.fulls, Cex.fulls]

/-- **`project_sound_all_graphs`** — soundness for EVERY call graph across files (diamonds, shared
callees, recursion): with bare-name arguments and accepted calls, every spelling the document lists
for a function of the target is derivable. -/
theorem project_sound_all_graphs (h : Project.results id pf env = .ok (doc, σs))
    (sigs : List (Spec.Sig Str)) (hR : CalleeRootBased (specOfP pf env sigs))
    (hB : BareArgs (specOfP pf env sigs).prog) (hI : IfaceOfSig (specOfP pf env sigs))
    (hA : AcceptedCalls (specOfP pf env sigs)) (hSig : SigsDistinct (specOfP pf env sigs))
    (hKw : KwDistinct (specOfP pf env sigs).prog) (hE : OutsideE1E2 (specOfP pf env sigs)) :
    ∀ k sym ir, (fileAt env 0).fir[k]? = some (sym, ir) → LastOfName (fileAt env 0).fir k sym.name →
      ∃ e, Dict.get? doc sym.name = some e ∧
        (∀ n ∈ e.gets, Spec.DerivableGet (specOfP pf env sigs) k n) ∧
        (∀ n ∈ e.sets, Spec.DerivableSet (specOfP pf env sigs) k n) ∧
        (∀ n ∈ e.dels, Spec.DerivableDel (specOfP pf env sigs) k n) := by
  obtain ⟨rs, σ', hg, _, hent⟩ := project_composition h
  intro k sym ir hk hlast
  obtain ⟨res, hm, hget⟩ := hent k sym ir hk hlast
  obtain ⟨a1, a2, a3⟩ := C03_bare_sound_all_graphs (specOfP pf env sigs) (toProgP_cidArgs pf env)
    hR hB hI hA hSig hKw hE _ rs σ' hg k res hm
  refine ⟨entry ir res, hget, ?_, ?_, ?_⟩
  · intro n hn
    obtain ⟨x, hx, e⟩ := (mem_entry_of .get n).mp hn
    rw [← e]; exact a1 x hx
  · intro n hn
    obtain ⟨x, hx, e⟩ := (mem_entry_of .set n).mp hn
    rw [← e]; exact a2 x hx
  · intro n hn
    obtain ⟨x, hx, e⟩ := (mem_entry_of .del n).mp hn
    rw [← e]; exact a3 x hx

end ProjectTheorems

/-! ### module-local resolution -/

theorem samePath_trans {env : PEnv} {i j k : Nat} (h1 : samePath env i j = true) (h2 : samePath env j k = true) :
    samePath env i k = true := by
  unfold samePath at *
  rw [beq_iff_eq] at *
  exact h1.trans h2

/-- **`project_function_resolves_in_its_own_file`.** In a path-coherent environment (every followed
file is stored under the module name derived from its own path), a call whose target is a FUNCTION
symbol, found in the IR of file `i`, is resolved — if at all — to a key of a file with the path of
`i`, and that key carries the very symbol the call targets. It is never resolved to a same-named,
same-signature function of the target file or of another followed module. -/
theorem project_function_resolves_in_its_own_file {pf : PFacts} {env : PEnv} (hC : PathCoherent env)
    {i : Nat} {c : CallSym} {t : Sym} (ht : c.target = some t) (hk : t.kind = .func) {j : Nat} {k : Key}
    (h : resolveAt pf env i c = .target j k) :
    samePath env j i = true ∧ ∃ ir, (fileAt env j).fir[k]? = some (t, ir) := by
  unfold resolveAt at h
  simp only [ht, hk] at h
  split at h
  · cases h
  · cases hl : locate env i t with
    | none => simp [hl] at h
    | some q =>
      obtain ⟨j', k'⟩ := q
      simp only [hl, FoundP.target.injEq] at h
      obtain ⟨e1, e2⟩ := h
      subst e1; subst e2
      exact ⟨locate_same_path hC hl, (locate_some hl).2⟩

/-- **`project_class_resolves_in_its_own_file`.** Likewise for a call whose target is a CLASS symbol
found in file `i`: the initialiser it is resolved to is a class key named like the target, of a file
with the path of `i` — the class of the calling module, never a same-named class of the target file
or of another module (and a class without initialiser takes no other class's initialiser). -/
theorem project_class_resolves_in_its_own_file {pf : PFacts} {env : PEnv} (hC : PathCoherent env)
    {i : Nat} {c : CallSym} {t : Sym} (ht : c.target = some t) (hk : t.kind = .cls) {j : Nat} {k : Key}
    (h : resolveAt pf env i c = .target j k) :
    samePath env j i = true ∧ ∃ s ir, (fileAt env j).fir[k]? = some (s, ir) ∧ s.name = t.name := by
  unfold resolveAt at h
  simp only [ht, hk] at h
  cases hl : locate env (realClassP env i t).1 (realClassP env i t).2 with
  | none => simp [hl] at h
  | some q =>
    obtain ⟨j', k'⟩ := q
    simp only [hl, FoundP.target.injEq] at h
    obtain ⟨e1, e2⟩ := h
    subst e1; subst e2
    refine ⟨samePath_trans (locate_same_path hC hl) (realClassP_same_path env i t), ?_⟩
    obtain ⟨ir, hir⟩ := (locate_some hl).2
    refine ⟨_, ir, hir, ?_⟩
    unfold realClassP
    cases hf : (classCands env t.name).find? (fun c => samePath env c.1 i) with
    | none => rfl
    | some c' => exact (classCands_mem (List.mem_of_find?_eq_some hf)).2.1


/-! ### the whole pipeline on a project, and concrete projects (non-vacuity, kernel evaluation) -/

/-- `Project.run` succeeded: it is the file stages of every file (`analyseAll`: the target's root
context, every followed module, the target's walk) followed by `Project.results`. -/
theorem project_run_ok {pf : PFacts} {t : FileIn} {imports : List FileIn} {doc : ResultsDoc} {σs : List IrSets}
    (h : Project.run pf t imports = .ok (doc, σs)) :
    ∃ env, analyseAll t imports = .ok env ∧ Project.results id pf env = .ok (doc, σs) := by
  unfold Project.run Project.runWith at h
  cases ha : analyseAll t imports with
  | fatal a d => simp [ha] at h
  | crash e => simp [ha] at h
  | ok env => simp only [ha] at h; exact ⟨env, rfl, h⟩

/-- the outcome is `ok (doc, _)`, as a Boolean (for kernel evaluation) -/
def docIs (o : FileA.Outcome (ResultsDoc × List IrSets)) (doc : ResultsDoc) : Bool :=
  match o with
  | .ok (d, _) => decide (d = doc)
  | _ => false

theorem ok_of_docIs {o : FileA.Outcome (ResultsDoc × List IrSets)} {doc : ResultsDoc}
    (h : docIs o doc = true) : ∃ σs, o = .ok (doc, σs) := by
  cases o with
  | ok a =>
    obtain ⟨d, s⟩ := a
    simp only [docIs, decide_eq_true_eq] at h
    exact ⟨s, by rw [h]⟩
  | fatal a b => simp [docIs] at h
  | crash e => simp [docIs] at h

/-! The encodings below are rendered by `py/tools/lean_project.py` from these three files

```
# alpha.py                          # beta.py                           # target.py
def _normalise(rec):                def _normalise(rec):                from alpha import load_alpha
    return rec.alpha_field              return rec.beta_field           from beta import load_beta
def load_alpha(src):                def load_beta(raw):                 def both(a, b):
    return _normalise(src)              return _normalise(raw)              return load_alpha(a), load_beta(b)
                                                                        def only_beta(b):
                                                                            return load_beta(b)
```
(two followed modules, each with its own private `_normalise(rec)`: same name, same parameter list). -/

/-- `target.py` -/
def twoFile0 : Project.FileIn :=
  { modName := "".toList, derived := (some "target".toList), pathId := 0,
    env := envP, mn := "target".toList, facts := { mods := [("alpha".toList, ⟨false, true, true⟩), ("alpha.load_alpha".toList, ⟨false, true, false⟩), ("beta".toList, ⟨false, true, true⟩), ("beta.load_beta".toList, ⟨false, true, false⟩)], isInit := false, excluded := [] },
    builtins := [S' "print"],
    body :=
  [.importFrom (some "alpha".toList) 0 [⟨"load_alpha".toList, none⟩] "".toList false true,
   .importFrom (some "beta".toList) 0 [⟨"load_beta".toList, none⟩] "".toList false true,
   .funcDef "both".toList ⟨[], ["a".toList, "b".toList], none, [], none⟩
      [(.ret [(.seq "Tuple".toList [(.call (.name "load_alpha".toList .load) [(.name "a".toList .load)] [] []), (.call (.name "load_beta".toList .load) [(.name "b".toList .load)] [] [])] .load)])]
      [] false,
   .funcDef "only_beta".toList ⟨[], ["b".toList], none, [], none⟩
      [(.ret [(.call (.name "load_beta".toList .load) [(.name "b".toList .load)] [] [])])]
      [] false] }

/-- `alpha` -/
def twoFile1 : Project.FileIn :=
  { modName := "alpha".toList, derived := (some "alpha".toList), pathId := 1,
    env := envP, mn := "alpha".toList, facts := { mods := [], isInit := false, excluded := [] },
    builtins := [S' "print"],
    body :=
  [.funcDef "_normalise".toList ⟨[], ["rec".toList], none, [], none⟩
      [(.ret [(.attr (.name "rec".toList .load) "alpha_field".toList .load)])]
      [] false,
   .funcDef "load_alpha".toList ⟨[], ["src".toList], none, [], none⟩
      [(.ret [(.call (.name "_normalise".toList .load) [(.name "src".toList .load)] [] [])])]
      [] false] }

/-- `beta` -/
def twoFile2 : Project.FileIn :=
  { modName := "beta".toList, derived := (some "beta".toList), pathId := 2,
    env := envP, mn := "beta".toList, facts := { mods := [], isInit := false, excluded := [] },
    builtins := [S' "print"],
    body :=
  [.funcDef "_normalise".toList ⟨[], ["rec".toList], none, [], none⟩
      [(.ret [(.attr (.name "rec".toList .load) "beta_field".toList .load)])]
      [] false,
   .funcDef "load_beta".toList ⟨[], ["raw".toList], none, [], none⟩
      [(.ret [(.call (.name "_normalise".toList .load) [(.name "raw".toList .load)] [] [])])]
      [] false] }

def twoFacts : Project.PFacts :=
  { excluded := [], existing := ["alpha".toList, "beta".toList], ignored := [] }

def twoDoc : ResultsDoc :=
  [(S' "both", ⟨[S' "a", S' "a.alpha_field", S' "b", S' "b.beta_field"], [], [], [S' "load_alpha()", S' "load_beta()"]⟩), (S' "only_beta", ⟨[S' "b", S' "b.beta_field"], [], [], [S' "load_beta()"]⟩)]


def envTwo : PEnv :=
  match analyseAll twoFile0 [twoFile1, twoFile2] with
  | .ok env => env
  | _ => []

theorem envTwo_eq {env : PEnv} (h : analyseAll twoFile0 [twoFile1, twoFile2] = .ok env) : env = envTwo := by
  unfold envTwo; rw [h]

attribute [irreducible] envTwo

/-- keys: 0 `both`, 1 `only_beta` (target) · 2 `_normalise`, 3 `load_alpha` (alpha) · 4 `_normalise`,
5 `load_beta` (beta) -/
def sigsTwo : List (Spec.Sig Str) :=
  [sigP ["a", "b"], sigP ["b"], sigP ["rec"], sigP ["src"], sigP ["rec"], sigP ["raw"]]
def specTwo : Spec.SProg := specOfP twoFacts envTwo sigsTwo

/-- TEST (kernel evaluation of the whole PROJECT model: three root contexts, three file walks, result
generation over the six functions): the document is the one the real CLI prints with
`--follow-imports 1`; `both` holds `b.beta_field` (from beta's `_normalise`), not `b.alpha_field`. -/
theorem project_test_two_helpers :
    ∃ σs, Project.run twoFacts twoFile0 [twoFile1, twoFile2] = .ok (twoDoc, σs) :=
  ok_of_docIs (by decide +kernel)

def pathCoherentB (env : PEnv) : Bool :=
  (List.range env.length).all fun i =>
    match (fileAt env i).derived with
    | none => true
    | some m => match importIdx env m with
      | none => true
      | some j => samePath env j i

theorem pathCoherent_of_check {env : PEnv} (h : pathCoherentB env = true) : PathCoherent env := by
  intro i m j hd hi
  by_cases hlt : i < env.length
  · have := List.all_eq_true.mp h i (List.mem_range.mpr hlt)
    simpa [hd, hi] using this
  · have : fileAt env i = emptyFile := by
      unfold fileAt
      rw [List.getElem?_eq_none (Nat.le_of_not_lt hlt)]
      rfl
    rw [this] at hd
    cases hd

theorem specTwo_treeFragment : TreeFragment specTwo := by
  have hT : TreeLike specTwo.prog :=
    treeLike_of_check (fun k => match k with | 0 => 2 | 1 => 2 | 2 => 0 | 3 => 1 | 4 => 0 | _ => 1) 2 (by decide +kernel)
  have h0 : TreeHyps0 specTwo := treeHyps0_of_check (by decide +kernel)
  obtain ⟨w1, w2, w3⟩ := c04Ready_of_check (S := specTwo) (by decide +kernel)
  exact ⟨hT, h0.cid, h0.rootBased, h0.bare, h0.iface, h0.accepted, w1, w2, w3⟩

/-- **`project_two_helpers_closure`** — `project_tree_sound_complete` and the module-local resolution
theorem APPLIED to the project above: the project is in the tree fragment; the entry of `both` is
exactly the closure, which holds `a.alpha_field` and `b.beta_field` and NOT `b.alpha_field`; the
environment is path-coherent, so beta's call `_normalise(raw)` resolves into beta's own FileIr. -/
theorem project_two_helpers_closure :
    (∃ e, Dict.get? twoDoc (S' "both") = some e ∧
      ∀ n, (n ∈ e.gets ↔ Spec.DerivableGet specTwo 0 n) ∧ (n ∈ e.sets ↔ Spec.DerivableSet specTwo 0 n) ∧
           (n ∈ e.dels ↔ Spec.DerivableDel specTwo 0 n)) ∧
    (Spec.derive specTwo 2 0).gets = [S' "a", S' "b", S' "a.alpha_field", S' "b.beta_field"] ∧
    PathCoherent envTwo ∧
    (∀ c ∈ ((fileAt envTwo 2).fir.flatMap (·.2.calls)), ∀ j k,
      resolveAt twoFacts envTwo 2 c = .target j k → samePath envTwo j 2 = true) := by
  have hco : PathCoherent envTwo := pathCoherent_of_check (by decide +kernel)
  refine ⟨?_, by decide +kernel, hco, ?_⟩
  · obtain ⟨σs, hrun⟩ := project_test_two_helpers
    obtain ⟨env, henv, hres⟩ := project_run_ok hrun
    have he : env = envTwo := envTwo_eq henv
    subst he
    obtain ⟨sym, ir, hk, hn, hlast⟩ := key_of_check (fir := (fileAt envTwo 0).fir) (k := 0) (name := S' "both") (by decide +kernel)
    obtain ⟨e, he, _, hmem⟩ := project_tree_sound_complete hres sigsTwo specTwo_treeFragment 0 sym ir hk hlast
    rw [hn] at he
    exact ⟨e, he, hmem⟩
  · intro c hc j k hr
    have hkind : ((fileAt envTwo 2).fir.flatMap (·.2.calls)).all
        (fun c => match c.target with | some t => t.kind == .func | none => false) = true := by decide +kernel
    have := List.all_eq_true.mp hkind c hc
    cases ht : c.target with
    | none => simp [ht] at this
    | some t =>
      simp only [ht, beq_iff_eq] at this
      exact (project_function_resolves_in_its_own_file hco ht this hr).1

/-! The same project with BOTH loaders spelling their parameter `src`: the two calls `_normalise(src)`
are equal Call symbols (equality ignores the location of the target) made in two different files;
`make_target_ir_call_tree` keys `seen` on the symbol AND the calling file, so both are expanded. -/

/-- `target.py` -/
def dupFile0 : Project.FileIn :=
  { modName := "".toList, derived := (some "target".toList), pathId := 0,
    env := envP, mn := "target".toList, facts := { mods := [("alpha".toList, ⟨false, true, true⟩), ("alpha.load_alpha".toList, ⟨false, true, false⟩), ("beta".toList, ⟨false, true, true⟩), ("beta.load_beta".toList, ⟨false, true, false⟩)], isInit := false, excluded := [] },
    builtins := [S' "print"],
    body :=
  [.importFrom (some "alpha".toList) 0 [⟨"load_alpha".toList, none⟩] "".toList false true,
   .importFrom (some "beta".toList) 0 [⟨"load_beta".toList, none⟩] "".toList false true,
   .funcDef "both".toList ⟨[], ["a".toList, "b".toList], none, [], none⟩
      [(.ret [(.seq "Tuple".toList [(.call (.name "load_alpha".toList .load) [(.name "a".toList .load)] [] []), (.call (.name "load_beta".toList .load) [(.name "b".toList .load)] [] [])] .load)])]
      [] false] }

/-- `alpha` -/
def dupFile1 : Project.FileIn :=
  { modName := "alpha".toList, derived := (some "alpha".toList), pathId := 1,
    env := envP, mn := "alpha".toList, facts := { mods := [], isInit := false, excluded := [] },
    builtins := [S' "print"],
    body :=
  [.funcDef "_normalise".toList ⟨[], ["rec".toList], none, [], none⟩
      [(.ret [(.attr (.name "rec".toList .load) "alpha_field".toList .load)])]
      [] false,
   .funcDef "load_alpha".toList ⟨[], ["src".toList], none, [], none⟩
      [(.ret [(.call (.name "_normalise".toList .load) [(.name "src".toList .load)] [] [])])]
      [] false] }

/-- `beta` -/
def dupFile2 : Project.FileIn :=
  { modName := "beta".toList, derived := (some "beta".toList), pathId := 2,
    env := envP, mn := "beta".toList, facts := { mods := [], isInit := false, excluded := [] },
    builtins := [S' "print"],
    body :=
  [.funcDef "_normalise".toList ⟨[], ["rec".toList], none, [], none⟩
      [(.ret [(.attr (.name "rec".toList .load) "beta_field".toList .load)])]
      [] false,
   .funcDef "load_beta".toList ⟨[], ["src".toList], none, [], none⟩
      [(.ret [(.call (.name "_normalise".toList .load) [(.name "src".toList .load)] [] [])])]
      [] false] }

def dupFacts : Project.PFacts :=
  { excluded := [], existing := ["alpha".toList, "beta".toList], ignored := [] }

def dupDoc : ResultsDoc :=
  [(S' "both", ⟨[S' "a", S' "a.alpha_field", S' "b", S' "b.beta_field"], [], [], [S' "load_alpha()", S' "load_beta()"]⟩)]


/-- TEST (kernel evaluation): equal call records made in two different files are both expanded —
`both` holds `b.beta_field`. -/
theorem project_test_same_record_two_files :
    ∃ σs, Project.run dupFacts dupFile0 [dupFile1, dupFile2] = .ok (dupDoc, σs) :=
  ok_of_docIs (by decide +kernel)

end Rattr.C03

/-! ### the project model extends the single-file model -/

namespace Rattr.C03
open Rattr Rattr.Results Rattr.Pipeline Rattr.Spec Rattr.Project

theorem importIdx_single (e : FileE) (m : Str) : importIdx [e] m = none := by
  simp [importIdx, indexOf?]

theorem samePath_single (e : FileE) : samePath [e] 0 0 = true := by simp [samePath]

theorem locate_single (e : FileE) (s : Sym) : locate [e] 0 s = (keyOf e.fir s).map fun k => (0, k) := by
  unfold locate
  simp only [samePath_single, if_true]
  have hf : fileAt [e] 0 = e := rfl
  rw [hf]
  cases hk : keyOf e.fir s with
  | some k => rfl
  | none =>
    cases hd : e.derived with
    | none => simp
    | some m => simp [importIdx_single]

theorem find?_filter_map_all {α β : Type} (l : List α) (P : α → Bool) (g : α → β) (q : β → Bool)
    (hq : ∀ a, q (g a) = true) :
    ((l.filter P).map g).find? q = (l.find? P).map g := by
  induction l with
  | nil => rfl
  | cons a r ih =>
    by_cases h : P a = true
    · simp [List.filter, h, hq]
    · simp only [Bool.not_eq_true] at h
      simp [List.filter, h, ih]

theorem realClassP_single (e : FileE) (t : Sym) : realClassP [e] 0 t = (0, realClass e.fir t) := by
  unfold realClassP realClass
  have hc : classCands [e] t.name = (e.fir.filter fun p => p.1.kind == .cls && p.1.name == t.name).map fun p => (0, p.1) := by
    simp [classCands, fileAt]
  rw [hc]
  have : (((e.fir.filter fun p => p.1.kind == .cls && p.1.name == t.name).map fun p => ((0 : Nat), p.1)).find?
      fun c => samePath [e] c.1 0) = (e.fir.find? fun p => p.1.kind == .cls && p.1.name == t.name).map fun p => (0, p.1) :=
    find?_filter_map_all _ _ _ _ (fun a => by simp [samePath])
  rw [this]
  cases e.fir.find? fun p => p.1.kind == .cls && p.1.name == t.name <;> rfl

/-- **`project_single_file_resolution`** — the project model extends the single-file one: on an
environment that is just the target file, `find_call_target_and_ir` of the project model answers
exactly like the single-file `Pipeline.resolveCall` for every call whose target is not an import
(imports are followed here and ignored there). -/
theorem project_single_file_resolution (pf : PFacts) (f : Facts) (imp : ImpFacts) (e : FileE) (c : CallSym)
    (hx : f.excluded = pf.excluded) (hk : ∀ t, c.target = some t → t.kind ≠ .import_) :
    (match resolveAt pf [e] 0 c with
      | .target j k => Found.target (gkey [e] j k)
      | .nothing => Found.nothing
      | .crash x => Found.crash x) = resolveCall f imp e.fir c := by
  unfold resolveAt resolveCall
  cases ht : c.target with
  | none => rfl
  | some t =>
    have hki := hk t ht
    simp only
    cases hkind : t.kind with
    | builtin => rfl
    | name => rfl
    | import_ => exact absurd hkind hki
    | func =>
      simp only [FileA.excluded, hx]
      by_cases hex : pf.excluded.contains t.name = true
      · simp only [hex, if_true]
      · simp only [hex, Bool.false_eq_true, if_false]
        rw [locate_single]
        cases keyOf e.fir t with
        | none => rfl
        | some k => simp [gkey, offset]
    | cls =>
      simp only [realClassP_single]
      rw [locate_single]
      cases keyOf e.fir (realClass e.fir t) with
      | none => rfl
      | some k => simp [gkey, offset]
end Rattr.C03


/-! ## Round 3 — keyword / positional-only clashes, recursion of every callable, calls in every position -/

namespace Rattr.C03
open Rattr Rattr.Results Rattr.Cex Rattr.Spec

/-! ### (1) a keyword spelled like a positional-only / `*args` / `**kwargs` parameter -/

/-- **`C03_swaps_are_binding_inside_E1`.** `def record(event, /, **fields)` called
`record(ev, event=x)`: Python binds `event := ev`, `fields := {"event": x}`.  For EVERY signature
with distinct parameter names and EVERY call Python accepts that supplies the positional-only
parameters, the swaps of `construct_call_swaps` are Python's binding plus stand-ins — also inside
the C04 defect class `E1` (where the pinned code wrongly DIAGNOSES the call) and whether or not the
keywords are distinct.  A keyword can re-bind neither a positional-only parameter nor one bound by
position: the keyword loop consults the consumable interface lists only. -/
theorem C03_swaps_are_binding_inside_E1 {α : Type} [DecidableEq α] (si : StandIns α)
    (s : Spec.Sig α) (c : CallArgs α) (hn : s.iface.all.Nodup) (hE2 : ¬ C04.E2 s c)
    (b : Spec.Binding α) (hb : Spec.pyBind s c = .ok b) :
    C04.SameMap (Swaps.construct si s.iface c).1 (Spec.expectedSwapsLenient si s b) :=
  swaps_binding_any_keywords si s c hn hE2 b hb

/-- `def record(event, /, **fields)` (names: event = 1, fields = 2) · `record(ev, event=x)` (ev = 10, x = 11). -/
def sigK : Spec.Sig Nat := { posonly := [⟨1, false⟩], args := [], vararg := none, kwonly := [], kwarg := some 2 }
def callK : CallArgs Nat := ⟨[10], [(1, 11)]⟩

/-- non-vacuity INSIDE `E1`, by evaluation: the call is in `E1`, Python accepts it, the pinned code
diagnoses it ("by position and name") — and the swaps are `event ↦ ev`, `fields ↦ @Dict`, nothing
else: the keyword did not re-bind `event`. -/
theorem C03_test_kwclash :
    C04.E1 sigK callK ∧ ¬ C04.E2 sigK callK ∧ (∃ b, Spec.pyBind sigK callK = .ok b) ∧
    (Swaps.construct ⟨100, 200⟩ sigK.iface callK).2 = [SwapDiag.byPositionAndName [1]] ∧
    (Swaps.construct ⟨100, 200⟩ sigK.iface callK).1 = [(1, 10), (2, 200)] := by
  refine ⟨by decide, by decide, ?_, by decide, by decide⟩
  have : (match Spec.pyBind sigK callK with | .ok _ => true | .error _ => false) = true := by decide
  cases h : Spec.pyBind sigK callK with
  | ok b => exact ⟨b, rfl⟩
  | error e => rw [h] at this; cases this

/-- every resolvable call supplies the positional-only parameters (outside the C04 class `E2`). -/
def OutsideE2 (S : Spec.SProg) : Prop :=
  ∀ f c g, c ∈ (fnAt S.prog f).calls → S.prog.resolve c.cid = some g → ¬ C04.E2 (Spec.sigAt S g) c.args

theorem OutsideE1E2.e2 {S : Spec.SProg} (h : OutsideE1E2 S) : OutsideE2 S :=
  fun f c g hc hr => (h f c g hc hr).2

/-- **The C04 fact without the `E1` exclusion and without distinct keywords.** -/
theorem swapsAreBinding_outside_E2 (S : Spec.SProg) (hSig : SigsDistinct S) (hE : OutsideE2 S) :
    SwapsAreBinding S := by
  intro f c g b hc hr hb k
  exact C03_swaps_are_binding_inside_E1 (si S.prog) (Spec.sigAt S g) c.args (hSig g ⟨f, c, hc, hr⟩)
    (hE f c g hc hr) b hb k

/-- `C03_depthOne_full_holds` for callees with `**kwargs` called with ANY keywords: the full statement
`C03_at` holds in the depth-one fragment with no hypothesis about how the keywords are spelled. -/
theorem C03_depthOne_full_holds_any_keywords (S : Spec.SProg) (hP : DepthOne S.prog)
    (hC : CidArgs S.prog) (hR : CalleeRootBased S) (hN : NoStarArgs S.prog) (hI : IfaceOfSig S)
    (hA : AcceptedCalls S) (hSig : SigsDistinct S) (hE : OutsideE2 S)
    (order : List Key) : C03_at S order :=
  C03_depthOne_full_holds S hP hC hR hN hI hA (swapsAreBinding_outside_E2 S hSig hE) order

/-- the tree fragment without the `E1` / distinct-keywords hypotheses. -/
structure TreeFragmentK (S : Spec.SProg) : Prop where
  tree : TreeLike S.prog
  cid : CidArgs S.prog
  rootBased : CalleeRootBased S
  bare : BareArgs S.prog
  iface : IfaceOfSig S
  accepted : AcceptedCalls S
  sigs : SigsDistinct S
  e2 : OutsideE2 S

theorem TreeFragmentK.hyps {S : Spec.SProg} (h : TreeFragmentK S) : TreeHyps S :=
  ⟨h.cid, h.rootBased, h.bare, h.iface, h.accepted, swapsAreBinding_outside_E2 S h.sigs h.e2⟩

theorem TreeFragment.toK {S : Spec.SProg} (h : TreeFragment S) : TreeFragmentK S :=
  ⟨h.tree, h.cid, h.rootBased, h.bare, h.iface, h.accepted, h.sigs, h.c04.e2⟩

/-- **C03 in the tree fragment, every root, any order — callees with `**kwargs` called with ANY
keywords.**  The reported spellings are exactly the derivable ones, at any call depth. -/
theorem C03_tree_any_order_any_keywords (S : Spec.SProg) (hF : TreeFragmentK S) (order : List Key)
    (rs : List (Key × IrSets)) (σ' : Store) (hgen : generate S.prog order S.own = .ok (rs, σ'))
    (f : Key) (res : IrSets) (hf : (f, res) ∈ rs) (n : Str) :
    (n ∈ fulls res.gets ↔ Spec.DerivableGet S f n) ∧
    (n ∈ fulls res.sets ↔ Spec.DerivableSet S f n) ∧
    (n ∈ fulls res.dels ↔ Spec.DerivableDel S f n) := by
  obtain ⟨_, hres, _, _⟩ := generate_tree hF.tree.2 hF.cid order S.own σ' rs (StoreInv.refl _ _) hgen
  have hr := hres f res hf
  have key : ∀ k : Kind, (∃ x ∈ res.of k, x.full = n) ↔ ∃ d, n ∈ (Spec.derive S d f).of k := by
    intro k
    rw [← clo_iff_derivable hF.hyps k f n]
    constructor
    · rintro ⟨x, hx, e⟩; exact ⟨x, (hr k x).mp hx, e⟩
    · rintro ⟨x, hx, e⟩; exact ⟨x, (hr k x).mpr hx, e⟩
  unfold fulls
  simp only [List.mem_map]
  exact ⟨key .get, key .set, key .del⟩

/-- …hence the FULL statement `C03_at`. -/
theorem C03_tree_full_holds_any_keywords (S : Spec.SProg) (hF : TreeFragmentK S) (order : List Key) :
    C03_at S order := by
  intro rs σ' hgen f res hf
  have key := C03_tree_any_order_any_keywords S hF order rs σ' hgen f res hf
  refine ⟨?_, ?_, ?_, fun _ => ⟨?_, ?_, ?_⟩⟩
  · intro x hx; exact (key x.full).1.mp (List.mem_map.mpr ⟨x, hx, rfl⟩)
  · intro x hx; exact (key x.full).2.1.mp (List.mem_map.mpr ⟨x, hx, rfl⟩)
  · intro x hx; exact (key x.full).2.2.mp (List.mem_map.mpr ⟨x, hx, rfl⟩)
  · intro n hn; exact (key n).1.mpr hn
  · intro n hn; exact (key n).2.1.mpr hn
  · intro n hn; exact (key n).2.2.mpr hn

/-! ### (2) recursion: one unrolling, in the callable and in its callers — every call graph -/

/-- **`C03_callTree_wellformed`** — whatever the program (cycles, diamonds): node 0 of the BFS call
tree is the root, every child was created after its parent, and EVERY distinct resolvable call
record of the root has a child of the root (the root's expansion is never cut by `seen`). -/
theorem C03_callTree_wellformed (P : Prog) (root : Key) (nodes : List Results.Node)
    (h : callTree P root = some nodes) :
    nodes[0]? = some (rootNode root) ∧ ParentLt nodes ∧
    ∀ c g, c ∈ (fnAt P root).calls → P.resolve c.cid = some g →
      ∃ (j : Nat) (c' : CallRec), nodes[j]? = some ({ key := g, edgeIn := some c', parent := some 0 } : Results.Node) ∧
        c' ∈ (fnAt P root).calls ∧ c'.cid = c.cid :=
  callTree_wf P root nodes h

/-- **`C03_tree_node_contributes`** — "contains at least one full unrolling": every node the BFS put
into the call tree reaches the root's result.  `TreeContrib P nodes σ 0 k x`: `x` is an entry of the
store, or the `unbind_name` image (under the swaps of the tree edge) of a contribution to a child.
Holds for every program and every store (earlier roots may have written to it). -/
theorem C03_tree_node_contributes (P : Prog) (σ σ' : Store) (root : Key) (res : IrSets)
    (nodes : List Results.Node) (ht : callTree P root = some nodes)
    (h : runRoot P σ root = .ok (res, σ')) (k : Kind) (x : NameS)
    (hc : TreeContrib P nodes σ 0 k x) : x ∈ res.of k :=
  runRoot_treeContrib P σ σ' root res nodes ht h k x hc

/-- **`C03_first_level_all_graphs`** — for EVERY program: each resolvable call `c` of the root to `g`
contributes the unbound image of every name of `g`'s entry (through the first call record of the
root that equals `c` as a Call symbol). -/
theorem C03_first_level_all_graphs (P : Prog) (σ σ' : Store) (root : Key) (res : IrSets)
    (h : runRoot P σ root = .ok (res, σ')) (c : CallRec) (g : Key)
    (hc : c ∈ (fnAt P root).calls) (hr : P.resolve c.cid = some g) :
    ∃ c', c' ∈ (fnAt P root).calls ∧ c'.cid = c.cid ∧
      ∀ (k : Kind) (x x' : NameS), x ∈ (σ g).of k →
        unbindName x (imageOf P g c' x.base) = some x' → x' ∈ res.of k :=
  runRoot_first_level P σ σ' root res h c g hc hr

/-- **`C03_direct_recursion_unrolled_once`** — a callable that calls ITSELF (`P.resolve c.cid = some
root`: a recursive function, lambda, static method `K.s(...)` inside `K.s`, initialiser
constructing its own class): its own accesses, rewritten by the swaps of the recursive call, are
in its results. -/
theorem C03_direct_recursion_unrolled_once (P : Prog) (σ σ' : Store) (root : Key) (res : IrSets)
    (h : runRoot P σ root = .ok (res, σ')) (c : CallRec)
    (hc : c ∈ (fnAt P root).calls) (hr : P.resolve c.cid = some root) :
    ∃ c', c' ∈ (fnAt P root).calls ∧ c'.cid = c.cid ∧
      ∀ (k : Kind) (x x' : NameS), x ∈ (σ root).of k →
        unbindName x (imageOf P root c' x.base) = some x' → x' ∈ res.of k :=
  runRoot_first_level P σ σ' root res h c root hc hr

/-- **`C03_second_level_all_graphs`** — the cycle entered from OUTSIDE: a grandchild node of the tree
(e.g. the recursive call inside a callee) contributes to the caller through both substitutions. -/
theorem C03_second_level_all_graphs (P : Prog) (σ σ' : Store) (root : Key) (res : IrSets)
    (nodes : List Results.Node) (ht : callTree P root = some nodes)
    (h : runRoot P σ root = .ok (res, σ')) (i j : Nat) (ch gch : Results.Node) (c1 c2 : CallRec)
    (hi : nodes[i]? = some ch) (hpi : ch.parent = some 0) (hei : ch.edgeIn = some c1)
    (hj : nodes[j]? = some gch) (hpj : gch.parent = some i) (hej : gch.edgeIn = some c2)
    (k : Kind) (x x' x'' : NameS) (hx : x ∈ (σ gch.key).of k)
    (hu1 : unbindName x (imageOf P gch.key c2 x.base) = some x')
    (hu2 : unbindName x' (imageOf P ch.key c1 x'.base) = some x'') : x'' ∈ res.of k :=
  runRoot_second_level P σ σ' root res nodes ht h i j ch gch c1 c2 hi hpi hei hj hpj hej k x x' x'' hx hu1 hu2

/-- `swap(a, b): a.left = b.right; swap(b, a)` · `use(x, y): swap(x, y)` · `outer(u, v): use(v, u)`.
keys 0 swap, 1 use, 2 outer; three different call records. -/
def Pswap : Prog := {
  fns := [ ⟨iface ["a", "b"], [call 0 "swap" ["b", "a"]]⟩, ⟨iface ["x", "y"], [call 1 "swap" ["x", "y"]]⟩,
           ⟨iface ["u", "v"], [call 2 "use" ["v", "u"]]⟩ ],
  resolve := fun c => match c with | 0 => some 0 | 1 => some 0 | 2 => some 1 | _ => none }
def σswap : Store := fun k => match k with
  | 0 => ⟨[nm "b.right" "b"], [nm "a.left" "a"], []⟩
  | _ => IrSets.empty

/-- TEST (kernel evaluation of the model on the recursive program above): one unrolling of the
cycle is in the recursive function (`b.left`, `a.right`), in its caller and in the caller's caller,
whichever root is generated first. -/
theorem C03_test_swap_recursion :
    setsOf Pswap σswap [0, 1, 2] 0 = some [s "a.left", s "b.left"] ∧
    getsOf Pswap σswap [0, 1, 2] 0 = some [s "b.right", s "a.right"] ∧
    setsOf Pswap σswap [2, 1, 0] 2 = some [s "v.left", s "u.left"] ∧
    getsOf Pswap σswap [2, 1, 0] 1 = some [s "y.right", s "x.right"] := by decide +kernel

/-- non-vacuity of `C03_direct_recursion_unrolled_once` on that program: the hypotheses hold for
`swap`, and the conclusion yields `b.left` (from the own set `a.left` under `a ↦ b`). -/
example : ∃ res σ', runRoot Pswap σswap 0 = .ok (res, σ') ∧ nm "b.left" "b" ∈ res.of .set := by
  have hok : (match runRoot Pswap σswap 0 with | .ok _ => true | _ => false) = true := by decide +kernel
  cases h : runRoot Pswap σswap 0 with
  | ok p =>
    obtain ⟨res, σ'⟩ := p
    refine ⟨res, σ', rfl, ?_⟩
    obtain ⟨c', hc', _, hall⟩ := C03_direct_recursion_unrolled_once Pswap σswap σ' 0 res h
      (call 0 "swap" ["b", "a"]) (by decide) (by decide)
    have hc : c' = call 0 "swap" ["b", "a"] := by simpa [Pswap, fnAt] using hc'
    subst hc
    exact hall .set (nm "a.left" "a") (nm "b.left" "b") (by decide) (by decide +kernel)
  | outOfFuel => rw [h] at hok; cases hok
  | never => rw [h] at hok; cases hok

/-! ### (3) a call in ANY position is an own call -/

open Rattr.AccessSpec in
/-- **`C03_call_under_compound_is_own_call`** — "reported calls are exactly the function's own direct
calls": if the analysis of a body (in the C01 fragment) succeeds, every call expression below
statements / expressions without a dedicated visitor — `match` subject and `case … if guard(x)`,
`if` / `while` conditions, `assert`, `raise`, `await`, `yield`, `yield from`, f-string fields,
operands of every operator, `try` handlers — has a record in `calls` named after its callee. -/
theorem C03_call_under_compound_is_own_call {env : FnA.Env} {mn : Str} {F : Feat}
    (hm : ModClean env mn) {root : Context} {ps : Params} {body : List Rattr.Node}
    (hb : fragL (dirtyKeys env mn root) F body = true) {s' : Rattr.St}
    (h : FnA.analyse env mn root ps body = .ok s') {m : Rattr.Node} (hmem : m ∈ body)
    {f : Rattr.Node} {args : List Rattr.Node} {kwn : List (Option Str)} {kwv : List Rattr.Node}
    (hu : Under (.call f args kwn kwv) m) :
    ∃ c ∈ s'.calls, c.name = Strs.withoutCallBrackets (spell f) :=
  call_under_compound_recorded hm hb h hmem hu

open Rattr.AccessSpec in
/-- …and every access of its arguments is reported (the callee's parameters are rewritten to them). -/
theorem C03_args_under_compound_reported {env : FnA.Env} {mn : Str} {F : Feat}
    (hm : ModClean env mn) {root : Context} {ps : Params} {body : List Rattr.Node}
    (hb : fragL (dirtyKeys env mn root) F body = true) {s' : Rattr.St}
    (h : FnA.analyse env mn root ps body = .ok s') {m : Rattr.Node} (hmem : m ∈ body)
    {f : Rattr.Node} {args : List Rattr.Node} {kwn : List (Option Str)} {kwv : List Rattr.Node}
    (hu : Under (.call f args kwn kwv) m) :
    Covers (accessesL args ++ accessesL kwv) s' :=
  args_under_compound_reported hm hb h hmem hu

open Rattr.AccessSpec in
/-- **`C03_match_guard_call_is_own_call`** — the instance for `match subject: … case P if g(args): …`
(`ast.Match(subject, cases)`, `ast.match_case(pattern, guard, body)`: no visitor of their own). -/
theorem C03_match_guard_call_is_own_call {env : FnA.Env} {mn : Str} {F : Feat}
    (hm : ModClean env mn) {root : Context} {ps : Params} {body : List Rattr.Node}
    (hb : fragL (dirtyKeys env mn root) F body = true) {s' : Rattr.St}
    (h : FnA.analyse env mn root ps body = .ok s')
    {subject pattern : Rattr.Node} {before after caseBody : List Rattr.Node}
    {f : Rattr.Node} {args : List Rattr.Node} {kwn : List (Option Str)} {kwv : List Rattr.Node}
    (hmem : Rattr.Node.other "Match".toList (subject :: before ++
        [.other "match_case".toList (pattern :: .call f args kwn kwv :: caseBody)] ++ after) ∈ body) :
    ∃ c ∈ s'.calls, c.name = Strs.withoutCallBrackets (spell f) := by
  apply call_under_compound_recorded hm hb h hmem
  apply Under.other (n := .other "match_case".toList (pattern :: .call f args kwn kwv :: caseBody))
  · simp
  · exact Under.other (n := .call f args kwn kwv) (by simp) (Under.here _)

/-! ### (4) a static method is registered before its body is analysed -/

/-- **`C03_static_method_registered_before_body`** — `ClassAnalyser.visit_static_method`: the `Func`
symbol `C.m` enters the context, THEN the body is analysed in that context. -/
theorem C03_static_method_registered_before_body (env : FnA.Env) (mn cls : Str) (m : FileA.Method)
    (s : FileA.FState) (cir : FileA.ClassIr) (k : FileA.FState → FileA.ClassIr → FileA.FOut) :
    FileA.visitStatic env mn cls m s cir k =
      FileA.analyseInto env mn m.ps m.body
        { s with ctx := Context.add s.ctx (FnA.funcSym (cls ++ '.' :: m.name) m.ps.iface) }
        (fun ir s => k s (Dict.set cir (FnA.funcSym (cls ++ '.' :: m.name) m.ps.iface) ir)) :=
  FileA.visitStatic_registers_first env mn cls m s cir k

/-- **`C03_static_body_sees_itself`** — in the state in which the body of `C.m` starts being visited
(new scope, parameters bound) the dotted name `C.m` is bound to the method's own `Func` symbol, so
a recursive call `C.m(...)` gets it as target and result generation unrolls the cycle
(`C03_direct_recursion_unrolled_once`).  Hypotheses: nothing called `C.m` was visible before (a class
attribute `m = …` registers the `Name` `C.m` first — then that stays), no parameter is spelled `C.m`. -/
theorem C03_static_body_sees_itself (c : Context) (cls : Str) (m : FileA.Method)
    (hfresh : Context.contains c (FnA.funcSym (cls ++ '.' :: m.name) m.ps.iface).name = false)
    (hps : (FnA.funcSym (cls ++ '.' :: m.name) m.ps.iface).name ∉ m.ps.all) :
    Context.get?
      (FnA.addArguments { ctx := Context.push (Context.add c (FnA.funcSym (cls ++ '.' :: m.name) m.ps.iface)) } m.ps).ctx
      (FnA.funcSym (cls ++ '.' :: m.name) m.ps.iface).name
      = some (FnA.funcSym (cls ++ '.' :: m.name) m.ps.iface) :=
  FileA.static_body_sees_itself c cls m hfresh hps

end Rattr.C03

/-! ### (5) the whole pipeline model on a module with all three -/

namespace Rattr.C03
open Rattr Rattr.Results Rattr.Pipeline Rattr.Spec

/-- the model's encoding (rendered by `py/tools/lean_module.py`) of

```
def record(event, /, **fields):
    event.seen = 1
    return fields.extra
class Ledger:
    @staticmethod
    def settle(debit, credit):
        debit.balance = credit.limit
        return Ledger.settle(credit, debit)
def dispatch(msg, ctx):
    match msg.kind:
        case 1 if record(ctx, event=msg):
            return Ledger.settle(msg, ctx)
def route(m, c):
    return dispatch(m, c)
``` -/
def modR : List Top :=
  [.funcDef "record".toList ⟨["event".toList], [], none, [], (some "fields".toList)⟩
      [(.assign [(.attr (.name "event".toList .load) "seen".toList .store)] .const), (.ret [(.attr (.name "fields".toList .load) "extra".toList .load)])]
      [] false,
   .classDef "Ledger".toList []
     [.funcDef "settle".toList ⟨[], ["debit".toList, "credit".toList], none, [], none⟩
      [(.assign [(.attr (.name "debit".toList .load) "balance".toList .store)] (.attr (.name "credit".toList .load) "limit".toList .load)), (.ret [(.call (.attr (.name "Ledger".toList .load) "settle".toList .load) [(.name "credit".toList .load), (.name "debit".toList .load)] [] [])])]
      [⟨.named Ann.nStatic, none⟩] false]
     [],
   .funcDef "dispatch".toList ⟨[], ["msg".toList, "ctx".toList], none, [], none⟩
      [(.other "Match".toList [(.attr (.name "msg".toList .load) "kind".toList .load), (.other "match_case".toList [(.other "MatchValue".toList [.const]), (.call (.name "record".toList .load) [(.name "ctx".toList .load)] [(some "event".toList)] [(.name "msg".toList .load)]), (.ret [(.call (.attr (.name "Ledger".toList .load) "settle".toList .load) [(.name "msg".toList .load), (.name "ctx".toList .load)] [] [])])])])]
      [] false,
   .funcDef "route".toList ⟨[], ["m".toList, "c".toList], none, [], none⟩
      [(.ret [(.call (.name "dispatch".toList .load) [(.name "m".toList .load), (.name "c".toList .load)] [] [])])]
      [] false]

/-- what `python -m rattr -o results -f 0` prints for that file (checked against the real CLI):
`event ↦ ctx` (NOT `msg`: the keyword `event=msg` went into `**fields ↦ @Dict`), one unrolling of
`Ledger.settle` in itself, in `dispatch` and in `route`, and the guard's call among `dispatch`'s calls. -/
def docR : ResultsDoc :=
  [(S' "record", ⟨[S' "fields.extra"], [S' "event.seen"], [], []⟩),
   (S' "Ledger.settle", ⟨[S' "credit", S' "credit.limit", S' "debit", S' "debit.limit"],
     [S' "credit.balance", S' "debit.balance"], [], [S' "Ledger.settle()"]⟩),
   (S' "dispatch", ⟨[S' "@Dict.extra", S' "ctx", S' "ctx.limit", S' "msg", S' "msg.kind", S' "msg.limit"],
     [S' "ctx.balance", S' "ctx.seen", S' "msg.balance"], [], [S' "Ledger.settle()", S' "record()"]⟩),
   (S' "route", ⟨[S' "@Dict.extra", S' "c", S' "c.limit", S' "m", S' "m.kind", S' "m.limit"],
     [S' "c.balance", S' "c.seen", S' "m.balance"], [], [S' "dispatch()"]⟩)]

/-- the two diagnostics of that run: the accepted call `record(ctx, event=msg)` is diagnosed "by
position and name" once per root that reaches it (the known C04 finding) — the swaps are right. -/
def dsR : List Diag :=
  [mkDiag .error "swaps-by-position-and-name" (S' "record|event"),
   mkDiag .error "swaps-by-position-and-name" (S' "record|event")]

/-- TEST (kernel evaluation of the WHOLE pipeline model — root context, file / class / function
analysers, call targets, call tree, fold, printed document — on the module above). -/
theorem pipeline_test_round3 :
    run envP (S' "target") {} [S' "print"] modR = .ok (docR, dsR) :=
  eq_of_outcomeIs (by decide +kernel)

end Rattr.C03

/-! ### (6) Tie A for the code paths of round 3 (`py/tables/t_c03.py` → `RattrModel/Generated/C03.lean`) -/

namespace Rattr.C03
open Rattr

/-- the `visit_*` methods of `FunctionAnalyser` (`dir()` of the class in the working tree) are the ones
the model knows: every other AST class is visited generically (`other kind kids`). -/
theorem tieA_function_visitors :
    (Generated.C03.functionAnalyserVisitors.all (FnA.fnVisitors.contains ·) &&
      FnA.fnVisitors.all (Generated.C03.functionAnalyserVisitors.contains ·)) = true := by decide

/-- none of the AST classes the round-3 inputs put a call under (`Match`, `match_case`, the patterns,
`If`, `While`, `Assert`, `Raise`, `Await`, `Yield`, `JoinedStr`, the operators, `Try`, …) has a
dedicated visitor in the working tree: `C03_call_under_compound_is_own_call` speaks about them. -/
theorem tieA_generic_kinds_have_no_visitor :
    FnA.genericKinds.all (fun k => !Generated.C03.functionAnalyserVisitors.contains ("visit_" ++ k)) = true := by
  decide

/-- `ClassAnalyser.visit_static_method` in the working tree registers the `Func` symbol, THEN builds the
`FunctionAnalyser` and runs it — the order `FileA.visitStatic` models
(`C03_static_method_registered_before_body`). -/
theorem tieA_static_method_steps : Generated.C03.staticMethodSteps = FileA.staticSteps := by decide

end Rattr.C03

/-! ### (7) the SPEC of "one unrolling" (`RattrModel/Spec/Unroll.lean`; tied to the harness' oracle by op `c03_spec`) -/

namespace Rattr.C03
open Rattr Rattr.Results Rattr.Cex Rattr.Spec

/-- **`C03_unroll_is_derivable`** — the lower bound of the recursion clause never demands what its
upper bound forbids: for every program, path and fuel, every name of `Spec.unroll` is in the
unfolding `Spec.derive` of the same depth (hence `Derivable`). -/
theorem C03_unroll_is_derivable (S : Spec.SProg) (d : Nat) (path : List Key) (f : Key) (k : Kind) (x : Str)
    (h : x ∈ (Spec.unroll S d path f).of k) : x ∈ (Spec.derive S d f).of k :=
  unroll_sub_derive S d path f k x h

/-- the own accesses are part of every unrolling. -/
theorem C03_unroll_contains_own (S : Spec.SProg) (d : Nat) (path : List Key) (f : Key) (k : Kind) (x : Str)
    (h : x ∈ (Spec.ownAcc S f).of k) : x ∈ (Spec.unroll S d path f).of k :=
  own_sub_unroll S d path f k x h

/-- a directly recursive call Python accepts contributes the callable's own accesses under the
binding of that call: the spec DEMANDS the first unrolling (what `C03_direct_recursion_unrolled_once`
delivers for the pinned code). -/
theorem C03_unroll_direct_recursion (S : Spec.SProg) (d : Nat) (f : Key) (c : CallRec) (b : Dict Str Str)
    (hc : c ∈ (fnAt S.prog f).calls) (hr : S.prog.resolve c.cid = some f)
    (hb : Spec.binding S f c = some b) (k : Kind) (m : Str) (hm : m ∈ (Spec.ownAcc S f).of k) :
    Spec.subst b m ∈ (Spec.unroll S (d + 1) [f] f).of k :=
  unroll_direct_recursion S d f c b hc hr hb k m hm

def Sswap : Spec.SProg := { prog := Pswap, sigs := [sig ["a", "b"], sig ["x", "y"], sig ["u", "v"]], own := σswap }

/-- TEST (kernel evaluation): on the recursive program `Pswap` the pinned code's results, for every root
and both orders, are EXACTLY the spec's one unrolling — in the recursive function, its caller and the
caller's caller. -/
theorem C03_test_unroll_swap :
    (Spec.unrollRoot Sswap 0).sets = [s "a.left", s "b.left"] ∧
    (Spec.unrollRoot Sswap 0).gets = [s "b.right", s "a.right"] ∧
    setsOf Pswap σswap [0, 1, 2] 1 = some (Spec.unrollRoot Sswap 1).sets ∧
    getsOf Pswap σswap [0, 1, 2] 2 = some (Spec.unrollRoot Sswap 2).gets ∧
    setsOf Pswap σswap [2, 1, 0] 2 = some (Spec.unrollRoot Sswap 2).sets := by decide +kernel

end Rattr.C03


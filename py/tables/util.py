def lstr(s: str) -> str:
    return '"' + s.replace("\\", "\\\\").replace('"', '\\"') + '"'


def llist(xs, f=lstr):
    return "[" + ", ".join(f(x) for x in xs) + "]"


def lbool(b):
    return "true" if b else "false"

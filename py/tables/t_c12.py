"""Tie A tables of C12: follow levels, blacklist patterns, and the *order* of the filter ladders of
`parse_and_analyse_imports` and `resolve_import` (ast scan of the current source)."""
import ast
import inspect
import textwrap

from tables.util import lbool, llist, lstr

NAME = "C12"


def _src(node):
    return ast.unparse(node)


def _rung(test_src):
    """Map an `if` guard of a ladder to a stable rung label (guard function + the flag it is
    paired with), or None when it is not a ladder guard."""
    t = test_src.replace(" ", "")
    if t in ("nameisNone", "target.module_nameisNone"):
        return "noName"
    if t == "specisNone":
        return "noSpec"
    if t == "spec.originisNone":
        return "noOrigin"
    if t == "spec.origininseen_module_origins":
        return "seen"
    if t in ("is_in_import_blacklist(name)", "is_in_import_blacklist(target.module_name)"):
        return "blacklist"
    if t == "module_irisNone":
        return "notFound"
    for guard in ("is_in_pip", "is_in_stdlib"):
        if guard + "(" in t:
            flags = sorted(f for f in ("follow_local_imports", "follow_pip_imports", "follow_stdlib_imports") if f in t)
            neg = "not" if t.startswith("not") else "plain"
            return f"{guard}:{neg}:{'+'.join(flags)}"
    if "follow_local_imports" in t:
        return ("not:" if t.startswith("not") else "plain:") + "follow_local_imports"
    return None


def _exit_kind(body):
    s = body[-1]
    if isinstance(s, ast.Continue):
        return "continue"
    if isinstance(s, ast.Raise):
        return "raise"
    if isinstance(s, ast.Return):
        return "return:" + (_src(s.value) if s.value is not None else "None")
    return "fallthrough"


def _scan_bfs(fn):
    """Sequence of events of the while-loop body, in source order."""
    tree = ast.parse(textwrap.dedent(inspect.getsource(fn)))
    loop = next(n for n in ast.walk(tree) if isinstance(n, ast.While))
    assert _src(loop.test) == "queue", _src(loop.test)
    ev = []
    for st in loop.body:
        s = _src(st)
        if isinstance(st, ast.If):
            r = _rung(_src(st.test))
            ev.append((r or "other-if:" + _src(st.test)) + "->" + _exit_kind(st.body))
            assert not st.orelse, "ladder rung with an else branch"
        elif isinstance(st, ast.Assign) and s.startswith("import_ = queue.popleft()"):
            ev.append("pop:left")
        elif isinstance(st, ast.With) and "read(spec.origin)" in s:
            ev.append("read")
        elif isinstance(st, ast.With) and "FileAnalyser(" in s and "compile_root_context(" in s:
            ev.append("analyse")
        elif isinstance(st, ast.Assign) and s.startswith("import_irs[name] ="):
            ev.append("store:name")
        elif isinstance(st, ast.For) and "queue.append(" in s:
            ev.append("enqueue:append")
        elif isinstance(st, ast.Expr) and s.startswith("seen_module_origins.add(spec.origin)"):
            ev.append("markSeen:origin")
    return ev


def _scan_resolve(fn):
    tree = ast.parse(textwrap.dedent(inspect.getsource(fn)))
    f = tree.body[0]
    ev = []
    for st in f.body:
        s = _src(st)
        if isinstance(st, ast.If):
            r = _rung(_src(st.test))
            if r is None:
                # the ladder ends at the first non-ladder `if` after the lookup
                if "lookup" in ev:
                    break
                ev.append("other-if:" + _src(st.test))
                continue
            ev.append(r + "->" + _exit_kind(st.body))
        elif isinstance(st, ast.Assign) and s.startswith("module_ir = environment.import_irs.get(target.module_name"):
            ev.append("lookup")
    return ev


def _level0_gate(fn):
    tree = ast.parse(textwrap.dedent(inspect.getsource(fn)))
    for n in ast.walk(tree):
        if isinstance(n, ast.If) and "parse_and_analyse_imports(" in _src(n):
            return [_src(n.test), _src(n.orelse[0]) if n.orelse else ""]
    raise AssertionError("level-0 gate not found")


def _scan_locate(fn):
    """`find_module_in_path`, statement by statement (flattened, docstring dropped): which path is
    resolved (the search dir) and which is not (what is joined below it, and the result)."""
    tree = ast.parse(textwrap.dedent(inspect.getsource(fn)))
    f = tree.body[0]
    ev = []

    def walk(body):
        for st in body:
            if isinstance(st, ast.Expr) and isinstance(st.value, ast.Constant) and isinstance(st.value.value, str):
                continue
            if isinstance(st, ast.If):
                ev.append("if " + _src(st.test))
                walk(st.body)
                if st.orelse:
                    ev.append("else")
                    walk(st.orelse)
                ev.append("endif")
            elif isinstance(st, ast.For):
                ev.append("for " + _src(st.target) + " in " + _src(st.iter))
                walk(st.body)
                ev.append("endfor")
            else:
                ev.append(_src(st))

    walk(f.body)
    return ev


def _body(fn):
    """Statements of a function body (docstring dropped), unparsed."""
    tree = ast.parse(textwrap.dedent(inspect.getsource(getattr(fn, "__wrapped__", fn))))
    f = tree.body[0]
    return [_src(st) for st in f.body
            if not (isinstance(st, ast.Expr) and isinstance(st.value, ast.Constant) and isinstance(st.value.value, str))]


def _section_tables():
    """The sections of the INSTALLED isort, and what `is_in_stdlib` makes of each of them (evaluated:
    `place_module` replaced by a constant function per section)."""
    from unittest import mock

    from isort import sections
    import rattr.module_locator.util as U

    names = list(sections.DEFAULT)
    consts = sorted(v for k, v in vars(sections).items() if k.isupper() and isinstance(v, str))
    assert sorted(names) == consts, (names, consts)
    rows = []
    for sec in names:
        with mock.patch.object(U, "place_module", lambda name, _s=sec: _s):
            rows.append((sec, bool(U.is_in_stdlib.__wrapped__("zz_some_module"))))
    from isort.api import place_module
    samples = [(n, str(place_module(n))) for n in ("__future__", "os", "os.path", "collections.abc", "sys",
                                                   "zz_no_such_module", ".relative")]
    # FIRSTPARTY is what a module found under isort's src_paths (the cwd of the process at the time isort is
    # imported: the project dir for `python -m rattr`) gets
    import tempfile
    from pathlib import Path
    from isort.settings import Config as IsortConfig
    with tempfile.TemporaryDirectory() as d:
        (Path(d) / "lm0.py").write_text("x = 1\n")
        cfg = IsortConfig(src_paths=(Path(d),))
        samples.append(("lm0 (a module in src_paths)", str(place_module("lm0", config=cfg))))
        (Path(d) / "keyword.py").write_text("x = 1\n")
        samples.append(("keyword (also a module in src_paths)", str(place_module("keyword", config=cfg))))
    pip_src = inspect.getsource(getattr(U.is_in_pip, "__wrapped__", U.is_in_pip))
    return names, rows, samples, ("place_module" in pip_src or "is_in_stdlib" in pip_src)


def _edge_sites():
    """Where the edges of the import graph are made: per import visitor of RootContextBuilder the
    keyword arguments of its `make_import_symbol(...)` call and the statements that compute the
    module of a relative import; the bodies of `Import._module_name_and_spec` / `module_name`."""
    import rattr.models.context._root_context as RC
    from rattr.models.symbol import Import
    tree = ast.parse(inspect.getsource(RC))
    cls = next(n for n in tree.body if isinstance(n, ast.ClassDef) and n.name == "RootContextBuilder")
    rows = []
    for fn in cls.body:
        if not isinstance(fn, ast.FunctionDef) or fn.name not in ("visit_Import", "visit_named_import", "visit_relative_import",
                                                                   "visit_starred_import", "visit_starred_relative_import"):
            continue
        for node in ast.walk(fn):
            if isinstance(node, ast.Assign) and isinstance(node.value, ast.Call) and \
                    getattr(node.value.func, "id", "") in ("derive_absolute_module_name", "derive_module_name_from_path"):
                rows.append(f"{fn.name}:{_src(node)}")
            if isinstance(node, ast.Call) and getattr(node.func, "id", "") == "make_import_symbol":
                rows += [f"{fn.name}:{kw.arg}={_src(kw.value)}" for kw in node.keywords]
    props = []
    for name in ("_module_name_and_spec", "module_name"):
        f = getattr(Import, name).fget
        props.append(f"{name}:" + "; ".join(_body(f)))
    return rows, props


def _derive_abs_table():
    """`derive_absolute_module_name` EVALUATED (the undecorated function, `current_file` set through
    `enter_file`) on a grid: __init__.py / module x base of 1..5 components x no / one / dotted target
    x level 0..5 (levels beyond the top-level package included)."""
    import rattr.module_locator.util as U
    from rattr.config.state import enter_file
    import impl
    impl.reset_config()
    fn = U.derive_absolute_module_name.__wrapped__
    comps = ["pa", "pb", "pc", "pd", "pe"]
    rows = []
    for is_init in (False, True):
        for d in range(1, 6):
            base = ".".join(comps[:d])
            path = "/".join(comps[:d]) + ("/__init__.py" if is_init else ".py")
            for target in (None, "x", "x.y"):
                for level in range(0, 6):
                    with enter_file(path):
                        r = fn(base, target, level)
                    rows.append((is_init, base, target, level, r))
    return rows


def _block_visitors():
    """Per `ast` statement class that has child STATEMENT lists (computed from `ast` itself: a field that is
    a list of stmt / excepthandler / match_case): the body of `RootContextBuilder.visit_<class>`
    (ast.unparse, docstring dropped), or `<no visit_ method>`; and the bodies of `register` /
    `register_stmts` (comments dropped by the parse)."""
    import rattr.models.context._root_context as RC
    tree = ast.parse(inspect.getsource(RC))
    cls = next(n for n in tree.body if isinstance(n, ast.ClassDef) and n.name == "RootContextBuilder")
    meths = {fn.name: fn for fn in cls.body if isinstance(fn, ast.FunctionDef)}

    def body(fn):
        b = list(fn.body)
        if b and isinstance(b[0], ast.Expr) and isinstance(b[0].value, ast.Constant) and isinstance(b[0].value.value, str):
            b = b[1:]
        return [ast.unparse(x).replace("\n", " ; ") for x in b]

    # the statement classes of THIS interpreter's grammar with nested statement lists
    import re as _re
    order = ["If", "For", "AsyncFor", "While", "With", "AsyncWith", "Try", "TryStar", "Match", "ClassDef",
             "FunctionDef", "AsyncFunctionDef"]
    have = sorted(c.__name__ for c in ast.stmt.__subclasses__()
                  if _re.search(r"\b(stmt|excepthandler|match_case)\*", c.__doc__ or ""))
    assert sorted(order) == have, ("statement classes with nested statement lists", have)
    rows = [(c, " ; ".join(body(meths["visit_" + c])) if "visit_" + c in meths else "<no visit_ method>") for c in order]
    # no visitor is installed any other way (no __getattr__, no base class, no setattr)
    assert not cls.bases and "__getattr__" not in meths and "setattr(" not in inspect.getsource(RC)
    reg = [f"{m}: {x}" for m in ("register", "register_stmts") for x in body(meths[m])]
    return rows, reg


def _project_root():
    """`_is_project_root`, `find_project_root`, `find_pyproject_toml` (rattr/config/_util.py), statement by
    statement."""
    import rattr.config._util as CU
    return [f"{fn.__name__}: {x}" for fn in (CU._is_project_root, CU.find_project_root, CU.find_pyproject_toml)
            for x in _scan_locate(fn)]


def tables():
    import rattr.analyser.file as F
    import rattr.results._find_call_target as R
    import rattr.module_locator._locate as L
    import rattr.module_locator.util as U
    _SEC = _section_tables()
    from rattr.config import Config
    import impl

    rows = []
    for lvl in range(4):
        a = impl.default_arguments(_follow_imports_level=lvl)
        rows.append((bool(a.follow_imports), a.follow_local_imports, a.follow_pip_imports, a.follow_stdlib_imports))
    impl_fn = F.__dict__["__parse_and_analyse_file_impl"]
    gate = _level0_gate(impl_fn)
    return [
        "/-- per level 0..3: (truthiness of follow_imports, follow_local_imports, follow_pip_imports, follow_stdlib_imports) -/",
        "def followLevels : List (Bool × Bool × Bool × Bool) := "
        + llist(rows, lambda r: "(" + ", ".join(lbool(x) for x in r) + ")"),
        f"def blacklistPatterns : List String := {llist(sorted(Config.MODULE_BLACKLIST_PATTERNS))}",
        f"def bfsLadder : List String := {llist(_scan_bfs(F.parse_and_analyse_imports))}",
        f"def resolveLadder : List String := {llist(_scan_resolve(R.resolve_import))}",
        f"def level0Gate : List String := {llist(gate)}",
        "/-- `isort.sections.DEFAULT` of the installed isort: everything `place_module` can return -/",
        f"def isortSections : List String := {llist(_SEC[0])}",
        "/-- per section: the verdict of `is_in_stdlib` when `place_module` returns it (evaluated) -/",
        "def stdlibOfSection : List (String × Bool) := " + llist(_SEC[1], lambda r: f"({lstr(r[0])}, {lbool(r[1])})"),
        "/-- `place_module` of the installed isort on sample names -/",
        "def placeSamples : List (String × String) := " + llist(_SEC[2], lambda r: f"({lstr(r[0])}, {lstr(r[1])})"),
        "/-- does `is_in_pip` consult isort / `is_in_stdlib` at all? -/",
        f"def isInPipConsultsIsort : Bool := {lbool(_SEC[3])}",
        "/-- body of `is_in_stdlib` -/",
        f"def isInStdlibBody : List String := {llist(_body(U.is_in_stdlib))}",
        "/-- `derive_absolute_module_name`, statement by statement -/",
        f"def deriveAbsBody : List String := {llist(_scan_locate(getattr(U.derive_absolute_module_name, '__wrapped__', U.derive_absolute_module_name)))}",
        "/-- `derive_absolute_module_name` evaluated: (current file is an __init__.py, base, target, level, result) -/",
        "def deriveAbsTable : List (Bool × String × Option String × Nat × String) := "
        + llist(_derive_abs_table(), lambda r: f"({lbool(r[0])}, {lstr(r[1])}, "
                + ("none" if r[2] is None else f"some {lstr(r[2])}") + f", {r[3]}, {lstr(r[4])})"),
        "/-- the import visitors: arguments of `make_import_symbol`, how the module of a relative import is computed -/",
        f"def edgeSites : List String := {llist(_edge_sites()[0])}",
        "/-- `Import._module_name_and_spec` / `Import.module_name` -/",
        f"def importModuleName : List String := {llist(_edge_sites()[1])}",
        "/-- per statement class with nested statement lists: the body of RootContextBuilder.visit_<class> -/",
        "def blockVisitors : List (String × String) := " + llist(_block_visitors()[0], lambda r: f"({lstr(r[0])}, {lstr(r[1])})"),
        "/-- `RootContextBuilder.register` / `register_stmts` -/",
        f"def registerBodies : List String := {llist(_block_visitors()[1])}",
        "/-- `_is_project_root` / `find_project_root` / `find_pyproject_toml`, statement by statement -/",
        f"def projectRootOps : List String := {llist(_project_root())}",
        "/-- `find_module_in_path`, statement by statement -/",
        f"def locateOps : List String := {llist(_scan_locate(L.find_module_in_path))}",
    ]

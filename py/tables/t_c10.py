"""Tie A tables for C10 (naming): constants the Lean model `RattrModel/Naming.lean` hard-codes.

Strings are emitted as `List Char` literals (the model computes with `Str = List Char`), so the
Tie-A theorems are plain `decide`s on list equality.
"""
import ast
import inspect

from tables.util import llist, lstr

NAME = "C10"


def lchar(c: str) -> str:
    if c == "'":
        return "'\\''"
    if c == "\\":
        return "'\\\\'"
    assert c.isprintable() and c != "\n", repr(c)
    return f"'{c}'"


def lchars(s: str) -> str:
    return "[" + ", ".join(lchar(c) for c in s) + "]"


def _class_names(tup):
    assert isinstance(tup, tuple) and all(isinstance(c, type) and issubclass(c, ast.AST) for c in tup)
    return [c.__name__ for c in tup]


def _error_ladder(fn):
    """The `isinstance(node, X) -> error class` ladder of a namer, read off the source:
    list of (tested class / tuple name, exception name) in order, then the fallback."""
    src = inspect.getsource(fn)
    tree = ast.parse(__import__("textwrap").dedent(src))
    out = []
    for n in ast.walk(tree):
        if isinstance(n, ast.If) and isinstance(n.test, ast.Call) and getattr(n.test.func, "id", "") == "isinstance":
            tested = ast.unparse(n.test.args[1])
            body = n.body[0]
            val = None
            if isinstance(body, ast.Return):
                val = body.value
            elif isinstance(body, ast.Assign) and ast.unparse(body.targets[0]) == "_error_class":
                val = body.value
            if val is not None and ast.unparse(val).startswith("error.Rattr"):
                out.append((tested, ast.unparse(val).removeprefix("error.")))
    return out


def consumer_sites():
    """Every reference to a namer in the source of the repo under test (py/props/c10scan.py)."""
    import os

    import rattr
    from props import c10scan

    root = os.path.dirname(os.path.dirname(os.path.realpath(rattr.__file__)))
    rows = [c10scan.key(s) for s in c10scan.scan(root)]
    return llist(rows, lambda r: f"({lstr(r[0])}, {lstr(r[1])}, {lstr(r[2])}, {r[3]}, {lstr(r[4])})")


def tables():
    import rattr.ast._util as au
    import rattr.analyser.util as old
    from rattr.ast import types as T
    from rattr.config import Config
    from rattr.models.symbol._symbols import PYTHON_ATTR_ACCESS_BUILTINS

    ladder_new = _error_ladder(getattr(au, "__specific_name_error"))
    ladder_old = _error_ladder(old.get_basename_fullname_pair)

    def ladder(l):
        return llist(l, lambda p: f"({lstr(p[0])}, {lstr(p[1])})")

    return [
        "abbrev Str := List Char",
        f"def literalPrefix : Str := {lchars(Config.LITERAL_VALUE_PREFIX)}",
        f"def attrAccessBuiltins : List Str := {llist(PYTHON_ATTR_ACCESS_BUILTINS, lchars)}",
        f"def astNodeWithName : List Str := {llist(_class_names(T.AstNodeWithName), lchars)}",
        f"def astLiterals : List Str := {llist(_class_names(T.AstLiterals), lchars)}",
        f"def astComprehensions : List Str := {llist(_class_names(T.AstComprehensions), lchars)}",
        "/-- `__specific_name_error`: (class tested by isinstance, exception returned), in source order. -/",
        f"def errorLadderNew : List (String × String) := {ladder(ladder_new)}",
        "/-- the `_error_class` ladder of `get_basename_fullname_pair`, in source order. -/",
        f"def errorLadderOld : List (String × String) := {ladder(ladder_old)}",
        "/-- every reference to a namer in the source: (file, enclosing scope, namer, ordinal, consuming statement). -/",
        f"def consumerSites : List (String × String × String × Nat × String) := {consumer_sites()}",
    ]

"""Tie A table of the function analyser: every `visit_*` attribute of `FunctionAnalyser` (by `dir()`).
A node class without one goes through `ast.NodeVisitor.generic_visit` — in the model that is
`Node.other`; in particular every node class of a `match` statement (RattrModel/Match.lean)."""
from tables.util import llist

NAME = "C01"


def tables():
    from rattr.analyser.function import FunctionAnalyser

    return [
        f"def functionAnalyserVisitors : List String := {llist(sorted(n for n in dir(FunctionAnalyser) if n.startswith('visit_')))}",
    ]

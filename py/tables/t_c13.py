from tables.util import lbool, llist, lstr

NAME = "C13"


def tables():
    import inspect
    import shutil
    import sys
    import tempfile
    from pathlib import Path

    from rattr.module_locator import _locate as L
    from rattr.module_locator import util as U

    f = U.derive_absolute_module_name
    cached = hasattr(f, "cache_clear") and hasattr(f, "__wrapped__")
    body = f.__wrapped__ if cached else f
    params = list(inspect.signature(body).parameters)
    reads_current_file = "current_file" in inspect.getsource(body)

    base = Path(tempfile.mkdtemp(prefix="c13tab"))
    old = sys.path[:]
    try:
        a, b, c = base / "a", base / "b", base / "c"
        for d in (a, b, c):
            d.mkdir()
        (a / "pkg").mkdir()
        (a / "pkg" / "__init__.py").write_text("")
        (a / "mod.py").write_text("")
        (a / "both").mkdir()
        (a / "both" / "__init__.py").write_text("")
        (a / "both.py").write_text("")
        sys.path[:] = [str(a), str(b), str(c)]
        labels = {str(a.resolve()): "cwd", str(Path(L.rattr_root).resolve()): "rattrRoot",
                  str(b.resolve()): "sysPath1", str(c.resolve()): "sysPath2"}
        order = [labels.get(str(Path(p).resolve()), "?") for p in L.iter_python_path_dirs()]
        pkg = L.find_module_in_path(a, "pkg")
        mod = L.find_module_in_path(a, "mod")
        both = L.find_module_in_path(a, "both")
        empty = L.find_module_in_path(a, "")
    finally:
        sys.path[:] = old
        shutil.rmtree(base, ignore_errors=True)

    return [
        f"def deriveAbsCached : Bool := {lbool(cached)}",
        f"def deriveAbsCacheKey : List String := {llist(params)}",
        f"def deriveAbsReadsCurrentFile : Bool := {lbool(reads_current_file)}",
        f"def searchOrder : List String := {llist(order)}",
        f"def packageFile : String := {lstr(pkg.name)}",
        f"def moduleFile : String := {lstr(mod.name)}",
        f"def clashWinner : String := {lstr(str(both.relative_to(a.resolve())))}",
        f"def emptyNameFound : Bool := {lbool(empty is not None)}",
        f"def emptyNameIsStdlib : Bool := {lbool(bool(U.is_in_stdlib('')))}",
    ]

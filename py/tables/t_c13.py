from tables.util import lbool, llist, lstr

NAME = "C13"


def tables():
    import inspect
    import shutil
    import sys
    import tempfile
    from pathlib import Path

    from rattr.module_locator import _locate as L
    from rattr.module_locator import util as U

    f = U.derive_absolute_module_name
    cached = hasattr(f, "cache_clear") and hasattr(f, "__wrapped__")
    body = f.__wrapped__ if cached else f
    params = list(inspect.signature(body).parameters)
    reads_current_file = "current_file" in inspect.getsource(body)

    base = Path(tempfile.mkdtemp(prefix="c13tab"))
    old = sys.path[:]
    try:
        a, b, c = base / "a", base / "b", base / "c"
        for d in (a, b, c):
            d.mkdir()
        (a / "pkg").mkdir()
        (a / "pkg" / "__init__.py").write_text("")
        (a / "mod.py").write_text("")
        (a / "both").mkdir()
        (a / "both" / "__init__.py").write_text("")
        (a / "both.py").write_text("")
        sys.path[:] = [str(a), str(b), str(c)]
        labels = {str(a.resolve()): "cwd", str(Path(L.rattr_root).resolve()): "rattrRoot",
                  str(b.resolve()): "sysPath1", str(c.resolve()): "sysPath2"}
        order = [labels.get(str(Path(p).resolve()), "?") for p in L.iter_python_path_dirs()]
        pkg = L.find_module_in_path(a, "pkg")
        mod = L.find_module_in_path(a, "mod")
        both = L.find_module_in_path(a, "both")
        empty = L.find_module_in_path(a, "")
    finally:
        sys.path[:] = old
        shutil.rmtree(base, ignore_errors=True)

    sites = walk_sites()
    return walk_rows(sites) + resolve_rows() + [
        f"def deriveAbsCached : Bool := {lbool(cached)}",
        f"def deriveAbsCacheKey : List String := {llist(params)}",
        f"def deriveAbsReadsCurrentFile : Bool := {lbool(reads_current_file)}",
        f"def searchOrder : List String := {llist(order)}",
        f"def packageFile : String := {lstr(pkg.name)}",
        f"def moduleFile : String := {lstr(mod.name)}",
        f"def clashWinner : String := {lstr(str(both.relative_to(a.resolve())))}",
        f"def emptyNameFound : Bool := {lbool(empty is not None)}",
        f"def emptyNameIsStdlib : Bool := {lbool(bool(U.is_in_stdlib('')))}",
    ]


def walk_sites():
    """Where `Config().state.current_file` is set and where another file's root context is compiled
    (static scan of the package under test): the call sites of `enter_file`, and for every call of
    `compile_root_context` / `__parse_and_analyse_file_impl` whether it sits lexically inside a
    `with enter_file(...)` block of its function."""
    import ast
    import inspect
    from pathlib import Path

    import rattr
    from rattr.config import state as S
    from rattr.models.context import _root_context as RC

    root = Path(rattr.__file__).resolve().parent
    enter_sites, compile_sites = [], []

    def qual(stack):
        return ".".join(stack)

    def is_enter_with(node):
        return isinstance(node, (ast.With, ast.AsyncWith)) and any(
            isinstance(i.context_expr, ast.Call) and getattr(i.context_expr.func, "id", getattr(i.context_expr.func, "attr", None)) == "enter_file"
            for i in node.items)

    def walk(node, stack, inside, rel):
        for child in ast.iter_child_nodes(node):
            if isinstance(child, (ast.FunctionDef, ast.AsyncFunctionDef, ast.ClassDef)):
                walk(child, stack + [child.name], False if not isinstance(child, ast.ClassDef) else inside, rel)
                continue
            ins = inside
            if is_enter_with(child):
                enter_sites.append(f"{rel}::{qual(stack)}")
                ins = True
            if isinstance(child, ast.Call):
                name = getattr(child.func, "id", getattr(child.func, "attr", None))
                if name in ("compile_root_context", "__parse_and_analyse_file_impl"):
                    compile_sites.append((f"{rel}::{qual(stack)}::{name}", ins))
            walk(child, stack, ins, rel)

    for f in sorted(root.rglob("*.py")):
        rel = "rattr/" + str(f.relative_to(root))
        try:
            tree = ast.parse(f.read_text())
        except SyntaxError:
            continue
        walk(tree, [], False, rel)

    src = inspect.getsource(S.enter_file)
    restores_on_exception = "finally" in src
    readers = []
    for name in ("visit_relative_import", "visit_starred_relative_import"):
        fn = getattr(RC.RootContextBuilder, name)
        readers.append("current_file" in inspect.getsource(fn) and "node" in inspect.signature(fn).parameters
                       and len(inspect.signature(fn).parameters) == 2)
    return {"enter": sorted(set(enter_sites)), "compile": sorted(set(compile_sites)),
            "finally": restores_on_exception, "readers": all(readers)}


def walk_rows(sites):
    pair = lambda p: "(" + lstr(p[0]) + ", " + lbool(p[1]) + ")"
    return [
        f"def enterFileSites : List String := {llist(sites['enter'])}",
        f"def compileSites : List (String × Bool) := {llist(sites['compile'], pair)}",
        f"def enterFileRestoresOnException : Bool := {lbool(sites['finally'])}",
        f"def relVisitorsReadCurrentFileOnly : Bool := {lbool(sites['readers'])}",
    ]


def resolve_rows():
    """Where `.resolve()` is applied on the way from a module name to the file that is entered.

    Static: the resolving calls inside `find_module_in_path` (receiver text), what it returns, the
    resolving calls inside `Import.origin`, and the argument of every `with enter_file(...)`.
    Dynamic: `find_module_in_path` on a directory with a symlinked package, a symlinked module file and
    through a symlinked spelling of the search directory; the results with the resolved search directory
    written `<R>`, the directory the links point into `<X>`."""
    import ast
    import inspect
    import os
    import shutil
    import tempfile
    import textwrap
    from pathlib import Path

    import rattr
    from rattr.models.symbol._symbols import Import
    from rattr.module_locator import _locate as L

    RESOLVERS = ("resolve", "absolute", "realpath", "readlink", "abspath")

    def resolving_calls(fn_node):
        out = []
        for n in ast.walk(fn_node):
            if isinstance(n, ast.Call):
                f = n.func
                if isinstance(f, ast.Attribute) and f.attr in RESOLVERS:
                    out.append(ast.unparse(f.value) + "." + f.attr)
                elif isinstance(f, ast.Name) and f.id in RESOLVERS:
                    out.append(f.id)
        return sorted(out)

    fn = ast.parse(textwrap.dedent(inspect.getsource(L.find_module_in_path))).body[0]
    find_calls = resolving_calls(fn)
    find_returns = sorted(ast.unparse(n.value) if n.value is not None else "None"
                          for n in ast.walk(fn) if isinstance(n, ast.Return))
    origin_fn = ast.parse(textwrap.dedent(inspect.getsource(Import.origin.fget))).body[0]
    origin_calls = resolving_calls(origin_fn)

    enter_args = enter_file_args()

    base = Path(os.path.realpath(tempfile.mkdtemp(prefix="c13lnk")))
    try:
        r, x = base / "r", base / "x"
        (x / "real").mkdir(parents=True)
        r.mkdir()
        (x / "real" / "__init__.py").write_text("")
        (x / "real" / "mod.py").write_text("")
        (x / "other.py").write_text("")
        (r / "mod.py").write_text("")
        os.symlink("../x/real", r / "lnk", target_is_directory=True)
        os.symlink("../x/other.py", r / "lmod.py")
        os.symlink("r", base / "l", target_is_directory=True)

        def show(p):
            if p is None:
                return ["-"]
            t = str(p)
            for d, tag in ((str(r), "<R>"), (str(x), "<X>"), (str(base / "l"), "<L>")):
                if t == d or t.startswith(d + os.sep):
                    return [tag] + [q for q in t[len(d):].split(os.sep) if q]
            return ["?", t]

        probe = [(f"{label}:{name}", show(L.find_module_in_path(d, name)))
                 for label, d in (("R", r), ("L", base / "l"))
                 for name in ("lnk", "lnk.mod", "lmod", "mod")]
    finally:
        shutil.rmtree(base, ignore_errors=True)

    triple = lambda p: "(" + lstr(p[0]) + ", " + lstr(p[1]) + ", " + lbool(p[2]) + ")"
    pair = lambda p: "(" + lstr(p[0]) + ", " + lstr(p[1]) + ")"
    prow = lambda p: "(" + lstr(p[0]) + ", " + llist(p[1]) + ")"
    return [
        f"def findResolvingCalls : List String := {llist(find_calls)}",
        f"def findReturns : List String := {llist(find_returns)}",
        f"def importOriginResolvingCalls : List String := {llist(origin_calls)}",
        f"def enterFileArgs : List (String × String × Bool) := {llist(enter_args, triple)}",
        f"def pathNameProbe : List (String × String) := {llist(path_name_probe(), pair)}",
        f"def symlinkProbe : List (String × List String) := {llist(probe, prow)}",
    ]


def enter_file_args():
    """every `with enter_file(<arg>)` of the package under test: (function, source text of the argument,
    whether the block compiles a root context / analyses a file — i.e. whether relative imports are
    resolved under it)"""
    import ast
    from pathlib import Path

    import rattr

    root = Path(rattr.__file__).resolve().parent
    out = []
    for f in sorted(root.rglob("*.py")):
        rel = "rattr/" + str(f.relative_to(root))
        try:
            tree = ast.parse(f.read_text())
        except SyntaxError:
            continue
        for fnode in ast.walk(tree):
            if not isinstance(fnode, (ast.FunctionDef, ast.AsyncFunctionDef)):
                continue
            for n in ast.walk(fnode):
                if isinstance(n, (ast.With, ast.AsyncWith)):
                    for i in n.items:
                        c = i.context_expr
                        if isinstance(c, ast.Call) and getattr(c.func, "id", getattr(c.func, "attr", None)) == "enter_file":
                            compiles = any(
                                isinstance(x, ast.Call)
                                and getattr(x.func, "id", getattr(x.func, "attr", None))
                                in ("compile_root_context", "__parse_and_analyse_file_impl")
                                for b in n.body for x in ast.walk(b))
                            out.append((f"{rel}::{fnode.name}", ", ".join(ast.unparse(a) for a in c.args), compiles))
    return sorted(set(out))


def star_enter_expression():
    """source text of what `Context.expand_starred_imports` enters to compile a star-imported file (the
    harness evaluates it, with `starred` bound to the Import symbol, instead of imitating it); None when
    no `with enter_file(...)` block of that function compiles a root context"""
    hits = [a for site, a, compiles in enter_file_args() if site.endswith("::expand_starred_imports") and compiles]
    # none: the root context of a star-imported file is compiled outside every enter_file block, i.e. under
    # whatever file is current (the harness then stays in the importing file); Tie A reports the change
    return hits[0] if hits else None


def path_name_probe():
    """`derive_module_name_from_path` on a tree with a package named `py`, an `__init__` module name and a
    plain module: (relative path, derived dotted name or "-")"""
    import os
    import shutil
    import sys
    import tempfile
    from pathlib import Path

    import impl
    from rattr.module_locator import util as U

    base = Path(os.path.realpath(tempfile.mkdtemp(prefix="c13nam")))
    files = ["pa/__init__.py", "pa/py/__init__.py", "pa/py/ma.py", "pa/ma.py", "pa/py.py"]
    try:
        for f in files:
            p = base / f
            p.parent.mkdir(parents=True, exist_ok=True)
            p.write_text("")
        out = []
        with impl.in_dir(str(base)):
            impl.clear_caches()
            for f in ["pa/__init__.py", "pa/py/__init__.py", "pa/py/ma.py", "pa/ma.py"]:
                out.append((f, U.derive_module_name_from_path(f) or "-"))
            impl.clear_caches()
    finally:
        shutil.rmtree(base, ignore_errors=True)
    return out

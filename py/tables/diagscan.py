"""AST scans shared by the C15 / C16 tables (source facts about rattr/**.py of the repo under test)."""
from __future__ import annotations

import ast
import os
from pathlib import Path

LEVELS = ("info", "warning", "error", "fatal")

VERBOSITY_NAMES = (
    "_warning_level", "show_warnings", "do_not_show_warnings", "collapse_home",
    "truncate_deep_paths", "format_path", "use_full_path", "get_formatted_path",
    "formatted_current_file_path", "formatted_target_path", "get_file_and_line_info",
)


def repo_root() -> Path:
    import rattr
    return Path(os.path.realpath(os.path.dirname(os.path.dirname(rattr.__file__))))


def source_files():
    root = repo_root()
    for f in sorted((root / "rattr").rglob("*.py")):
        yield f.relative_to(root).as_posix(), f.read_text()


class _Scoped(ast.NodeVisitor):
    """Visitor that tracks the qualified name of the enclosing def / class."""

    def __init__(self):
        self.stack = []

    @property
    def where(self):
        return ".".join(self.stack) if self.stack else "<module>"

    def _enter(self, node):
        # decorators / defaults / annotations belong to the enclosing scope
        for d in getattr(node, "decorator_list", []):
            self.visit(d)
        self.stack.append(node.name)
        for child in ast.iter_child_nodes(node):
            if child in getattr(node, "decorator_list", []):
                continue
            self.visit(child)
        self.stack.pop()

    visit_FunctionDef = visit_AsyncFunctionDef = visit_ClassDef = _enter


def error_module_aliases(tree):
    """Local names bound to the rattr.error package/module and to its level functions."""
    mods, fns = set(), {}
    for n in ast.walk(tree):
        if isinstance(n, ast.ImportFrom):
            for a in n.names:
                if n.module == "rattr" and a.name == "error":
                    mods.add(a.asname or a.name)
                if n.module in ("rattr.error", "rattr.error.error") and a.name in LEVELS:
                    fns[a.asname or a.name] = a.name
                if n.module == "rattr.error" and a.name == "error":
                    # `from rattr.error import error` binds the *function*
                    fns[a.asname or a.name] = "error"
        elif isinstance(n, ast.Import):
            for a in n.names:
                if a.name in ("rattr.error", "rattr.error.error") and a.asname:
                    mods.add(a.asname)
    return mods, fns


def diagnostic_calls(with_pos=False, with_args=False):
    """Every call of a level function: (file, enclosing function, level, badness expr or None);
    with_pos (additive, default off): also (lineno, end_lineno) of the call expression;
    with_args (additive, default off): also (number of positional arguments, source of the culprit
    argument — second positional or keyword `culprit`, "" when absent or the literal None —, sorted
    keyword names joined by ",")."""
    out = []
    for rel, src in source_files():
        tree = ast.parse(src)
        mods, fns = error_module_aliases(tree)
        in_error_module = rel == "rattr/error/error.py"

        class V(_Scoped):
            def visit_Call(self, node):
                level = None
                f = node.func
                if isinstance(f, ast.Attribute) and f.attr in LEVELS:
                    base = f.value
                    if isinstance(base, ast.Name) and base.id in mods:
                        level = f.attr
                    elif isinstance(base, ast.Attribute) and base.attr == "error":
                        level = f.attr
                elif isinstance(f, ast.Name):
                    if f.id in fns:
                        level = fns[f.id]
                    elif in_error_module and f.id in LEVELS:
                        level = f.id
                if level is not None:
                    bad = None
                    for kw in node.keywords:
                        if kw.arg == "badness":
                            bad = ast.unparse(kw.value)
                        if kw.arg is None:
                            bad = "**" + ast.unparse(kw.value)
                    if len(node.args) >= 3:
                        bad = ast.unparse(node.args[2])
                    if any(isinstance(a, ast.Starred) for a in node.args):
                        bad = "*args"
                    row = (rel, self.where, level, bad, node.lineno, node.end_lineno) if with_pos \
                        else (rel, self.where, level, bad)
                    if with_args:
                        culprit = node.args[1] if len(node.args) >= 2 else None
                        for kw in node.keywords:
                            if kw.arg == "culprit":
                                culprit = kw.value
                        csrc = "" if culprit is None or (isinstance(culprit, ast.Constant) and culprit.value is None) \
                            else ast.unparse(culprit)
                        row = row + (len(node.args), csrc, ",".join(sorted(kw.arg or "**" for kw in node.keywords)))
                    out.append(row)
                self.generic_visit(node)

        V().visit(tree)
    return out


def verbosity_readers():
    """(file, enclosing function) of every read of a verbosity / path-format option or of a
    function that renders with them: attribute loads, bare-name loads, imported names and string
    constants (getattr / argparse dest) spelled like one of VERBOSITY_NAMES."""
    out = set()
    for rel, src in source_files():
        tree = ast.parse(src)

        class V(_Scoped):
            def visit_Attribute(self, node):
                if node.attr in VERBOSITY_NAMES and isinstance(node.ctx, ast.Load):
                    out.add((rel, self.where))
                self.generic_visit(node)

            def visit_Name(self, node):
                if node.id in VERBOSITY_NAMES and isinstance(node.ctx, ast.Load):
                    out.add((rel, self.where))

            def visit_Constant(self, node):
                if isinstance(node.value, str) and node.value in VERBOSITY_NAMES:
                    out.add((rel, self.where))

            def visit_ImportFrom(self, node):
                for a in node.names:
                    if a.name in VERBOSITY_NAMES:
                        out.add((rel, self.where))

            def visit_keyword(self, node):
                if node.arg in VERBOSITY_NAMES:
                    out.add((rel, self.where))
                self.generic_visit(node)

        V().visit(tree)
    return sorted(out)


def diagnostic_sites():
    """Every diagnostic call site with a stable identity: (file, enclosing function, level, k) where
    k numbers the calls of that level inside that function in source order, plus its line span.
    -> list of dict(file, fn, level, k, lineno, end_lineno)."""
    seen = {}
    out = []
    for rel, fn, level, _bad, lo, hi in sorted(diagnostic_calls(with_pos=True), key=lambda c: (c[0], c[4])):
        k = seen.get((rel, fn, level), 0)
        seen[(rel, fn, level)] = k + 1
        out.append(dict(file=rel, fn=fn, level=level, k=k, lineno=lo, end_lineno=hi))
    return out


def diagnostic_site_args():
    """(additive) as `diagnostic_sites`, each with `nargs`, `culprit` (source text, "" = none) and `keywords`."""
    seen = {}
    out = []
    for rel, fn, level, _bad, lo, hi, nargs, culprit, kws in sorted(diagnostic_calls(with_pos=True, with_args=True),
                                                                     key=lambda c: (c[0], c[4])):
        k = seen.get((rel, fn, level), 0)
        seen[(rel, fn, level)] = k + 1
        out.append(dict(file=rel, fn=fn, level=level, k=k, lineno=lo, end_lineno=hi, nargs=nargs, culprit=culprit, keywords=kws))
    return out

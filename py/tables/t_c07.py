"""Tie A for C07: every `raise` and `assert` statement of the rattr package, by ast scan.

A site is (file relative to the repo root, qualified name of the enclosing def/class chain, class name
of the raised expression). Line numbers are deliberately left out so that unrelated edits do not churn
the table; sites are listed in source order (duplicates kept: two raises of the same class in one
function are two rows)."""
import ast
import os
from pathlib import Path

from tables.util import llist, lstr

NAME = "C07"


def scan(pkg_root: Path):
    raises, asserts = [], []
    for f in sorted(pkg_root.rglob("*.py")):
        rel = f.relative_to(pkg_root.parent).as_posix()
        tree = ast.parse(f.read_text())

        def walk(node, qual):
            for ch in ast.iter_child_nodes(node):
                if isinstance(ch, (ast.FunctionDef, ast.AsyncFunctionDef, ast.ClassDef)):
                    walk(ch, qual + [ch.name])
                    continue
                if isinstance(ch, ast.Raise):
                    e = ch.exc
                    if e is None:
                        nm = "<reraise>"
                    else:
                        if isinstance(e, ast.Call):
                            e = e.func
                        nm = ast.unparse(e)
                    raises.append((rel, ".".join(qual) or "<module>", nm))
                if isinstance(ch, ast.Assert):
                    asserts.append((rel, ".".join(qual) or "<module>", ast.unparse(ch.test)))
                walk(ch, qual)

        walk(tree, [])
    return raises, asserts


def tables():
    import rattr

    root = Path(os.path.dirname(rattr.__file__))
    raises, asserts = scan(root)

    def triple(t):
        return "(" + ", ".join(lstr(x) for x in t) + ")"

    return [
        "/-- every `raise` statement under rattr/: (file, enclosing function, raised class) -/",
        "def raiseSites : List (String × String × String) :=\n  [" + ",\n   ".join(triple(t) for t in raises) + "]",
        "/-- every `assert` statement under rattr/: (file, enclosing function, asserted expression) -/",
        "def assertSites : List (String × String × String) :=\n  [" + ",\n   ".join(triple(t) for t in asserts) + "]",
    ]

"""Tie A for C07: every `raise` and `assert` statement of the rattr package, by ast scan.

A site is (file relative to the repo root, qualified name of the enclosing def/class chain, class name
of the raised expression). Line numbers are deliberately left out so that unrelated edits do not churn
the table; sites are listed in source order (duplicates kept: two raises of the same class in one
function are two rows)."""
import ast
import os
from pathlib import Path

from tables.util import llist, lstr

NAME = "C07"


def scan(pkg_root: Path):
    raises, asserts = [], []
    for f in sorted(pkg_root.rglob("*.py")):
        rel = f.relative_to(pkg_root.parent).as_posix()
        tree = ast.parse(f.read_text())

        def walk(node, qual):
            for ch in ast.iter_child_nodes(node):
                if isinstance(ch, (ast.FunctionDef, ast.AsyncFunctionDef, ast.ClassDef)):
                    walk(ch, qual + [ch.name])
                    continue
                if isinstance(ch, ast.Raise):
                    e = ch.exc
                    if e is None:
                        nm = "<reraise>"
                    else:
                        if isinstance(e, ast.Call):
                            e = e.func
                        nm = ast.unparse(e)
                    raises.append((rel, ".".join(qual) or "<module>", nm))
                if isinstance(ch, ast.Assert):
                    asserts.append((rel, ".".join(qual) or "<module>", ast.unparse(ch.test)))
                walk(ch, qual)

        walk(tree, [])
    return raises, asserts


def tables():
    import rattr

    root = Path(os.path.dirname(rattr.__file__))
    raises, asserts = scan(root)

    def triple(t):
        return "(" + ", ".join(lstr(x) for x in t) + ")"

    return [
        "/-- every `raise` statement under rattr/: (file, enclosing function, raised class) -/",
        "def raiseSites : List (String × String × String) :=\n  [" + ",\n   ".join(triple(t) for t in raises) + "]",
        "/-- every `assert` statement under rattr/: (file, enclosing function, asserted expression) -/",
        "def assertSites : List (String × String × String) :=\n  [" + ",\n   ".join(triple(t) for t in asserts) + "]",
    ]


# ---------------------------------------------------------------------------------------------- round 3
# The numbers `--stdout stats` computes with (model: lean/RattrModel/Stats.lean). `show_stats` is partial on
# RattrStats (log10 / two divisions); what keeps it total in a run is the `+ 1` of `read` in another module.
# Every expression of that chain is pinned here, so "fixing the off-by-one" at either end breaks Tie A.

def _fn(tree, *path):
    node = tree
    for name in path:
        node = next(ch for ch in ast.walk(node)
                    if isinstance(ch, (ast.FunctionDef, ast.AsyncFunctionDef, ast.ClassDef)) and ch.name == name)
    return node


def stats_exprs(root: Path):
    out = []
    util = ast.parse((root / "analyser" / "util.py").read_text())
    enter = _fn(util, "read", "__enter__")
    for n in ast.walk(enter):
        if isinstance(n, ast.Return):
            out.append(("util.read.__enter__:return", ast.unparse(n.value)))
        if isinstance(n, ast.Assign):
            out.append(("util.read.__enter__:assign", ast.unparse(n)))
    filepy = ast.parse((root / "analyser" / "file.py").read_text())
    impl = _fn(filepy, "__parse_and_analyse_file_impl")
    for n in ast.walk(impl):
        if isinstance(n, ast.With):
            for it in n.items:
                if isinstance(it.context_expr, ast.Call) and ast.unparse(it.context_expr.func) == "read":
                    out.append(("file.impl:with-read", ast.unparse(it.optional_vars)))
        if isinstance(n, ast.Call) and ast.unparse(n.func) == "RattrStats":
            for k in n.keywords:
                if k.arg in ("file_lines", "import_lines", "number_of_imports", "number_of_unique_imports"):
                    out.append((f"file.impl:RattrStats.{k.arg}", ast.unparse(k.value)))
        if isinstance(n, ast.Call) and ast.unparse(n.func) == "RattrImportStats":
            out.append(("file.impl:RattrImportStats", ast.unparse(n)))
    imps = _fn(filepy, "parse_and_analyse_imports")
    loop = next(n for n in ast.walk(imps) if isinstance(n, ast.While))
    for i, st in enumerate(loop.body):
        if isinstance(st, ast.AugAssign) and "import_stats" in ast.unparse(st.target):
            out.append((f"file.imports:loop[{'head' if i < 3 else 'tail'}]", ast.unparse(st)))
        if isinstance(st, ast.With):
            for it in st.items:
                if isinstance(it.context_expr, ast.Call) and ast.unparse(it.context_expr.func) == "read":
                    out.append(("file.imports:with-read", ast.unparse(it.context_expr) + " as " + ast.unparse(it.optional_vars)))
    for st in imps.body:
        if isinstance(st, ast.Assign) and isinstance(st.targets[0], ast.Attribute) and "import_stats" in ast.unparse(st.targets[0]):
            out.append(("file.imports:after-loop", ast.unparse(st)))
    mainpy = ast.parse((root / "__main__.py").read_text())
    show = _fn(mainpy, "show_stats")
    for n in ast.walk(show):
        if isinstance(n, ast.Assign) and ast.unparse(n.targets[0]) == "digits":
            out.append(("main.show_stats:digits", ast.unparse(n.value)))
        if isinstance(n, ast.BinOp) and isinstance(n.op, (ast.Div, ast.FloorDiv, ast.Mod)):
            out.append(("main.show_stats:division", ast.unparse(n)))
        if isinstance(n, ast.If):
            out.append(("main.show_stats:guard", ast.unparse(n.test)))
        if isinstance(n, ast.Dict) and any(isinstance(v, ast.Attribute) and v.attr in ("file_lines", "import_lines") for v in n.values):
            out.append(("main.show_stats:lines", ast.unparse(n)))
    main = _fn(mainpy, "main")
    for st in main.body:
        if isinstance(st, ast.If) and "config.arguments.stdout" in ast.unparse(st.test):
            out.append(("main.main:output", ast.unparse(st.test) + " -> " + "; ".join(ast.unparse(b) for b in st.body)))
    return out


def fix_guards(root: Path):
    """The statements that turned K23 / K24 / K25 from tracebacks into diagnostics (fixes c5833ef, 353eacf, bcdf6de):
    (site, what the guard does). Removing a guard changes the list."""
    out = []
    rc = ast.parse((root / "models" / "context" / "_root_context.py").read_text())
    for fn in ("visit_starred_relative_import", "visit_relative_import"):
        node = _fn(rc, "RootContextBuilder", fn)
        for st in node.body:
            if isinstance(st, ast.If) and ast.unparse(st.test) == "base is None":
                first = st.body[0]
                what = ast.unparse(first.value.func) if isinstance(first, ast.Expr) and isinstance(first.value, ast.Call) else type(first).__name__ + ":" + ast.unparse(first)[:40]
                out.append((f"_root_context.{fn}:if base is None", what))
    loc = ast.parse((root / "module_locator" / "util.py").read_text())
    node = _fn(loc, "is_in_stdlib")
    for st in node.body:
        if isinstance(st, ast.Try):
            for h in st.handlers:
                out.append(("module_locator.util.is_in_stdlib:try " + "; ".join(ast.unparse(b) for b in st.body),
                            "except " + (ast.unparse(h.type) if h.type else "<bare>") + " -> " + "; ".join(ast.unparse(b) for b in h.body)))
    mainpy = ast.parse((root / "__main__.py").read_text())
    node = _fn(mainpy, "write_cache_file")
    for st in node.body:
        if isinstance(st, ast.Try):
            covered = [ast.unparse(b.value.func) if isinstance(b, ast.Expr) and isinstance(b.value, ast.Call) else ast.unparse(b) for b in st.body]
            for h in st.handlers:
                first = h.body[0]
                what = ast.unparse(first.value.func) if isinstance(first, ast.Expr) and isinstance(first.value, ast.Call) else ast.unparse(first)[:40]
                out.append(("__main__.write_cache_file:try " + "; ".join(covered), "except " + (ast.unparse(h.type) if h.type else "<bare>") + " -> " + what))
        elif not isinstance(st, ast.Expr) or not isinstance(getattr(st, "value", None), ast.Constant):
            out.append(("__main__.write_cache_file:unguarded", ast.unparse(st)[:60]))
    main = _fn(mainpy, "main")
    for st in main.body:
        if isinstance(st, ast.If) and "cache_file is not None" in ast.unparse(st.test) and any("write_cache_file" in ast.unparse(b) for b in st.body):
            out.append(("__main__.main:cache-write", ast.unparse(st.test) + " -> " + "; ".join(ast.unparse(b.value.func) for b in st.body if isinstance(b, ast.Expr) and isinstance(b.value, ast.Call))))
    return out


def serialise_sites(root: Path):
    """Round 4: what lies between a results / IR object and the output stream — (site, text) in source order:
    the bodies of `serialise` / `serialise_irs` and of the three printing functions of __main__, and EVERY call of
    `serialise` / `serialise_irs` in the package with the keywords it passes (`ensure_ascii` is none of them)."""
    out = []

    def call_sig(c):
        kws = ["**" if k.arg is None else k.arg + "=" for k in c.keywords]
        return f"{ast.unparse(c.func)}(<{len(c.args)} positional>" + "".join(", " + k for k in kws) + ")"

    def body_of(fn):
        b = fn.body
        if b and isinstance(b[0], ast.Expr) and isinstance(b[0].value, ast.Constant) and isinstance(b[0].value.value, str):
            b = b[1:]
        return b

    bodies = {("models/util/serialise.py", "serialise"), ("models/util/serialise.py", "serialise_irs"), ("__main__.py", "show_ir"),
              ("__main__.py", "show_cacheable_results"), ("__main__.py", "show_results")}
    for f in sorted(root.rglob("*.py"), key=lambda q: (q.name != "serialise.py", q.as_posix())):
        rel = f.relative_to(root).as_posix()
        mod = rel[:-3].replace("/", ".")
        tree = ast.parse(f.read_text())
        for fn in ast.walk(tree):
            if not isinstance(fn, (ast.FunctionDef, ast.AsyncFunctionDef)):
                continue
            if (rel, fn.name) in bodies:
                for st in body_of(fn):
                    out.append((f"{mod}.{fn.name}:body", ast.unparse(st)))
            for c in ast.walk(fn):
                if isinstance(c, ast.Call) and ast.unparse(c.func).split(".")[-1] in ("serialise", "serialise_irs"):
                    out.append((f"{mod}.{fn.name}:call", call_sig(c)))
    return out


def non_ascii_constants(root: Path):
    """Round 4: every string constant of the package's CODE (docstrings / bare string statements excluded) that holds a
    non-ASCII character — text rattr itself may print whatever the input is: (file::function, the non-ASCII code points)."""
    out = []
    for f in sorted(root.rglob("*.py")):
        rel = f.relative_to(root).as_posix()
        tree = ast.parse(f.read_text())
        bare = {id(n.value) for n in ast.walk(tree) if isinstance(n, ast.Expr) and isinstance(n.value, ast.Constant)}

        def walk(node, qual):
            for ch in ast.iter_child_nodes(node):
                if isinstance(ch, (ast.FunctionDef, ast.AsyncFunctionDef, ast.ClassDef)):
                    walk(ch, qual + [ch.name])
                    continue
                if isinstance(ch, ast.Constant) and isinstance(ch.value, str) and not ch.value.isascii() and id(ch) not in bare:
                    cps = sorted({ord(c) for c in ch.value if ord(c) > 127})
                    out.append((f"{rel}::{'.'.join(qual) or '<module>'}", " ".join(f"U+{c:04X}" for c in cps)))
                walk(ch, qual)

        walk(tree, [])
    return out


_tables_round2 = tables


def tables():
    import rattr

    root = Path(os.path.dirname(rattr.__file__))
    rows = stats_exprs(root)
    guards = fix_guards(root)
    sites = serialise_sites(root)
    consts = non_ascii_constants(root)
    return _tables_round2() + [
        "/-- round 4: the non-ASCII string constants of rattr's own code: (file::function, code points) -/",
        "def nonAsciiConstants : List (String × String) :=\n  [" + ",\n   ".join("(" + lstr(a) + ", " + lstr(b) + ")" for a, b in consts) + "]",
    ] + [
        "/-- round 4: `serialise`, its callers and the statements that hand the text to a stream: (site, text) -/",
        "def serialiseSites : List (String × String) :=\n  [" + ",\n   ".join("(" + lstr(a) + ", " + lstr(b) + ")" for a, b in sites) + "]",
    ] + [
        "/-- the guards of fixes c5833ef (K23), 353eacf (K24), bcdf6de (K25): (site, what it does) -/",
        "def fixGuards : List (String × String) :=\n  [" + ",\n   ".join("(" + lstr(a) + ", " + lstr(b) + ")" for a, b in guards) + "]",
    ] + [
        "/-- the expressions behind the numbers of `--stdout stats` (read, RattrStats assembly, show_stats, the output\n"
        "dispatch of main): (site, unparsed expression), in source order -/",
        "def statsExprs : List (String × String) :=\n  [" + ",\n   ".join("(" + lstr(a) + ", " + lstr(b) + ")" for a, b in rows) + "]",
    ]

"""Tie A tables of C17's root-context stage under options: what the code that BUILDS the root context
(`rattr/models/context/*.py`) reads from the configuration, which helpers of other rattr modules it
calls, and the statement-by-statement text of the `visit_*` methods that the model transcribes
one-to-one (definitions and block statements). The model's `register` consults `Facts.mods` /
`Facts.isInit` only — in particular never `Facts.excluded` — and that is sound only as long as these
tables stay what the model says they are."""
from __future__ import annotations

import ast
from pathlib import Path

from tables.util import llist, lstr

NAME = "C17"

TRANSCRIBED = ["visit_FunctionDef", "visit_AsyncFunctionDef", "visit_ClassDef", "visit_If", "visit_For", "visit_AsyncFor",
               "visit_While", "visit_Try", "visit_TryStar", "visit_Match", "visit_With", "visit_AsyncWith", "register_stmts"]


NAME_SITES = ["get_and_verify_name", "visit_compound_name", "visit_NamedExpr"]


def _functions(tree):
    """(qualified name, node) of every def in the file, methods as `Class.method`."""
    out = []

    def go(body, prefix):
        for n in body:
            if isinstance(n, (ast.FunctionDef, ast.AsyncFunctionDef)):
                out.append((prefix + n.name, n))
                go(n.body, prefix + n.name + ".")
            elif isinstance(n, ast.ClassDef):
                go(n.body, prefix + n.name + ".")
    go(tree.body, "")
    return out


def _chain(node):
    parts = []
    while isinstance(node, ast.Attribute):
        parts.append(node.attr)
        node = node.value
    return node, ".".join(reversed(parts))


def _config_reads(fn):
    """the attribute chains read off `Config()` (directly or through a local bound to it) in `fn`,
    not entering nested defs."""
    own = []

    def walk(n):
        for c in ast.iter_child_nodes(n):
            if isinstance(c, (ast.FunctionDef, ast.AsyncFunctionDef, ast.ClassDef)):
                continue
            own.append(c)
            walk(c)
    walk(fn)
    is_cfg = lambda e: isinstance(e, ast.Call) and isinstance(e.func, ast.Name) and e.func.id == "Config"   # noqa: E731
    cfg_vars = set()
    for n in own:
        if isinstance(n, ast.Assign) and is_cfg(n.value):
            for t in n.targets:
                if isinstance(t, ast.Name):
                    cfg_vars.add(t.id)
        if isinstance(n, ast.NamedExpr) and is_cfg(n.value) and isinstance(n.target, ast.Name):
            cfg_vars.add(n.target.id)
    inner = set()
    reads = set()
    for n in own:
        if isinstance(n, ast.Attribute) and id(n) not in inner:
            root, chain = _chain(n)
            x = n
            while isinstance(x, ast.Attribute):
                inner.add(id(x.value))
                x = x.value
            if is_cfg(root) or (isinstance(root, ast.Name) and root.id in cfg_vars):
                reads.add(chain)
    bare = any(is_cfg(n) for n in own)
    if bare and not reads:
        reads.add("<Config() with no attribute read>")
    return sorted(reads)


def tables():
    import rattr.models.context._root_context as rc_mod

    ctx_dir = Path(rc_mod.__file__).resolve().parent
    repo_root = ctx_dir.parent.parent.parent
    reads = []
    helpers = set()
    bodies = {}
    files = sorted(ctx_dir.glob("*.py")) + sorted((ctx_dir.parent / "symbol").glob("*.py"))
    if len(files) < 8:
        raise ValueError("rattr/models/context + symbol: implausibly few files")
    for f in files:
        tree = ast.parse(f.read_text())
        rel = f.relative_to(repo_root).as_posix()
        for qn, fn in _functions(tree):
            for chain in _config_reads(fn):
                reads.append((rel, qn, chain))
        if f.name == "_root_context.py":
            for n in ast.walk(tree):
                if isinstance(n, ast.ImportFrom) and n.module and n.module.startswith("rattr") and n.level == 0:
                    # imports under `if TYPE_CHECKING:` are annotations only
                    for a in n.names:
                        helpers.add((n.module, a.asname or a.name))
            tc = set()
            for n in ast.walk(tree):
                if isinstance(n, ast.If) and isinstance(n.test, ast.Name) and n.test.id == "TYPE_CHECKING":
                    for m in ast.walk(n):
                        if isinstance(m, ast.ImportFrom) and m.module:
                            for a in m.names:
                                tc.add((m.module, a.asname or a.name))
            helpers -= tc
            for qn, fn in _functions(tree):
                short = qn.split(".", 1)[1] if qn.startswith("RootContextBuilder.") else None
                if short in TRANSCRIBED:
                    body = list(fn.body)
                    if body and isinstance(body[0], ast.Expr) and isinstance(body[0].value, ast.Constant) \
                            and isinstance(body[0].value.value, str):
                        body = body[1:]
                    bodies[short] = [ast.unparse(s).replace("\n", " ; ") for s in body]
    missing = [m for m in TRANSCRIBED if m not in bodies]
    if missing:
        raise ValueError(f"RootContextBuilder lacks {missing}")
    # every module-level function / method of _root_context.py (a new helper shows up here)
    rc_tree = ast.parse((ctx_dir / "_root_context.py").read_text())
    fn_names = [qn for qn, _ in _functions(rc_tree)]
    # ---- the traversal sites of FunctionAnalyser (which sub-expressions are reached, in which order)
    import rattr.analyser.function as fa_mod
    import rattr.ast.types as ast_types

    fa_tree = ast.parse(Path(fa_mod.__file__).read_text())
    fa_fns = [(qn.split(".", 1)[1], fn) for qn, fn in _functions(fa_tree) if qn.startswith("FunctionAnalyser.") and qn.count(".") == 1]
    if len(fa_fns) < 20:
        raise ValueError("FunctionAnalyser: implausibly few methods")
    one = lambda st: ast.unparse(st).replace("\n", " ; ")   # noqa: E731
    loops = []
    for m, fn in fa_fns:
        for n in ast.walk(fn):
            if isinstance(n, (ast.For, ast.AsyncFor)):
                loops.append((n.lineno, m, ast.unparse(n.target), ast.unparse(n.iter), [one(x) for x in n.body]))
    loops.sort()
    site_bodies = []
    for m in NAME_SITES:
        fn = next((f for q, f in fa_fns if q == m), None)
        if fn is None:
            raise ValueError(f"FunctionAnalyser lacks {m}")
        body = list(fn.body)
        if body and isinstance(body[0], ast.Expr) and isinstance(body[0].value, ast.Constant) and isinstance(body[0].value.value, str):
            body = body[1:]
        site_bodies.append((m, [one(x) for x in body]))
    nameable = [c.__name__ for c in ast_types.AstNodeWithName]
    return [
        "/-- class names of `rattr.ast.types.AstNodeWithName`, in order -/",
        f"def astNodeWithName : List String := {llist(nameable)}",
        "/-- every `for` loop in a method of `FunctionAnalyser`, in source order: (method, target, iterable, body statements) -/",
        "def visitLoops : List (String × String × String × List String) := ["
        + ",\n  ".join(f"({lstr(m)}, {lstr(t)}, {lstr(i)}, {llist(b)})" for _, m, t, i, b in loops) + "]",
        "/-- the statements (ast.unparse, docstring dropped) of get_and_verify_name / visit_compound_name / visit_NamedExpr -/",
        "def nameSiteBodies : List (String × List String) := ["
        + ",\n  ".join(f"({lstr(m)}, {llist(b)})" for m, b in site_bodies) + "]",
        "/-- (file, function, attribute chain) for every read off `Config()` in rattr/models/context/*.py and rattr/models/symbol/*.py -/",
        "def configReads : List (String × String × String) := ["
        + ",\n  ".join(f"({lstr(a)}, {lstr(b)}, {lstr(c)})" for a, b, c in sorted(reads)) + "]",
        "/-- (module, name) of everything `_root_context.py` imports from rattr at run time -/",
        "def rootContextHelpers : List (String × String) := ["
        + ",\n  ".join(f"({lstr(a)}, {lstr(b)})" for a, b in sorted(helpers)) + "]",
        "/-- every function / method defined in `_root_context.py` -/",
        f"def rootContextFunctions : List String := {llist(sorted(fn_names))}",
        "/-- the statements (ast.unparse, docstring dropped) of the RootContextBuilder methods the model transcribes one-to-one -/",
        "def builderBodies : List (String × List String) := ["
        + ",\n  ".join(f"({lstr(m)}, {llist(bodies[m])})" for m in TRANSCRIBED) + "]",
    ]

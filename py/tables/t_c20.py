"""Tie A for C20: the argparse option tables of both parsers, the TOML type map and the TOML->CLI
name map, read from the live objects of the repo under test."""
import re

from tables.util import lbool, llist, lstr

NAME = "C20"

ACTIONS = {
    "_StoreAction": "store",
    "_StoreTrueAction": "store_true",
    "_AppendAction": "append",
    "_VersionAction": "version",
    "_HelpAction": "help",
}

_INT_LIKE = re.compile(r"^\s*[-+]?[0-9_\s]+$")


def lopt(x, f):
    return "none" if x is None else f"(some {f(x)})"


def rawval(v):
    import enum
    from pathlib import PurePath

    import argparse

    if v is None:
        return ".none"
    if v is argparse.SUPPRESS:
        return ".suppress"
    if isinstance(v, bool):
        return f"(.bool {lbool(v)})"
    if isinstance(v, int):
        return f"(.int ({v}))"
    if isinstance(v, enum.Enum):
        v = v.value
    if isinstance(v, PurePath):
        v = str(v)
    if isinstance(v, str) and not _INT_LIKE.match(v):
        return f"(.str {lstr(v)})"
    return f"(.other {lstr(repr(v))})"


def type_info(t):
    """(type name, enum domain) of an argparse `type=` callable."""
    import enum

    if t is None:
        return "none", []
    if isinstance(t, type) and issubclass(t, enum.Enum):
        dom = [m.value for m in t]
        if all(isinstance(x, str) and not _INT_LIKE.match(x) for x in dom):
            return "enum", dom
        return "unsupported:" + t.__name__, []
    return getattr(t, "__name__", repr(t)), []


def option_rows(parser):
    """The option table as plain data (one dict per action, -h/--help excluded): the rows that
    `raw_actions` prints.  Also used by props/c20.py to build its reference argparse parser."""
    groups = parser._mutually_exclusive_groups
    rows = []
    for a in parser._actions:
        kind = ACTIONS.get(type(a).__name__, "unsupported:" + type(a).__name__)
        if kind == "help":
            continue  # -h/--help: prints and exits; its option strings are in `help_flags`
        mutex = None
        for gi, g in enumerate(groups):
            if any(a is b for b in g._group_actions):
                mutex = gi
        tname, dom = type_info(a.type)
        nargs = "none" if a.nargs is None else str(a.nargs)
        rows.append({"flags": list(a.option_strings), "dest": a.dest, "action": kind, "typ": tname, "dom": dom,
                     "default": a.default, "choices": None if a.choices is None else list(a.choices),
                     "nargs": nargs, "required": bool(a.required), "mutex": mutex})
    return rows


def help_flags(parser):
    """Option strings of the parser's help action(s) (prefix matching and clusters see them)."""
    return [s for a in parser._actions if type(a).__name__ == "_HelpAction" for s in a.option_strings]


def raw_actions(parser):
    rows = []
    for r in option_rows(parser):
        rows.append(
            "  { flags := %s, dest := %s, action := %s, typ := %s, typeDomain := %s, default := %s,\n"
            "    choices := %s, nargs := %s, required := %s, mutex := %s }"
            % (
                llist(r["flags"]), lstr(r["dest"]), lstr(r["action"]), lstr(r["typ"]), llist(r["dom"]), rawval(r["default"]),
                lopt(r["choices"], lambda cs: llist(list(cs), rawval)), lstr(r["nargs"]), lbool(r["required"]),
                lopt(r["mutex"], str),
            )
        )
    return "[\n" + ",\n".join(rows) + "\n]"


def tables():
    from rattr.cli import parser as P

    cli = P.make_cli_parser(exit_on_error=False)
    toml = P.make_toml_parser()
    tmap = [(k, v.name) for k, v in P.TOML_ARGUMENT_TYPE_MAP.items()]
    nmap = list(P.TOML_ARGUMENT_NAME_TO_SYS_ARGUMENT_NAME_MAP.items())
    pair = lambda kv: f"({lstr(kv[0])}, {lstr(kv[1])})"  # noqa: E731
    neg = [s for p in (cli, toml) for s in p._option_string_actions if p._negative_number_matcher.match(s)]
    from rattr.cli._types import TomlArgumentType

    probes = [True, False, 0, 3, -5, "s", "", 1.5, [], ["a"], ["a", 1], [True], {}]
    verdicts = []
    for member in TomlArgumentType:
        for v in probes:
            verdicts.append((member.name, repr(v), bool(member.is_valid(v))))
    triple = lambda t: f"({lstr(t[0])}, {lstr(t[1])}, {lbool(t[2])})"  # noqa: E731
    return [
        "inductive RawVal where\n  | none | suppress | bool (b : Bool) | int (i : Int) | str (s : String) | other (s : String)\n  deriving DecidableEq, Repr\n",
        "structure RawOpt where\n  flags : List String\n  dest : String\n  action : String\n  typ : String\n"
        "  typeDomain : List String\n  default : RawVal\n  choices : Option (List RawVal)\n  nargs : String\n"
        "  required : Bool\n  mutex : Option Nat\n  deriving DecidableEq, Repr\n",
        "/-- `make_cli_parser()._actions` (without -h). -/",
        f"def cliActions : List RawOpt := {raw_actions(cli)}\n",
        "/-- `make_toml_parser()._actions` (without -h). -/",
        f"def tomlActions : List RawOpt := {raw_actions(toml)}\n",
        "/-- `TOML_ARGUMENT_TYPE_MAP` (key, TomlArgumentType member name), in dict order. -/",
        f"def tomlTypeMap : List (String × String) := {llist(tmap, pair)}\n",
        "/-- `TOML_ARGUMENT_NAME_TO_SYS_ARGUMENT_NAME_MAP`. -/",
        f"def tomlNameMap : List (String × String) := {llist(nmap, pair)}\n",
        "/-- option strings that look like negative numbers (argparse then stops treating `-5` as a value). -/",
        f"def negativeNumberLikeFlags : List String := {llist(neg)}\n",
        "/-- `TomlArgumentType.<member>.is_valid(<probe>)` evaluated on the live enum: (member, repr(probe), verdict). -/",
        f"def isValidProbes : List (String × String × Bool) := {llist(verdicts, triple)}\n",
        "/-- prefix_chars of both parsers. -/",
        f"def prefixChars : List String := {llist([cli.prefix_chars, toml.prefix_chars])}\n",
        "/-- option strings of the help action of `make_cli_parser()` (abbreviations and clusters can resolve to them). -/",
        f"def cliHelpFlags : List String := {llist(help_flags(cli))}\n",
        "/-- option strings of the help action of `make_toml_parser()`. -/",
        f"def tomlHelpFlags : List String := {llist(help_flags(toml))}\n",
        "/-- `allow_abbrev` of both parsers (unique long-option prefixes are accepted). -/",
        f"def allowAbbrev : List Bool := {llist([bool(cli.allow_abbrev), bool(toml.allow_abbrev)], lbool)}\n",
        "/-- `fromfile_prefix_chars` is unset on both parsers (no `@file` expansion). -/",
        f"def noFromFile : Bool := {lbool(cli.fromfile_prefix_chars is None and toml.fromfile_prefix_chars is None)}",
    ]

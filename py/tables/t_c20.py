"""Tie A for C20: the argparse option tables of both parsers, the TOML type map and the TOML->CLI
name map, read from the live objects of the repo under test."""
import re

from tables.util import lbool, llist, lstr

NAME = "C20"

ACTIONS = {
    "_StoreAction": "store",
    "_StoreTrueAction": "store_true",
    "_AppendAction": "append",
    "_VersionAction": "version",
    "_HelpAction": "help",
}

_INT_LIKE = re.compile(r"^\s*[-+]?[0-9_\s]+$")


def lopt(x, f):
    return "none" if x is None else f"(some {f(x)})"


def rawval(v):
    import enum
    from pathlib import PurePath

    import argparse

    if v is None:
        return ".none"
    if v is argparse.SUPPRESS:
        return ".suppress"
    if isinstance(v, bool):
        return f"(.bool {lbool(v)})"
    if isinstance(v, int):
        return f"(.int ({v}))"
    if isinstance(v, enum.Enum):
        v = v.value
    if isinstance(v, PurePath):
        v = str(v)
    if isinstance(v, str) and not _INT_LIKE.match(v):
        return f"(.str {lstr(v)})"
    return f"(.other {lstr(repr(v))})"


def conversion_hooks(t):
    """Names of the hooks through which an argparse `type=` callable could accept a text that is not
    literally one of its values: for an Enum class a `_missing_` override (the documented idiom for
    lenient lookup), a custom `__new__` on the class / `__call__` on its metaclass, or members whose
    name differs from their value; for anything else: not being THE builtin `int` / `str` /
    `pathlib.Path` it is named after.  `[]` = plain conversion (what `Cli.convert` models)."""
    import enum
    from pathlib import Path

    if t is None:
        return []
    hooks = []
    if isinstance(t, type) and issubclass(t, enum.Enum):
        base = getattr(enum.Enum._missing_, "__func__", enum.Enum._missing_)
        for klass in t.__mro__:
            if klass in (enum.Enum, object) or klass.__module__ == "enum":
                continue
            m = vars(klass).get("_missing_")
            if m is not None and getattr(m, "__func__", m) is not base:
                hooks.append("_missing_")
            n = vars(klass).get("__new__")
            if n is not None and n is not enum.Enum.__new__:
                hooks.append("__new__")
        if "__call__" in vars(type(t)) and type(t) is not enum.EnumMeta:
            hooks.append("metaclass.__call__")
        if any(m.name != m.value for m in t.__members__.values() if isinstance(m.value, str)) or \
                len(t.__members__) != len(list(t)):
            hooks.append("name-differs-from-value-or-alias")
        return sorted(set(hooks))
    name = getattr(t, "__name__", repr(t))
    builtin = {"int": int, "str": str, "Path": Path}.get(name)
    if builtin is None or t is not builtin:
        hooks.append("not-the-builtin:" + name)
    return hooks


def type_info(t):
    """(type name, enum domain) of an argparse `type=` callable."""
    import enum

    if t is None:
        return "none", []
    if isinstance(t, type) and issubclass(t, enum.Enum):
        dom = [m.value for m in t]
        if all(isinstance(x, str) and not _INT_LIKE.match(x) for x in dom):
            return "enum", dom
        return "unsupported:" + t.__name__, []
    return getattr(t, "__name__", repr(t)), []


_CANON = re.compile(r"^-?(0|[1-9][0-9]*)$")


def in_codec(text):
    """The trusted codec between a token's text and an integer: a text is either the canonical
    decimal of an integer or a word `int()` rejects (ASCII only: `int()` also reads other digits)."""
    if not isinstance(text, str):
        return False
    if _INT_LIKE.match(text):
        return bool(_CANON.match(text)) and text != "-0"
    return not any(ch.isdigit() and not ch.isascii() for ch in text)


def near_miss_texts(choices, typ, members=None, enum_name="Enum"):
    """Texts that are NOT an allowed value of a choice-restricted option but nearly are:
    [(class, text)], deterministic, every text inside the trusted codec.  `choices`: plain values
    (str / int); `typ`: 'str' | 'enum' | 'int'; `members`: [(name, value)] of an enum type.
    The property demands that each is rejected (never coerced to the choice it resembles)."""
    out = []
    allowed = set(str(c) for c in choices)

    def add(cls, text):
        if text not in allowed and in_codec(text) and text != "" and all(text != t for _, t in out):
            out.append((cls, text))
    if typ == "int":
        ints = sorted(int(c) for c in choices)
        add("just-above", str(ints[-1] + 1))
        add("just-below", str(ints[0] - 1))
        mid = ints[len(ints) // 2]
        for cls, text in (("float-text", f"{mid}.0"), ("float-text", f"{mid}."), ("exponent-text", f"{mid}e0"),
                          ("hex-text", f"0x{mid}"), ("bool-text", "True"), ("bool-text", "true"),
                          ("trailing-letter", f"{mid}L"), ("fraction-text", f"{mid}/1"), ("far", str(ints[-1] * 10 + 10))):
            add(cls, text)
        return out
    for i, c in enumerate(choices):
        c = str(c)
        add("upper", c.upper())
        add("capitalised", c.capitalize())
        add("mixed-case", c[:-1] + c[-1:].upper())
        add("swapcase-first", c[:1].upper() + c[1:-1] + c[-1:].upper())
        add("leading-space", " " + c)
        add("trailing-space", c + " ")
        add("leading-tab", "\t" + c)
        add("both-spaces", " " + c + " ")
        add("prefix", c[:-1])
        if len(c) > 2:
            add("prefix", c[:1])
            add("prefix", c[:2])
        add("suffix", c[1:])
        add("extended", c + "s")
        add("doubled", c + c)
        add("quoted", "'" + c + "'")
        add("index", str(i))
        add("index", str(i + 1))
        add("dashed", c + "-")
        add("underscored", "_" + c)
        if "s" in c:
            add("casefold-lookalike", c.replace("s", "\u017f"))       # 'ſ'.upper() == 'S', 'ſ'.casefold() == 's'
        add("fullwidth", "".join(chr(ord(ch) + 0xFEE0) if "!" <= ch <= "~" else ch for ch in c))   # NFKC-equal
    for name, value in members or []:
        add("enum-member-name", str(name))
        add("enum-member-name", str(name).upper())
    if typ == "enum" and members:
        for name, value in members:
            add("enum-qualified", f"{enum_name}.{name}")
            add("enum-repr", f"<{enum_name}.{name}: {value!r}>")
    return out


def option_near_misses(row):
    """near_miss_texts for one row of option_rows (None when the option has no choices)."""
    if row["choices"] is None:
        return None
    import enum

    plain = [c.value if isinstance(c, enum.Enum) else c for c in row["choices"]]
    typ = "int" if row["typ"] == "int" else "enum" if row["typ"] == "enum" else "str"
    return near_miss_texts(plain, typ, row.get("members"), row.get("enum_name") or "Enum")


def value_probes(parser, pname):
    """Live verdict of argparse's own value pipeline (`_get_values` = the `type=` callable, then the
    `choices` membership test) for every choice-restricted option on every allowed value and every
    near-miss text: (parser, dest, text, verdict, converted value)."""
    import argparse
    import enum

    rows = []
    acts = [a for a in parser._actions if type(a).__name__ != "_HelpAction"]
    for a, r in zip(acts, option_rows(parser)):
        if a.choices is None or a.nargs is not None:
            continue
        plain = [c.value if isinstance(c, enum.Enum) else c for c in a.choices]
        texts = [str(c) for c in plain] + [t for _, t in option_near_misses(r)]
        for text in texts:
            try:
                v = parser._get_values(a, [text])
                verdict = "ok"
            except argparse.ArgumentError as e:
                msg = str(e)
                v = None
                verdict = ("invalidChoice" if "invalid choice" in msg else
                           "invalidValue" if re.search(r"invalid \S+ value", msg) else "other:" + msg[:40])
            rows.append((pname, a.dest, text, verdict, v))
    return rows


def option_rows(parser):
    """The option table as plain data (one dict per action, -h/--help excluded): the rows that
    `raw_actions` prints.  Also used by props/c20.py to build its reference argparse parser."""
    groups = parser._mutually_exclusive_groups
    rows = []
    for a in parser._actions:
        kind = ACTIONS.get(type(a).__name__, "unsupported:" + type(a).__name__)
        if kind == "help":
            continue  # -h/--help: prints and exits; its option strings are in `help_flags`
        mutex = None
        for gi, g in enumerate(groups):
            if any(a is b for b in g._group_actions):
                mutex = gi
        tname, dom = type_info(a.type)
        nargs = "none" if a.nargs is None else str(a.nargs)
        members = None
        if tname == "enum":
            members = [(n, m.value) for n, m in a.type.__members__.items()]
        rows.append({"flags": list(a.option_strings), "dest": a.dest, "action": kind, "typ": tname, "dom": dom,
                     "members": members, "enum_name": a.type.__name__ if tname == "enum" else None,
                     "hooks": conversion_hooks(a.type),
                     "default": a.default, "choices": None if a.choices is None else list(a.choices),
                     "nargs": nargs, "required": bool(a.required), "mutex": mutex})
    return rows


def help_flags(parser):
    """Option strings of the parser's help action(s) (prefix matching and clusters see them)."""
    return [s for a in parser._actions if type(a).__name__ == "_HelpAction" for s in a.option_strings]


def raw_actions(parser):
    rows = []
    for r in option_rows(parser):
        rows.append(
            "  { flags := %s, dest := %s, action := %s, typ := %s, typeDomain := %s, default := %s,\n"
            "    choices := %s, nargs := %s, required := %s, mutex := %s }"
            % (
                llist(r["flags"]), lstr(r["dest"]), lstr(r["action"]), lstr(r["typ"]), llist(r["dom"]), rawval(r["default"]),
                lopt(r["choices"], lambda cs: llist(list(cs), rawval)), lstr(r["nargs"]), lbool(r["required"]),
                lopt(r["mutex"], str),
            )
        )
    return "[\n" + ",\n".join(rows) + "\n]"


def lstr_esc(s):
    """Lean string literal with tabs / non-ASCII characters escaped."""
    out = []
    for ch in s:
        if ch == "\\":
            out.append("\\\\")
        elif ch == '"':
            out.append('\\"')
        elif ch == "\t":
            out.append("\\t")
        elif ch == "\n":
            out.append("\\n")
        elif " " <= ch <= "~":
            out.append(ch)
        else:
            out.append("\\u%04x" % ord(ch))
    return '"' + "".join(out) + '"'


def probe_text(text):
    """A probe text as RawVal: the canonical decimal of an integer, or a word."""
    if _CANON.match(text) and text != "-0":
        return f"(.int ({int(text)}))"
    return f"(.str {lstr_esc(text)})"


def tables():
    from rattr.cli import parser as P

    cli = P.make_cli_parser(exit_on_error=False)
    toml = P.make_toml_parser()
    tmap = [(k, v.name) for k, v in P.TOML_ARGUMENT_TYPE_MAP.items()]
    nmap = list(P.TOML_ARGUMENT_NAME_TO_SYS_ARGUMENT_NAME_MAP.items())
    pair = lambda kv: f"({lstr(kv[0])}, {lstr(kv[1])})"  # noqa: E731
    neg = [s for p in (cli, toml) for s in p._option_string_actions if p._negative_number_matcher.match(s)]
    from rattr.cli._types import TomlArgumentType

    probes = [True, False, 0, 3, -5, "s", "", 1.5, [], ["a"], ["a", 1], [True], {}]
    verdicts = []
    for member in TomlArgumentType:
        for v in probes:
            verdicts.append((member.name, repr(v), bool(member.is_valid(v))))
    triple = lambda t: f"({lstr(t[0])}, {lstr(t[1])}, {lbool(t[2])})"  # noqa: E731
    vprobes = value_probes(cli, "cli") + value_probes(toml, "toml")
    vrow = lambda t: f"({lstr(t[0])}, {lstr(t[1])}, {probe_text(t[2])}, {lstr(t[3])}, {rawval(t[4])})"  # noqa: E731
    hooks = [(pn, r["dest"], r["hooks"]) for pn, p in (("cli", cli), ("toml", toml)) for r in option_rows(p)]
    hrow = lambda t: f"({lstr(t[0])}, {lstr(t[1])}, {llist(t[2])})"  # noqa: E731
    return [
        "inductive RawVal where\n  | none | suppress | bool (b : Bool) | int (i : Int) | str (s : String) | other (s : String)\n  deriving DecidableEq, Repr\n",
        "structure RawOpt where\n  flags : List String\n  dest : String\n  action : String\n  typ : String\n"
        "  typeDomain : List String\n  default : RawVal\n  choices : Option (List RawVal)\n  nargs : String\n"
        "  required : Bool\n  mutex : Option Nat\n  deriving DecidableEq, Repr\n",
        "/-- `make_cli_parser()._actions` (without -h). -/",
        f"def cliActions : List RawOpt := {raw_actions(cli)}\n",
        "/-- `make_toml_parser()._actions` (without -h). -/",
        f"def tomlActions : List RawOpt := {raw_actions(toml)}\n",
        "/-- `TOML_ARGUMENT_TYPE_MAP` (key, TomlArgumentType member name), in dict order. -/",
        f"def tomlTypeMap : List (String × String) := {llist(tmap, pair)}\n",
        "/-- `TOML_ARGUMENT_NAME_TO_SYS_ARGUMENT_NAME_MAP`. -/",
        f"def tomlNameMap : List (String × String) := {llist(nmap, pair)}\n",
        "/-- option strings that look like negative numbers (argparse then stops treating `-5` as a value). -/",
        f"def negativeNumberLikeFlags : List String := {llist(neg)}\n",
        "/-- `TomlArgumentType.<member>.is_valid(<probe>)` evaluated on the live enum: (member, repr(probe), verdict). -/",
        f"def isValidProbes : List (String × String × Bool) := {llist(verdicts, triple)}\n",
        "/-- argparse's own value pipeline (`parser._get_values(action, [text])`: the `type=` callable, then the `choices`\n"
        "membership test) evaluated live for every choice-restricted option of both parsers on each allowed value and on\n"
        "each near-miss text (other letter case, surrounding whitespace, prefixes, enum member names / reprs, positions,\n"
        "numeric look-alikes …): (parser, dest, text, verdict ok | invalidValue | invalidChoice, converted value). -/",
        f"def valueProbes : List (String × String × RawVal × String × RawVal) := {llist(vprobes, vrow)}\n",
        "/-- hooks through which a `type=` callable could accept a text that is not literally one of its values (an Enum\n"
        "`_missing_` override, a replaced `__new__` / metaclass `__call__`, members whose name differs from their value,\n"
        "a callable that is not THE builtin int / str / Path): (parser, dest, hooks), `[]` = plain. -/",
        f"def conversionHooks : List (String × String × List String) := {llist(hooks, hrow)}\n",
        "/-- prefix_chars of both parsers. -/",
        f"def prefixChars : List String := {llist([cli.prefix_chars, toml.prefix_chars])}\n",
        "/-- option strings of the help action of `make_cli_parser()` (abbreviations and clusters can resolve to them). -/",
        f"def cliHelpFlags : List String := {llist(help_flags(cli))}\n",
        "/-- option strings of the help action of `make_toml_parser()`. -/",
        f"def tomlHelpFlags : List String := {llist(help_flags(toml))}\n",
        "/-- `allow_abbrev` of both parsers (unique long-option prefixes are accepted). -/",
        f"def allowAbbrev : List Bool := {llist([bool(cli.allow_abbrev), bool(toml.allow_abbrev)], lbool)}\n",
        "/-- `fromfile_prefix_chars` is unset on both parsers (no `@file` expansion). -/",
        f"def noFromFile : Bool := {lbool(cli.fromfile_prefix_chars is None and toml.fromfile_prefix_chars is None)}",
    ]

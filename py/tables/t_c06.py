"""Tie A for C06: what the real `compile_root_context` creates for each import form (probed on one-line
modules in a temporary project), and the shape of `resolve_import`'s local-name derivation."""
from tables.util import lbool, lstr

NAME = "C06"

# (file, is __init__, base module name, statement as the model's ImportStmt, source line)
PROBES = [
    ("target.py", ("plain", 0, None, "m", None), "import m"),
    ("target.py", ("plain", 0, None, "a.b", None), "import a.b"),
    ("target.py", ("plain", 0, None, "a.b", "c"), "import a.b as c"),
    ("target.py", ("plain", 0, None, "m", "n"), "import m as n"),
    ("target.py", ("from", 0, "m", "f", None), "from m import f"),
    ("target.py", ("from", 0, "m", "f", "g"), "from m import f as g"),
    ("target.py", ("from", 0, "a.b", "f", None), "from a.b import f"),
    ("target.py", ("from", 0, "a", "b", None), "from a import b"),
    ("target.py", ("star", 0, "m", "*", None), "from m import *"),
    ("pk/sub/y.py", ("rel", 1, "x", "f", None), "from .x import f"),
    ("pk/sub/y.py", ("rel", 1, "x", "f", "g"), "from .x import f as g"),
    ("pk/sub/y.py", ("rel", 1, None, "x", None), "from . import x"),
    ("pk/sub/y.py", ("rel", 2, None, "w", None), "from .. import w"),
    ("pk/sub/y.py", ("rel", 2, "w", "f", None), "from ..w import f"),
    ("pk/sub/y.py", ("relstar", 1, "x", "*", None), "from .x import *"),
    ("pk/__init__.py", ("rel", 1, "w", "f", None), "from .w import f"),
    ("pk/__init__.py", ("rel", 1, None, "w", None), "from . import w"),
    ("pk/__init__.py", ("relstar", 1, "w", "*", None), "from .w import *"),
    ("pk/__init__.py", ("rel", 1, "sub.x", "f", None), "from .sub.x import f"),
    ("pk/sub/__init__.py", ("rel", 2, None, "w", None), "from .. import w"),
    ("pk/sub/__init__.py", ("rel", 2, "w", "f", "h"), "from ..w import f as h"),
    ("pk/sub/__init__.py", ("relstar", 1, "x", "*", None), "from .x import *"),
]

FILES = {
    "m.py": "def f(x):\n    return x\n",
    "a/__init__.py": "",
    "a/b.py": "def f(x):\n    return x\n",
    "pk/__init__.py": "",
    "pk/w.py": "def f(x):\n    return x\n",
    "pk/sub/__init__.py": "",
    "pk/sub/x.py": "def f(x):\n    return x\n",
    "pk/sub/y.py": "",
    "target.py": "",
}


def lopt(x):
    return "none" if x is None else f"(some {lstr(x)})"


def probe_symbols():
    """Run the real compile_root_context on each one-line module. Returns rows
    (base, isInit, kind, level, module, name, asname, got name, got qualified_name, got id)."""
    import ast
    import shutil
    import tempfile
    from pathlib import Path

    import impl
    from rattr.config.state import enter_file
    from rattr.models.context import compile_root_context
    from rattr.models.symbol import Import
    from rattr.module_locator.util import derive_module_name_from_path

    base = Path(tempfile.mkdtemp(prefix="c06tab"))
    rows = []
    try:
        for rel, content in FILES.items():
            p = base / rel
            p.parent.mkdir(parents=True, exist_ok=True)
            p.write_text(content)
        with impl.in_dir(str(base)):
            for rel, (kind, level, module, name, asname), line in PROBES:
                impl.reset_config(target=Path("target.py"))
                with impl.Tap(), enter_file(Path(rel)):
                    ctx = compile_root_context(ast.parse(line + "\n"))
                    mod_base = derive_module_name_from_path(Path(rel))
                imps = [s for s in ctx.symbol_table.symbols if isinstance(s, Import)]
                assert len(imps) == 1, (line, imps)
                s = imps[0]
                rows.append((mod_base, rel.endswith("__init__.py"), kind, level, module, name, asname,
                             s.name, s.qualified_name, s.id))
    finally:
        shutil.rmtree(base, ignore_errors=True)
    return rows


def resolve_import_shape():
    import ast
    import inspect

    from rattr.results import _find_call_target as F

    fn = ast.parse(inspect.getsource(F.resolve_import)).body[0]
    local_name = None
    lookup = None
    recursive_calls = 0
    for node in ast.walk(fn):
        if isinstance(node, ast.Assign) and isinstance(node.targets[0], ast.Name):
            if node.targets[0].id == "local_name":
                local_name = ast.unparse(node.value)
            if node.targets[0].id == "new_target":
                lookup = ast.unparse(node.value)
        if isinstance(node, ast.Call) and isinstance(node.func, ast.Name) and node.func.id == "resolve_import":
            recursive_calls += 1
    params = [a.arg for a in fn.args.args + fn.args.kwonlyargs]
    return local_name, lookup, recursive_calls, params


def blacklist_shape():
    """The body of is_in_import_blacklist statement by statement (docstring dropped), how the patterns are put
    together and compiled, and the rung of resolve_import that consults it."""
    import ast
    import inspect

    from rattr.config import _types as T
    from rattr.config import Config
    from rattr.module_locator import util as U
    from rattr.results import _find_call_target as F

    fn = ast.parse(inspect.getsource(U.is_in_import_blacklist.__wrapped__)).body[0]
    body = [ast.unparse(st) for st in fn.body
            if not (isinstance(st, ast.Expr) and isinstance(st.value, ast.Constant) and isinstance(st.value.value, str))]
    decorators = [ast.unparse(d) for d in fn.decorator_list]
    methods = sorted({n.func.attr for n in ast.walk(fn) if isinstance(n, ast.Call) and isinstance(n.func, ast.Attribute)
                      and isinstance(n.func.value, ast.Name) and n.func.value.id == "re_pattern"})
    cls = ast.parse(inspect.getsource(T)).body
    union, compiled, recompile = "", "", ""
    for node in ast.walk(ast.Module(body=cls, type_ignores=[])):
        if isinstance(node, ast.FunctionDef) and node.name == "blacklist_patterns":
            union = ast.unparse(node.body[-1])
        if isinstance(node, ast.FunctionDef) and node.name == "re_blacklist_patterns":
            compiled = ast.unparse(node.body[-1])
        if isinstance(node, ast.FunctionDef) and node.name == "_cached_re_compile":
            recompile = ast.unparse(node.body[-1])
    rs = ast.parse(inspect.getsource(F.resolve_import)).body[0]
    rung = [ast.unparse(st) for st in rs.body if isinstance(st, ast.If) and "is_in_import_blacklist" in ast.unparse(st.test)]
    return body, decorators, methods, union, compiled, recompile, rung, sorted(Config.MODULE_BLACKLIST_PATTERNS)


def local_resolution_shape():
    """__resolve_target_and_ir, __is_defined_in, __resolve_real_class_target statement by statement, and the fields
    attrs compares for Func / Class (the location must not be among them: the model's `eqv`)."""
    import ast
    import inspect

    import attrs
    from rattr.models.symbol import Class, Func
    from rattr.results import _find_call_target as F

    mod = ast.parse(inspect.getsource(F))
    bodies = {}
    for node in mod.body:
        if isinstance(node, ast.FunctionDef) and node.name in ("__resolve_target_and_ir", "__is_defined_in",
                                                                "__resolve_real_class_target"):
            bodies[node.name] = [ast.unparse(st) for st in node.body
                                 if not (isinstance(st, ast.Expr) and isinstance(st.value, ast.Constant))]
    eq_fields = [(c.__name__, [f.name for f in attrs.fields(c) if f.eq]) for c in (Func, Class)]
    return bodies, eq_fields


def tables():
    rows = probe_symbols()
    body = ",\n".join(
        f"  ({lstr(b)}, {lbool(i)}, {lstr(k)}, {lvl}, {lopt(m)}, {lstr(n)}, {lopt(a)}, {lstr(gn)}, {lstr(gq)}, {lstr(gid)})"
        for b, i, k, lvl, m, n, a, gn, gq, gid in rows)
    local_name, lookup, rec, params = resolve_import_shape()
    return [
        "/-- (base module, is __init__, form, level, module, name, asname, Import.name, Import.qualified_name, Import.id)\n"
        "as the real compile_root_context produced them on one-line modules -/",
        "def importProbes : List (String × Bool × String × Nat × Option String × String × Option String × String × String × String) := [\n"
        + body + "]",
        f"def localNameDerivation : String := {lstr(local_name or '')}",
        f"def moduleContextLookup : String := {lstr(lookup or '')}",
        f"def resolveImportRecursiveCalls : Nat := {rec}",
        f"def resolveImportParams : List String := [{', '.join(lstr(p) for p in params)}]",
    ] + blacklist_tables() + local_tables() + round4_tables()


def round4_shape():
    """(a) every assignment to `filepath` inside derive_module_name_from_path (how the path is normalised before it is
    turned into a dotted name: the model takes it AS GIVEN); (b) the statements of the `isinstance(target, Import)` branch
    of find_call_target_and_ir (the model goes straight into resolve_import)."""
    import ast
    import inspect

    from rattr.module_locator import util as U
    from rattr.results import _find_call_target as F

    fn = ast.parse(inspect.getsource(U.derive_module_name_from_path.__wrapped__)).body[0]
    norm = [ast.unparse(n) for n in ast.walk(fn)
            if isinstance(n, (ast.Assign, ast.AnnAssign, ast.AugAssign, ast.NamedExpr))
            and any(isinstance(t, ast.Name) and t.id == "filepath"
                    for t in (n.targets if isinstance(n, ast.Assign) else [n.target]))]
    fc = ast.parse(inspect.getsource(F.find_call_target_and_ir)).body[0]
    branch = []
    for st in fc.body:
        if (isinstance(st, ast.If) and isinstance(st.test, ast.Call) and ast.unparse(st.test) == "isinstance(target, Import)"):
            branch = [ast.unparse(x) for x in st.body] + (["else: …"] if st.orelse else [])
    return norm, branch


def round4_tables():
    norm, branch = round4_shape()
    esc = lambda x: lstr(x).replace("\n", "\\n")
    ll = lambda xs: "[" + ", ".join(esc(x) for x in xs) + "]"
    return [
        "/-- every assignment to `filepath` in `derive_module_name_from_path` -/",
        f"def deriveModuleNamePathAssignments : List String := {ll(norm)}",
        "/-- the `isinstance(target, Import)` branch of `find_call_target_and_ir`, statement by statement -/",
        f"def findCallTargetImportBranch : List String := {ll(branch)}",
    ]


def local_tables():
    bodies, eq_fields = local_resolution_shape()
    esc = lambda x: lstr(x).replace("\n", "\\n")
    ll = lambda xs: "[" + ", ".join(esc(x) for x in xs) + "]"
    return [
        "/-- `__resolve_target_and_ir`, statement by statement -/",
        f"def resolveTargetAndIrBody : List String := {ll(bodies.get('__resolve_target_and_ir', []))}",
        f"def isDefinedInBody : List String := {ll(bodies.get('__is_defined_in', []))}",
        f"def realClassTargetBody : List String := {ll(bodies.get('__resolve_real_class_target', []))}",
        "/-- the fields attrs' `__eq__` compares, per symbol class -/",
        "def symbolEqFields : List (String × List String) := [" + ", ".join(f"({lstr(c)}, {ll(fs)})" for c, fs in eq_fields) + "]",
    ]


def blacklist_tables():
    body, decorators, methods, union, compiled, recompile, rung, builtin = blacklist_shape()
    esc = lambda x: lstr(x).replace("\n", "\\n")
    ll = lambda xs: "[" + ", ".join(esc(x) for x in xs) + "]"
    return [
        "/-- `is_in_import_blacklist`, statement by statement (ast.unparse, docstring dropped) -/",
        f"def blacklistBody : List String := {ll(body)}",
        f"def blacklistDecorators : List String := {ll(decorators)}",
        "/-- the `re.Pattern` methods applied to a blacklist pattern -/",
        f"def blacklistMatchMethods : List String := {ll(methods)}",
        f"def blacklistPatternUnion : String := {lstr(union)}",
        f"def blacklistPatternCompile : String := {lstr(compiled)}",
        f"def blacklistReCompile : String := {lstr(recompile)}",
        "/-- the rung(s) of `resolve_import` that consult the blacklist -/",
        f"def resolveImportBlacklistRung : List String := {ll(rung)}",
        "/-- `Config.MODULE_BLACKLIST_PATTERNS`, sorted -/",
        f"def builtinBlacklistPatterns : List String := {ll(builtin)}",
    ]

"""Tie A for C06: what the real `compile_root_context` creates for each import form (probed on one-line
modules in a temporary project), and the shape of `resolve_import`'s local-name derivation."""
from tables.util import lbool, lstr

NAME = "C06"

# (file, is __init__, base module name, statement as the model's ImportStmt, source line)
PROBES = [
    ("target.py", ("plain", 0, None, "m", None), "import m"),
    ("target.py", ("plain", 0, None, "a.b", None), "import a.b"),
    ("target.py", ("plain", 0, None, "a.b", "c"), "import a.b as c"),
    ("target.py", ("plain", 0, None, "m", "n"), "import m as n"),
    ("target.py", ("from", 0, "m", "f", None), "from m import f"),
    ("target.py", ("from", 0, "m", "f", "g"), "from m import f as g"),
    ("target.py", ("from", 0, "a.b", "f", None), "from a.b import f"),
    ("target.py", ("from", 0, "a", "b", None), "from a import b"),
    ("target.py", ("star", 0, "m", "*", None), "from m import *"),
    ("pk/sub/y.py", ("rel", 1, "x", "f", None), "from .x import f"),
    ("pk/sub/y.py", ("rel", 1, "x", "f", "g"), "from .x import f as g"),
    ("pk/sub/y.py", ("rel", 1, None, "x", None), "from . import x"),
    ("pk/sub/y.py", ("rel", 2, None, "w", None), "from .. import w"),
    ("pk/sub/y.py", ("rel", 2, "w", "f", None), "from ..w import f"),
    ("pk/sub/y.py", ("relstar", 1, "x", "*", None), "from .x import *"),
    ("pk/__init__.py", ("rel", 1, "w", "f", None), "from .w import f"),
    ("pk/__init__.py", ("rel", 1, None, "w", None), "from . import w"),
    ("pk/__init__.py", ("relstar", 1, "w", "*", None), "from .w import *"),
    ("pk/__init__.py", ("rel", 1, "sub.x", "f", None), "from .sub.x import f"),
    ("pk/sub/__init__.py", ("rel", 2, None, "w", None), "from .. import w"),
    ("pk/sub/__init__.py", ("rel", 2, "w", "f", "h"), "from ..w import f as h"),
    ("pk/sub/__init__.py", ("relstar", 1, "x", "*", None), "from .x import *"),
]

FILES = {
    "m.py": "def f(x):\n    return x\n",
    "a/__init__.py": "",
    "a/b.py": "def f(x):\n    return x\n",
    "pk/__init__.py": "",
    "pk/w.py": "def f(x):\n    return x\n",
    "pk/sub/__init__.py": "",
    "pk/sub/x.py": "def f(x):\n    return x\n",
    "pk/sub/y.py": "",
    "target.py": "",
}


def lopt(x):
    return "none" if x is None else f"(some {lstr(x)})"


def probe_symbols():
    """Run the real compile_root_context on each one-line module. Returns rows
    (base, isInit, kind, level, module, name, asname, got name, got qualified_name, got id)."""
    import ast
    import shutil
    import tempfile
    from pathlib import Path

    import impl
    from rattr.config.state import enter_file
    from rattr.models.context import compile_root_context
    from rattr.models.symbol import Import
    from rattr.module_locator.util import derive_module_name_from_path

    base = Path(tempfile.mkdtemp(prefix="c06tab"))
    rows = []
    try:
        for rel, content in FILES.items():
            p = base / rel
            p.parent.mkdir(parents=True, exist_ok=True)
            p.write_text(content)
        with impl.in_dir(str(base)):
            for rel, (kind, level, module, name, asname), line in PROBES:
                impl.reset_config(target=Path("target.py"))
                with impl.Tap(), enter_file(Path(rel)):
                    ctx = compile_root_context(ast.parse(line + "\n"))
                    mod_base = derive_module_name_from_path(Path(rel))
                imps = [s for s in ctx.symbol_table.symbols if isinstance(s, Import)]
                assert len(imps) == 1, (line, imps)
                s = imps[0]
                rows.append((mod_base, rel.endswith("__init__.py"), kind, level, module, name, asname,
                             s.name, s.qualified_name, s.id))
    finally:
        shutil.rmtree(base, ignore_errors=True)
    return rows


def resolve_import_shape():
    import ast
    import inspect

    from rattr.results import _find_call_target as F

    fn = ast.parse(inspect.getsource(F.resolve_import)).body[0]
    local_name = None
    lookup = None
    recursive_calls = 0
    for node in ast.walk(fn):
        if isinstance(node, ast.Assign) and isinstance(node.targets[0], ast.Name):
            if node.targets[0].id == "local_name":
                local_name = ast.unparse(node.value)
            if node.targets[0].id == "new_target":
                lookup = ast.unparse(node.value)
        if isinstance(node, ast.Call) and isinstance(node.func, ast.Name) and node.func.id == "resolve_import":
            recursive_calls += 1
    params = [a.arg for a in fn.args.args + fn.args.kwonlyargs]
    return local_name, lookup, recursive_calls, params


def tables():
    rows = probe_symbols()
    body = ",\n".join(
        f"  ({lstr(b)}, {lbool(i)}, {lstr(k)}, {lvl}, {lopt(m)}, {lstr(n)}, {lopt(a)}, {lstr(gn)}, {lstr(gq)}, {lstr(gid)})"
        for b, i, k, lvl, m, n, a, gn, gq, gid in rows)
    local_name, lookup, rec, params = resolve_import_shape()
    return [
        "/-- (base module, is __init__, form, level, module, name, asname, Import.name, Import.qualified_name, Import.id)\n"
        "as the real compile_root_context produced them on one-line modules -/",
        "def importProbes : List (String × Bool × String × Nat × Option String × String × Option String × String × String × String) := [\n"
        + body + "]",
        f"def localNameDerivation : String := {lstr(local_name or '')}",
        f"def moduleContextLookup : String := {lstr(lookup or '')}",
        f"def resolveImportRecursiveCalls : Nat := {rec}",
        f"def resolveImportParams : List String := [{', '.join(lstr(p) for p in params)}]",
    ]

"""Tie A tables of the root-context / file-analyser stages (S2, S4): the `visit_*` methods of
`RootContextBuilder`, `FileAnalyser`, `ClassAnalyser` (by `dir()`), the module dunder list and the
builtin list `compile_root_context` starts from."""
from tables.util import llist

NAME = "RC"


def _visitors(cls):
    return sorted(n for n in dir(cls) if n.startswith("visit_"))


def tables():
    from rattr.analyser.cls import ClassAnalyser
    from rattr.analyser.file import FileAnalyser
    from rattr.models.context._root_context import MODULE_LEVEL_DUNDER_ATTRS, RootContextBuilder
    from rattr.models.symbol import PYTHON_BUILTINS

    return [
        f"def rootBuilderVisitors : List String := {llist(_visitors(RootContextBuilder))}",
        f"def fileAnalyserVisitors : List String := {llist(_visitors(FileAnalyser))}",
        f"def classAnalyserVisitors : List String := {llist(_visitors(ClassAnalyser))}",
        f"def moduleDunders : List String := {llist(list(MODULE_LEVEL_DUNDER_ATTRS))}",
        f"def builtins : List String := {llist(list(PYTHON_BUILTINS))}",
    ]

"""Tie A tables of C03 (round 3): facts about the code paths the round-3 theorems speak about.

* `functionAnalyserVisitors`: the `visit_*` methods of `FunctionAnalyser` (by `dir()`).  The model's AST
  (`RattrModel/Ast.lean`) gives every node kind WITHOUT a dedicated visitor the constructor `other kind kids`
  (visited kid by kid: `generic_visit`) — `Match`, `match_case`, `If`, `While`, `Assert`, `Raise`, `Await`,
  `Yield`, `JoinedStr`, the operators, ... .  A new dedicated visitor (say `visit_match_case`) changes which
  kinds those are.
* `staticMethodSteps`: the calls `ClassAnalyser.visit_static_method` makes that matter for recursion, in source
  order: the registration of the `Func` symbol (`….context.add(...)`) and the analysis of the body
  (`FunctionAnalyser(...)` constructed, `.analyse()` run).  The model registers first
  (`FileA.visitStatic`, `C03_static_method_registered_before_body`).
"""
import ast
import inspect
import textwrap

from tables.util import llist

NAME = "C03"


def _visitors(cls):
    return sorted(n for n in dir(cls) if n.startswith("visit_"))


def _static_steps():
    from rattr.analyser.cls import ClassAnalyser

    src = textwrap.dedent(inspect.getsource(ClassAnalyser.visit_static_method))
    fn = ast.parse(src).body[0]
    steps = []
    calls = sorted((n for n in ast.walk(fn) if isinstance(n, ast.Call)), key=lambda n: (n.lineno, n.col_offset))
    for c in calls:
        f = c.func
        if isinstance(f, ast.Attribute) and f.attr == "add" and isinstance(f.value, ast.Attribute) and f.value.attr == "context":
            steps.append("context.add")
        elif isinstance(f, ast.Name) and f.id == "FunctionAnalyser":
            steps.append("FunctionAnalyser")
        elif isinstance(f, ast.Attribute) and f.attr == "analyse":
            steps.append("analyse")
    # statement order, not column order, is what executes: `x = A(...).analyse()` evaluates A(...) first
    return steps


def tables():
    from rattr.analyser.function import FunctionAnalyser

    return [
        f"def functionAnalyserVisitors : List String := {llist(_visitors(FunctionAnalyser))}",
        f"def staticMethodSteps : List String := {llist(_static_steps())}",
    ]

"""Tie A table of C09: the scope operations of the REAL `Context` evaluated on a two-level chain.

All functions of a file share one root context object; that a function's `del` / assignment of a
local named like a module-level class cannot change what LATER functions resolve is a theorem of the
model (`FnA.analyse_ctx`, `C09_records_independent_of_earlier_functions`) that rests on two facts
about `rattr/models/context/_context.py`: plain `add` never rebinds a visible name and otherwise
binds in the CURRENT scope; `remove` (and `remove_identifiers_from_context`) pops from the current
scope's table only. The table evaluates the real methods on `child -> root` (root declares the class
`C` and the function `f`) for every sequence of up to two operations (+ some of three) and records the
names declared in the child and in the root afterwards, and what `C` resolves to from the child;
`C09_tieA_scope_ops` (RattrProofs/Props/C09.lean) evaluates the model's `Context.add` / `Context.remove`
/ `addIdentifiers` / `removeIdentifiers` on the same sequences (`by decide`).
"""
from __future__ import annotations

import ast
import itertools

from tables.util import llist, lstr

NAME = "C09"

NAMES = ["C", "x"]
OPS = ["add", "addArg", "remove", "addIds", "delIds", "addIdsPair", "delIdsPair", "addIdsStar", "delIdsAttr", "delIdsSub"]


def _target(op, n):
    if op in ("addIds", "delIds"):
        return n
    if op in ("addIdsPair", "delIdsPair"):
        return f"({n}, zz)"
    if op == "addIdsStar":
        return f"[first, *{n}]"
    if op == "delIdsAttr":
        return f"{n}.attr"
    if op == "delIdsSub":
        return f"{n}[0]"
    raise ValueError(op)


def _apply(ctx, op, n):
    from rattr.models.symbol import Name

    if op == "add":
        ctx.add(Name(n))
    elif op == "addArg":
        ctx.add(Name(n), is_argument=True)
    elif op == "remove":
        ctx.remove(n)
    else:
        node = ast.parse(_target(op, n), mode="eval").body
        if op.startswith("add"):
            ctx.add_identifiers_to_context(node)
        else:
            ctx.remove_identifiers_from_context(node)


def _row(seq):
    from pathlib import Path

    from rattr.models.context import Context
    from rattr.models.symbol import CallInterface, Class, Func

    root = Context(parent=None, file=Path("t.py"))
    root.add(Class(name="C"))
    root.add(Func(name="f", interface=CallInterface(args=("p",))))
    child = Context(parent=root, file=Path("t.py"))
    for op, n in seq:
        _apply(child, op, n)
    c = child.get("C")
    return (list(seq), list(child.symbol_table.names), list(root.symbol_table.names), type(c).__name__ if c is not None else "none")


def _sequences():
    ops = [(o, n) for o in OPS for n in NAMES]
    seqs = [()] + [(a,) for a in ops] + list(itertools.product(ops, ops))
    # three operations: bind C somehow, unbind it somehow, bind or unbind again
    for a in ("add", "addArg", "addIds", "addIdsPair"):
        for b in ("remove", "delIds", "delIdsPair"):
            for c in ("add", "remove", "delIds", "addIds"):
                seqs.append(((a, "C"), (b, "C"), (c, "C")))
    return seqs


def tables():
    import impl

    from pathlib import Path

    from rattr.config.state import enter_file

    impl.reset_config(target=Path("t.py"))
    with enter_file(Path("t.py")):
        rows = [_row(s) for s in _sequences()]

    def lrow(r):
        seq, child, root, kind = r
        return (f"({llist(seq, lambda p: f'({lstr(p[0])}, {lstr(p[1])})')}, {llist(child)}, {llist(root)}, {lstr(kind)})")

    return [
        "/-- the real `Context` scope operations on `child -> root` (root declares class `C`, function `f`):",
        "(operations applied to the child, names the child declares afterwards, names the root declares",
        "afterwards, class of the symbol `C` resolves to from the child) -/",
        "def scopeOps : List (List (String × String) × List String × List String × String) := [\n  "
        + ",\n  ".join(lrow(r) for r in rows) + "]",
    ]

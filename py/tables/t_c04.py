from tables.util import llist, lstr

NAME = "C04"


def tables():
    from rattr.models.symbol import CallInterface
    from rattr.results import _simplify_utils as su

    ci = CallInterface(posonlyargs=["p"], args=["a"], vararg="v", kwonlyargs=["k"], kwarg="w")
    order = {"p": "posonly", "a": "args", "v": "vararg", "k": "kwonly", "w": "kwarg"}
    return [
        f"def ifaceAllOrder : List String := {llist([order[x] for x in ci.all])}",
        f"def varargStandIn : String := {lstr(su.VARARG_NAME)}",
        f"def kwargStandIn : String := {lstr(su.KWARGS_NAME)}",
    ]

from tables.util import lbool, llist, lstr

NAME = "C04"


def tables():
    from rattr.models.symbol import CallInterface
    from rattr.results import _simplify_utils as su

    ci = CallInterface(posonlyargs=["p"], args=["a"], vararg="v", kwonlyargs=["k"], kwarg="w")
    order = {"p": "posonly", "a": "args", "v": "vararg", "k": "kwonly", "w": "kwarg"}
    return from_call_probe() + error_probe() + [
        f"def ifaceAllOrder : List String := {llist([order[x] for x in ci.all])}",
        f"def varargStandIn : String := {lstr(su.VARARG_NAME)}",
        f"def kwargStandIn : String := {lstr(su.KWARGS_NAME)}",
    ]


PROBE_CALL = "f(p, *q, k1=a, **m, k2=b.c, **n, k3=d[0])"


def from_call_probe():
    """What `CallArguments.from_call` records for one written call that has a `*iterable` among the positionals and
    `**mapping`s before / between the explicit keywords, with an implicit `self`."""
    import ast

    import impl
    from rattr.config.state import enter_file
    from rattr.models.symbol import CallArguments

    impl.reset_config()
    node = ast.parse(PROBE_CALL).body[0].value
    with enter_file(impl.Path("target.py")), impl.Tap() as tap:
        got = CallArguments.from_call(node, self="s")
    errors = [e for e in tap.events if e["level"] == "error"]

    def pairs(xs):
        return "[" + ", ".join(f"({lstr(a)}, {lstr(b)})" for a, b in xs) + "]"

    return [
        f"/-- `CallArguments.from_call(ast.parse({PROBE_CALL!r}), self='s')` -/",
        f"def fromCallProbeArgs : List String := {llist(list(got.args))}",
        f"def fromCallProbeKwargs : List (String × String) := {pairs(list(got.kwargs.items()))}",
        f"def fromCallProbeErrors : Nat := {len(errors)}",
    ]


def error_probe():
    """Is a line printed by `error.error(...)` — for every warning level x where the diagnostic arises (the target
    file / another file / no current file = result simplification), not strict."""
    import impl
    from rattr import error as rattr_error
    from rattr.config import Config

    rows = []
    for w in ("none", "local", "default", "all"):
        for place, cur in (("target", impl.Path("target.py")), ("import", impl.Path("other.py")), ("none", None)):
            impl.reset_config(_warning_level=w)
            Config().state.current_file = cur
            with impl.Tap() as tap:
                impl.outcome_of(rattr_error.error, "probe")
            rows.append((w, place, [e["level"] for e in tap.printed] == ["error"]))
    impl.reset_config()
    return [
        "/-- (warning level, place, does `error.error('probe')` print exactly one `error` line) -/",
        "def errorShownProbe : List (String × String × Bool) := ["
        + ", ".join(f"({lstr(w)}, {lstr(pl)}, {lbool(b)})" for w, pl, b in rows) + "]",
    ]

"""Tie A tables for C19 (cache gate): introspection of the live classes + ast scans of the gate,
of make_arguments_hash and of __main__.main."""
import ast
import inspect
import textwrap

from tables.util import llist, lstr

NAME = "C19"


def _fn_ast(fn):
    return ast.parse(textwrap.dedent(inspect.getsource(fn))).body[0]


def _compared_fields(fn):
    """Fields of `cache` compared in the final `return a and b and ...` of the gate."""
    ret = [n for n in fn.body if isinstance(n, ast.Return)][-1]
    v = ret.value
    parts = v.values if isinstance(v, ast.BoolOp) and isinstance(v.op, ast.And) else [v]
    out = []
    for p in parts:
        if isinstance(p, ast.Compare) and len(p.ops) == 1 and isinstance(p.ops[0], ast.Eq) \
                and isinstance(p.left, ast.Attribute) and isinstance(p.left.value, ast.Name) \
                and p.left.value.id == "cache":
            out.append(p.left.attr)
        elif isinstance(p, ast.Call) and isinstance(p.func, ast.Name) and p.func.id == "all" \
                and len(p.args) == 1 and isinstance(p.args[0], ast.GeneratorExp):
            g = p.args[0]
            it = g.generators[0].iter
            elt = g.elt
            ok = (len(g.generators) == 1 and not g.generators[0].ifs
                  and isinstance(it, ast.Attribute) and isinstance(it.value, ast.Name) and it.value.id == "cache"
                  and isinstance(elt, ast.Compare) and len(elt.ops) == 1 and isinstance(elt.ops[0], ast.Eq)
                  and ast.unparse(elt) == "import_info.filehash == hash_file_content(import_info.filepath)")
            out.append(it.attr if ok else "?" + ast.unparse(p))
        else:
            out.append("?" + ast.unparse(p))
    return out


def _comparisons(fn):
    """The conjuncts of the gate's final `return`, verbatim (what each cached field is compared WITH)."""
    ret = [n for n in fn.body if isinstance(n, ast.Return)][-1]
    v = ret.value
    parts = v.values if isinstance(v, ast.BoolOp) and isinstance(v.op, ast.And) else [v]
    return [ast.unparse(p) for p in parts]


def _caught(fn):
    out = []
    for n in ast.walk(fn):
        if isinstance(n, ast.Try):
            for h in n.handlers:
                if h.type is None:
                    out.append("BaseException")
                elif isinstance(h.type, ast.Tuple):
                    out.extend(ast.unparse(e) for e in h.type.elts)
                else:
                    out.append(ast.unparse(h.type))
    return out


def _hashed_sources(fn, fields):
    for n in ast.walk(fn):
        if isinstance(n, ast.Call) and isinstance(n.func, ast.Name) and n.func.id == "HashableArguments":
            kw = {k.arg: ast.unparse(k.value) for k in n.keywords}
            pos = [ast.unparse(a) for a in n.args]
            return pos + [kw.get(f, "?missing") for f in fields[len(pos):]]
    raise RuntimeError("HashableArguments(...) call not found in make_arguments_hash")


def _main_shape(fn):
    """Source-ordered events of main() that concern the cache."""
    ev = []

    def visit(node, in_gate):
        if isinstance(node, ast.If):
            t = ast.unparse(node.test)
            gate_here = in_gate
            if "target_cache_file_is_up_to_date" in t:
                ev.append("elif:target_cache_file_is_up_to_date" if t.startswith("target_cache_file_is_up_to_date(") else "if:" + t)
                gate_here = True
            elif "force_refresh_cache" in t:
                ev.append("if:force_refresh_cache" if t == "config.arguments.force_refresh_cache" else "if:" + t)
            elif "cache_file" in t:
                norm = t.replace("(cached := config.arguments.cache_file)", "cache_file").replace("config.arguments.cache_file", "cache_file")
                ev.append("if:" + norm)
            for c in node.body:
                visit(c, gate_here)
            for c in node.orelse:
                visit(c, in_gate)
            return
        if isinstance(node, ast.Return) and in_gate:
            ev.append("return:" + (ast.unparse(node.value) if node.value else "None"))
        if isinstance(node, ast.Call):
            f = node.func
            name = f.attr if isinstance(f, ast.Attribute) else (f.id if isinstance(f, ast.Name) else "")
            if name in ("unlink", "write_cache_file", "write_text", "rename", "replace"):
                ev.append("call:" + name)
        for c in ast.iter_child_nodes(node):
            visit(c, in_gate)

    for st in fn.body:
        visit(st, False)
    # the guard of the final write repeats the first test; keep one copy
    out = []
    for e in ev:
        if e == "if:cache_file is not None" and e in out:
            continue
        out.append(e)
    return out


def _read_in_loop(fn):
    """Is every `<file>.read(...)` of hash_file_content inside a while/for loop (so that the whole
    file is consumed), and is there at least one?"""
    parents = {}
    for n in ast.walk(fn):
        for c in ast.iter_child_nodes(n):
            parents[c] = n
    reads = [n for n in ast.walk(fn) if isinstance(n, ast.Call) and isinstance(n.func, ast.Attribute)
             and n.func.attr == "read"]
    if not reads:
        return False
    for r in reads:
        cur, ok = r, False
        while cur in parents:
            cur = parents[cur]
            if isinstance(cur, (ast.While, ast.For)):
                ok = True
                break
        if not ok:
            return False
    return True


def _stmts(fn):
    """Statement-level shape of a function body (docstring dropped): one string per top-level
    statement, `if` statements as `if <test>:<body joined by |>`."""
    out = []
    body = fn.body
    if body and isinstance(body[0], ast.Expr) and isinstance(getattr(body[0], "value", None), ast.Constant) \
            and isinstance(body[0].value.value, str):
        body = body[1:]
    for st in body:
        if isinstance(st, ast.If) and not st.orelse:
            out.append("if " + ast.unparse(st.test) + ":" + "|".join(ast.unparse(b) for b in st.body))
        else:
            out.append(ast.unparse(st).replace("\n", "|"))
    return out


def _property_src(cls, name):
    """`name:<statements>` of a property / cached property of a class, found in the class's source."""
    tree = ast.parse(textwrap.dedent(inspect.getsource(cls)))
    for node in ast.walk(tree):
        if isinstance(node, ast.FunctionDef) and node.name == name:
            return name + ":" + "|".join(_stmts(node))
    return name + ":?missing"


def _import_info_shape(fn):
    """make_cacheable_import_info: the `contexts` tuple, and the set comprehension clause by clause."""
    out = []
    comp = None
    sort_key = "?"
    for node in ast.walk(fn):
        if isinstance(node, ast.Assign) and len(node.targets) == 1 and isinstance(node.targets[0], ast.Name) \
                and node.targets[0].id == "contexts":
            out.append("contexts=" + ast.unparse(node.value))
        if isinstance(node, ast.Call) and isinstance(node.func, ast.Name) and node.func.id == "sorted" and node.args \
                and isinstance(node.args[0], ast.SetComp):
            comp = node.args[0]
            sort_key = ",".join(f"{k.arg}={ast.unparse(k.value)}" for k in node.keywords)
    # anything else that binds a name in the function body changes what the clauses mean
    extra = [ast.unparse(st) for st in fn.body
             if not (isinstance(st, ast.Expr) and isinstance(getattr(st, "value", None), ast.Constant))
             and not (isinstance(st, ast.Assign) and ast.unparse(st.targets[0]) == "contexts")
             and not isinstance(st, ast.Return)]
    out += ["extra-statement:" + e for e in extra]
    if comp is None:
        return out + ["?no sorted(set comprehension) found"]
    out.append("elt=" + ast.unparse(comp.elt))
    for g in comp.generators:
        out.append("for " + ast.unparse(g.target) + " in " + ast.unparse(g.iter))
        out += ["if " + ast.unparse(c) for c in g.ifs]
    out.append("sorted:" + sort_key)
    return out


def _gate_diagnostics(fn):
    """The `error.<level>(...)` calls of a function in source order, each with the test / handler that
    encloses it and its explicit badness argument: `<context>:<level>:<badness|default>`."""
    out = []

    def visit(node, ctx):
        if isinstance(node, ast.If):
            t = "if " + ast.unparse(node.test)
            visit(node.test, ctx)
            for c in node.body:
                visit(c, t)
            for c in node.orelse:
                visit(c, "else of " + t)
            return
        if isinstance(node, ast.Try):
            for c in node.body:
                visit(c, "try")
            for h in node.handlers:
                hc = "except " + (ast.unparse(h.type) if h.type is not None else "BaseException")
                for c in h.body:
                    visit(c, hc)
            for c in node.orelse + node.finalbody:
                visit(c, ctx)
            return
        if isinstance(node, ast.Call) and isinstance(node.func, ast.Attribute) and isinstance(node.func.value, ast.Name) \
                and node.func.value.id == "error":
            bad = "default"
            for k in node.keywords:
                if k.arg == "badness":
                    bad = ast.unparse(k.value)
            if len(node.args) >= 3:
                bad = ast.unparse(node.args[2])
            out.append(f"{ctx}:{node.func.attr}:{bad}")
        for c in ast.iter_child_nodes(node):
            visit(c, ctx)

    for st in fn.body:
        visit(st, "top")
    return out


def _main_badness_shape(fn):
    """Source order of: the gate call, the analysis call, the badness check (with what it does) and the
    cache write in main()."""
    ev = []
    for node in ast.walk(fn):
        pass
    def visit(node):
        if isinstance(node, ast.If) and "is_within_badness_threshold" in ast.unparse(node.test):
            acts = [n.func.attr for b in node.body for n in ast.walk(b)
                    if isinstance(n, ast.Call) and isinstance(n.func, ast.Attribute) and isinstance(n.func.value, ast.Name)
                    and n.func.value.id == "error"]
            ev.append("if " + ast.unparse(node.test) + ":" + ",".join(acts))
            for c in node.orelse:
                visit(c)
            return
        if isinstance(node, ast.Call):
            f = node.func
            name = f.attr if isinstance(f, ast.Attribute) else (f.id if isinstance(f, ast.Name) else "")
            if name in ("target_cache_file_is_up_to_date", "parse_and_analyse_file", "write_cache_file"):
                ev.append("call:" + name)
        for c in ast.iter_child_nodes(node):
            visit(c)
    for st in fn.body:
        visit(st)
    return ev


def lpairs(xs):
    return "[" + ", ".join("(" + lstr(a) + ", " + str(int(b)) + ")" for a, b in xs) + "]"


def tables():
    import attrs

    import rattr.__main__ as rmain
    from rattr.models.results import util as ru
    from rattr.models.results.cacheable import CacheableImportInfo, CacheableResults, HashableArguments

    from rattr.models.util import hash as rh

    hfc = _fn_ast(rh.hash_file_content)
    blocksize = inspect.signature(rh.hash_file_content).parameters["blocksize"].default
    gate = _fn_ast(ru.target_cache_file_is_up_to_date)
    fields = list(HashableArguments._fields)
    import rattr.config._types as ct
    import rattr.module_locator.util as mlu
    from rattr.models.symbol._util import PYTHON_BUILTINS_LOCATION

    unwrap = lambda f: getattr(f, "__wrapped__", f)  # noqa: E731  (functools.cache)
    option_sets = [_property_src(ct.Arguments, "excluded_imports"), _property_src(ct.Arguments, "excluded_names"),
                   _property_src(ct.Config, "blacklist_patterns")]
    deps = [
        f"def importInfoShape : List String := {llist(_import_info_shape(_fn_ast(ru.make_cacheable_import_info)))}",
        f"def optionSetSources : List String := {llist(option_sets)}",
        f"def pipPatterns : List String := {llist([p.pattern for p in mlu.RE_PIP_INSTALL_LOCATIONS])}",
        f"def blacklistShape : List String := {llist(_stmts(_fn_ast(unwrap(mlu.is_in_import_blacklist))))}",
        f"def inPipShape : List String := {llist(_stmts(_fn_ast(unwrap(mlu.is_in_pip))))}",
        f"def namesRightShape : List String := {llist(_stmts(_fn_ast(unwrap(mlu.iter_module_names_right))) + _stmts(_fn_ast(unwrap(mlu.derive_module_names_right))))}",
        f"def safeOriginShape : List String := {llist(_stmts(_fn_ast(unwrap(mlu.__dict__['__safe_origin']))))}",
        f"def builtinsLocation : String := {llist([PYTHON_BUILTINS_LOCATION])[1:-1]}",
        f"def permanentBlacklist : List String := {llist(sorted(ct.Config.MODULE_BLACKLIST_PATTERNS))}",
    ]
    import importlib
    import sys as _sys

    importlib.import_module("rattr.error.error")
    ree = _sys.modules["rattr.error.error"]

    def _default_badness(name):
        return inspect.signature(getattr(ree, name)).parameters["badness"].default

    run_tables = [
        f"def gateDiagnostics : List String := {llist(_gate_diagnostics(gate))}",
        f"def errorDefaultBadness : List (String × Nat) := {lpairs([(n, _default_badness(n)) for n in ('info', 'warning', 'error', 'fatal')])}",
        f"def withinShape : List String := {llist(_stmts(_fn_ast(ct.Config.is_within_badness_threshold.fget)))}",
        f"def badnessShape : List String := {llist([_property_src(ct.State, 'badness')])}",
        f"def incrementShape : List String := {llist(_stmts(_fn_ast(ct.Config.increment_badness)))}",
        f"def strictErrorShape : List String := {llist([s_ for s_ in _stmts(_fn_ast(ree.error)) if 'is_strict' in s_])}",
        f"def mainBadnessShape : List String := {llist(_main_badness_shape(_fn_ast(rmain.main)))}",
    ]
    return deps + run_tables + [
        f"def hashedArguments : List String := {llist(fields)}",
        f"def cacheFields : List String := {llist([f.name for f in attrs.fields(CacheableResults)])}",
        f"def importInfoFields : List String := {llist([f.name for f in attrs.fields(CacheableImportInfo)])}",
        f"def gateComparedFields : List String := {llist(_compared_fields(gate))}",
        f"def gateComparisons : List String := {llist(_comparisons(gate))}",
        f"def gateCaughtExceptions : List String := {llist(_caught(gate))}",
        f"def hashedArgumentSources : List String := {llist(_hashed_sources(_fn_ast(ru.make_arguments_hash), fields))}",
        f"def hashReadInLoop : Bool := {'true' if _read_in_loop(hfc) else 'false'}",
        f"def hashBlockSize : Nat := {int(blocksize)}",
        f"def mainShape : List String := {llist(_main_shape(_fn_ast(rmain.main)))}",
    ]

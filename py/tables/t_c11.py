"""Tie A for C11: what the annotation / exclusion code says NOW (live objects first, ast scan for code shape)."""
import ast
import inspect
import warnings

from tables.util import lbool, llist, lstr

NAME = "C11"


def _fn(module, qual):
    """The ast.FunctionDef of `qual` ('f' or 'Class.method') in the module's source."""
    tree = ast.parse(inspect.getsource(module))
    parts = qual.split(".")
    body = tree.body
    node = None
    for p in parts:
        node = next(n for n in body if isinstance(n, (ast.FunctionDef, ast.AsyncFunctionDef, ast.ClassDef)) and n.name == p)
        body = node.body
    return node


def _calls(fn):
    """Called names in source order: 'f' for f(...), 'x.f' → 'f'; has_annotation carries its literal first argument."""
    out = []
    for n in sorted((n for n in ast.walk(fn) if isinstance(n, ast.Call)), key=lambda n: (n.lineno, n.col_offset)):
        f = n.func
        name = f.id if isinstance(f, ast.Name) else f.attr if isinstance(f, ast.Attribute) else None
        if name is None:
            continue
        if name == "has_annotation" and n.args and isinstance(n.args[0], ast.Constant):
            name += ":" + str(n.args[0].value)
        out.append(name)
    return out


def _isinstance_classes(fn, var):
    """Class names tested by `isinstance(<var>, X)` / `isinstance(<var>, (X, Y))`, in source order."""
    out = []
    for n in sorted((n for n in ast.walk(fn) if isinstance(n, ast.Call)), key=lambda n: (n.lineno, n.col_offset)):
        if isinstance(n.func, ast.Name) and n.func.id == "isinstance" and len(n.args) == 2 \
                and isinstance(n.args[0], ast.Name) and n.args[0].id == var:
            t = n.args[1]
            for e in (t.elts if isinstance(t, ast.Tuple) else [t]):
                out.append(e.attr if isinstance(e, ast.Attribute) else e.id)
    return out


CHECKS = ("has_annotation:rattr_ignore", "has_annotation:rattr_results", "is_excluded_name")


def tables():
    warnings.simplefilter("ignore")
    from rattr.analyser import cls as cls_mod
    from rattr.analyser import file as file_mod
    from rattr.analyser import util
    from rattr.results import _find_call_target as fct

    # live: the keys of the results dict and its defaults, from a bare `@rattr_results`
    fn = ast.parse("@rattr_results\ndef f():\n    pass\n").body[0]
    raw = util.parse_rattr_results_from_annotation_args_impl(fn)
    defaults = [type(v).__name__ + ":" + str(len(v)) for v in raw.values()]

    validate = _fn(util, "validate_rattr_results")
    set_keys = []
    for n in ast.walk(validate):
        if isinstance(n, ast.For) and isinstance(n.iter, ast.Tuple):
            set_keys = [e.value for e in n.iter.elts if isinstance(e, ast.Constant)]

    is_name = _fn(util, "is_name")
    prefixes = [n.args[0].value for n in sorted((n for n in ast.walk(is_name) if isinstance(n, ast.Call)), key=lambda n: (n.lineno, n.end_col_offset))
                if isinstance(n.func, ast.Attribute) and n.func.attr == "removeprefix"]

    as_name_src = inspect.getsource(util.parse_rattr_results_from_annotation)
    only = lambda calls: [c for c in calls if c in CHECKS]  # noqa: E731

    get_attrname = _fn(util, "get_attrname")

    # the substitution used for inlining (declared and analysed IRs alike): one dictionary lookup per name
    from rattr.results import _simplify_utils as su

    def _stmts(fn):
        body = fn.body
        if body and isinstance(body[0], ast.Expr) and isinstance(body[0].value, ast.Constant) and isinstance(body[0].value.value, str):
            body = body[1:]                       # docstring
        return [" ".join(ast.unparse(st).split()) for st in body]

    unbind_ir = _fn(su, "unbind_ir_with_call_swaps")
    shape = ["<not a single returned dict display>"]
    if len(unbind_ir.body) == 1 and isinstance(unbind_ir.body[0], ast.Return) and isinstance(unbind_ir.body[0].value, ast.Dict):
        d = unbind_ir.body[0].value
        shape = [(k.value if isinstance(k, ast.Constant) else "**") + " = " + ast.unparse(v) for k, v in zip(d.keys, d.values)]

    # how a name is held against the exclusion patterns: the body of `is_excluded_name` and the flags the
    # patterns are compiled with (live probe: a case / newline / verbose-sensitive pattern)
    from rattr.config import _types as cfg_types
    excl_body = _stmts(_fn(util, "is_excluded_name"))
    comp = cfg_types._cached_re_compile
    excl_flags = int(comp("a.b").flags)

    return [
        f"def isExcludedNameBody : List String := {llist(excl_body)}",
        f"def excludedPatternFlags : Nat := {excl_flags}",
        f"def unbindIrShape : List String := {llist(shape)}",
        f"def unbindIrParams : List String := {llist([a.arg for a in unbind_ir.args.args])}",
        f"def unbindNameBody : List String := {llist(_stmts(_fn(su, 'unbind_name')))}",
        f"def reRattrName : String := {lstr(util.re_rattr_name.pattern)}",
        f"def reRattrNameFlags : Nat := {int(util.re_rattr_name.flags)}",
        f"def isNamePrefixes : List String := {llist(prefixes)}",
        f"def resultKeys : List String := {llist(list(raw.keys()))}",
        f"def resultDefaults : List String := {llist(defaults)}",
        f"def validatedSetKeys : List String := {llist(set_keys)}",
        f"def safeEvalClasses : List String := {llist(_isinstance_classes(_fn(util, 'safe_eval'), 'expr'))}",
        f"def getAttrnameClasses : List String := {llist(_isinstance_classes(get_attrname, 'node'))}",
        f"def basenameExpr : Bool := {lbool('name.replace(\"*\", \"\").split(\".\")[0]' in as_name_src)}",
        f"def fnDefChecks : List String := {llist(only(_calls(_fn(file_mod, 'FileAnalyser.visit_AnyFunctionDef'))))}",
        f"def classDefChecks : List String := {llist(only(_calls(_fn(file_mod, 'FileAnalyser.visit_ClassDef'))))}",
        f"def lambdaAssignChecks : List String := {llist(only(_calls(_fn(file_mod, 'FileAnalyser.visit_LambdaAssign'))))}",
        f"def initialiserChecks : List String := {llist(only(_calls(_fn(cls_mod, 'ClassAnalyser.visit_initialiser'))))}",
        f"def staticMethodChecks : List String := {llist(only(_calls(_fn(cls_mod, 'ClassAnalyser.visit_static_method'))))}",
        f"def resolveFunctionChecks : List String := {llist(only(_calls(_fn(fct, 'resolve_function'))))}",
    ]

"""AST scan of the scopes of rattr/**.py that decide what happens to the `SystemExit` of a fatal
diagnostic and which file a diagnostic is counted for (C15). Used twice, so that the ids agree:
by the Tie A table (py/tables/t_c15.py -> Generated/C15.lean) and, at run time, by the harness
(py/props/c15scope.py) to name the scopes that are active when a diagnostic is raised.

A *scope* is
  * the body of a `with` item              id  "<file>::<function>::with <callee>#<k>"
  * the body of a `try` that has a handler able to catch SystemExit
                                            id  "<file>::<function>::except <type>#<k>"
(k = ordinal of that spelling inside the function, in source order). Verdicts are syntactic and
conservative: anything not recognised is `unknown:<why>`, which the Tie A theorem rejects.

    with-scope   propagates    the manager cannot discard an exception leaving the block
                 captures      contextlib.redirect_stderr: cannot discard; stderr is diverted
                 may-suppress  `__exit__` can return something other than None / False, or the
                               generator catches BaseException / SystemExit around its `yield`
    try-scope    reraises      every such handler ends in `raise` (or a call of a fatal / exit)
                 reraises-reemitting-captured-stderr
                               as `reraises`, and the handler has exactly the pinned shape that hands the
                               lines captured by the `with redirect_stderr(S)` of the try body back to
                               sys.stderr, except those of one message family, which it replaces by a
                               fatal of its own (see `capture_handler_shape`)
                 may-swallow   a handler can fall through
"""
from __future__ import annotations

import ast

from tables.diagscan import source_files

STDLIB_PROPAGATING = {"open", "redirect_stdout", "contextlib.redirect_stdout", "closing", "contextlib.closing",
                      "nullcontext", "contextlib.nullcontext"}
STDLIB_CAPTURING = {"redirect_stderr", "contextlib.redirect_stderr"}
STDLIB_SUPPRESSING = {"suppress", "contextlib.suppress"}
EXIT_CATCHERS = {"BaseException", "SystemExit"}


def _callee(expr):
    """Spelling of the thing called in a with-item (`a.b(...)` -> 'a.b'; a bare name -> itself)."""
    e = expr.func if isinstance(expr, ast.Call) else expr
    try:
        return ast.unparse(e)
    except Exception:  # pragma: no cover
        return "?"


def _is_falsy_const(e):
    return e is None or (isinstance(e, ast.Constant) and e.value in (None, False))


def _own_nodes(fn):
    """Nodes of a function body without those of nested defs / classes / lambdas."""
    todo = list(ast.iter_child_nodes(fn))
    while todo:
        n = todo.pop()
        yield n
        if isinstance(n, (ast.FunctionDef, ast.AsyncFunctionDef, ast.ClassDef, ast.Lambda)):
            continue
        todo.extend(ast.iter_child_nodes(n))


def handler_catches_exit(h: ast.ExceptHandler) -> bool:
    if h.type is None:
        return True
    types = h.type.elts if isinstance(h.type, ast.Tuple) else [h.type]
    for t in types:
        name = ast.unparse(t).split(".")[-1]
        if name in EXIT_CATCHERS:
            return True
    return False


def _ends_in_raise(body) -> bool:
    """Every path through the statement list ends by raising (syntactic, conservative)."""
    if not body:
        return False
    last = body[-1]
    if isinstance(last, ast.Raise):
        return True
    if isinstance(last, ast.Expr) and isinstance(last.value, ast.Call):
        f = ast.unparse(last.value.func)
        if f in ("error.fatal", "fatal", "sys.exit", "exit"):
            return True
    if isinstance(last, ast.If):
        return _ends_in_raise(last.body) and _ends_in_raise(last.orelse)
    return False


def capture_handler_shape(t: ast.Try):
    """The shape of rattr/analyser/util.py::parse_rattr_results_from_annotation_args_impl:

        try:
            with redirect_stderr(S): ...
        except SystemExit as exc:
            V = S.getvalue()
            for L in V.splitlines():
                if "<family>" in L:  F = True
                else:                print(L, file=sys.stderr)
            if F: error.fatal(...)
            raise exc

    -> (family text, unparsed emission statement, replacement callee) or None. Anything else in
    the handler than these four statements (e.g. a bare `print(L)`, no emission at all, a second
    loop) is not the shape."""
    streams = []
    for n in t.body:
        if isinstance(n, (ast.With, ast.AsyncWith)):
            for item in n.items:
                if _callee(item.context_expr) in STDLIB_CAPTURING and isinstance(item.context_expr, ast.Call) and item.context_expr.args:
                    streams.append(ast.unparse(item.context_expr.args[0]))
    if len(t.body) != 1 or len(streams) != 1 or len(t.handlers) != 1:
        return None
    h = t.handlers[0]
    if h.name is None or len(h.body) != 4:
        return None
    assign, loop, cond, rais = h.body
    if not (isinstance(assign, ast.Assign) and len(assign.targets) == 1 and isinstance(assign.targets[0], ast.Name)
            and ast.unparse(assign.value) == f"{streams[0]}.getvalue()"):
        return None
    text = assign.targets[0].id
    if not (isinstance(loop, ast.For) and isinstance(loop.target, ast.Name) and not loop.orelse
            and ast.unparse(loop.iter) == f"{text}.splitlines()" and len(loop.body) == 1 and isinstance(loop.body[0], ast.If)):
        return None
    var, branch = loop.target.id, loop.body[0]
    test = branch.test
    if not (isinstance(test, ast.Compare) and len(test.ops) == 1 and isinstance(test.ops[0], ast.In)
            and isinstance(test.left, ast.Constant) and isinstance(test.left.value, str)
            and isinstance(test.comparators[0], ast.Name) and test.comparators[0].id == var):
        return None
    if not (len(branch.body) == 1 and isinstance(branch.body[0], ast.Assign) and len(branch.body[0].targets) == 1
            and isinstance(branch.body[0].targets[0], ast.Name) and isinstance(branch.body[0].value, ast.Constant)
            and branch.body[0].value.value is True):
        return None
    flag = branch.body[0].targets[0].id
    if not (len(branch.orelse) == 1 and isinstance(branch.orelse[0], ast.Expr) and isinstance(branch.orelse[0].value, ast.Call)):
        return None
    emission = ast.unparse(branch.orelse[0])
    if not (isinstance(cond, ast.If) and isinstance(cond.test, ast.Name) and cond.test.id == flag and not cond.orelse
            and len(cond.body) == 1 and isinstance(cond.body[0], ast.Expr) and isinstance(cond.body[0].value, ast.Call)):
        return None
    replacement = ast.unparse(cond.body[0].value.func)
    if not (isinstance(rais, ast.Raise) and rais.exc is not None and ast.unparse(rais.exc) == h.name):
        return None
    return test.left.value, emission.replace(var, "LINE"), replacement


def class_exit_verdict(cls: ast.ClassDef) -> str:
    ex = [n for n in cls.body if isinstance(n, (ast.FunctionDef, ast.AsyncFunctionDef)) and n.name in ("__exit__", "__aexit__")]
    if not ex:
        return "unknown:no-__exit__-in-class-body"
    for fn in ex:
        for n in _own_nodes(fn):
            if isinstance(n, ast.Return) and not _is_falsy_const(n.value):
                return "may-suppress"
            if isinstance(n, (ast.Yield, ast.YieldFrom)):
                return "unknown:generator-__exit__"
    return "propagates"


def generator_cm_verdict(fn) -> str:
    """A function decorated with @contextmanager: an exception thrown in at `yield` is discarded
    only if the generator catches it and then finishes."""
    yields = [n for n in _own_nodes(fn) if isinstance(n, (ast.Yield, ast.YieldFrom))]
    if not yields:
        return "unknown:no-yield"
    for t in (n for n in _own_nodes(fn) if isinstance(n, ast.Try)):
        covered = {id(x) for s in t.body for x in ast.walk(s)}
        if not any(id(y) in covered for y in yields):
            continue
        for h in t.handlers:
            if handler_catches_exit(h) and not _ends_in_raise(h.body):
                return "may-suppress"
        for s in t.finalbody:
            for x in ast.walk(s):
                if isinstance(x, (ast.Return, ast.Break, ast.Continue)):
                    return "may-suppress"      # `return` in `finally` discards the exception
    return "propagates"


def generator_restores_on_exception(fn) -> bool:
    """Is every statement after the (single) `yield` inside a `finally` guarding the yield?"""
    for t in (n for n in _own_nodes(fn) if isinstance(n, ast.Try)):
        covered = {id(x) for s in t.body for x in ast.walk(s)}
        if any(isinstance(n, (ast.Yield, ast.YieldFrom)) and id(n) in covered for n in _own_nodes(fn)) and t.finalbody:
            return True
    return False


def _is_contextmanager(fn) -> bool:
    return any(ast.unparse(d).split(".")[-1] in ("contextmanager", "asynccontextmanager") for d in fn.decorator_list)


def manager_definitions():
    """name -> list of (file, kind, verdict) for every class with `__exit__` and every
    @contextmanager function defined in rattr/**.py."""
    out = {}
    for rel, src in source_files():
        tree = ast.parse(src)
        for n in ast.walk(tree):
            if isinstance(n, ast.ClassDef) and any(
                    isinstance(m, (ast.FunctionDef, ast.AsyncFunctionDef)) and m.name in ("__exit__", "__aexit__") for m in n.body):
                out.setdefault(n.name, []).append((rel, "class", class_exit_verdict(n)))
            elif isinstance(n, (ast.FunctionDef, ast.AsyncFunctionDef)) and _is_contextmanager(n):
                out.setdefault(n.name, []).append((rel, "generator", generator_cm_verdict(n)))
    return out


def callee_verdict(callee: str, defs) -> str:
    if callee in STDLIB_CAPTURING:
        return "captures"
    if callee in STDLIB_SUPPRESSING:
        return "may-suppress"
    if callee in STDLIB_PROPAGATING or callee.endswith(".open"):
        return "propagates"
    name = callee.split(".")[-1]
    ds = defs.get(name)
    if not ds:
        return "unknown:manager-not-defined-in-rattr"
    vs = {v for _, _, v in ds}
    if vs == {"propagates"}:
        return "propagates"
    if "may-suppress" in vs:
        return "may-suppress"
    return sorted(vs)[0]


class _FnScan(ast.NodeVisitor):
    def __init__(self, rel, defs, out):
        self.rel, self.defs, self.out = rel, defs, out
        self.stack = []
        self.counts = {}
        self.tries = []

    @property
    def where(self):
        return ".".join(self.stack) if self.stack else "<module>"

    def _enter(self, node):
        self.stack.append(node.name)
        saved, self.tries = self.tries, []      # a nested def does not run inside the outer try
        self.generic_visit(node)
        self.tries = saved
        self.stack.pop()

    visit_FunctionDef = visit_AsyncFunctionDef = visit_ClassDef = _enter

    def _id(self, label):
        key = (self.where, label)
        k = self.counts.get(key, 0)
        self.counts[key] = k + 1
        return f"{self.rel}::{self.where}::{label}#{k}"

    def _with(self, node):
        for item in node.items:
            callee = _callee(item.context_expr)
            self.out.append({
                "id": self._id("with " + callee), "file": self.rel, "function": self.where, "kind": "with",
                "what": callee, "verdict": callee_verdict(callee, self.defs), "enclosing_try": self.tries[-1] if self.tries else "",
                "first": node.body[0].lineno, "last": max(getattr(s, "end_lineno", s.lineno) for s in node.body),
                "arg": ast.unparse(item.context_expr.args[0]) if isinstance(item.context_expr, ast.Call) and item.context_expr.args else "",
            })
        self.generic_visit(node)

    visit_With = visit_AsyncWith = _with

    def visit_Try(self, node):
        catchers = [h for h in node.handlers if handler_catches_exit(h)]
        if catchers:
            what = "+".join(ast.unparse(h.type) if h.type is not None else "<bare>" for h in catchers)
            verdict = "reraises" if all(_ends_in_raise(h.body) for h in catchers) else "may-swallow"
            shape = capture_handler_shape(node)
            if verdict == "reraises" and shape is not None and shape[1] == "print(LINE, file=sys.stderr)" \
                    and shape[2] in ("error.fatal", "fatal"):
                verdict = "reraises-reemitting-captured-stderr"
            sid = self._id("except " + what)
            self.out.append({
                "id": sid, "file": self.rel, "function": self.where, "kind": "try",
                "what": what, "verdict": verdict, "enclosing_try": self.tries[-1] if self.tries else "",
                "first": node.body[0].lineno, "last": max(getattr(s, "end_lineno", s.lineno) for s in node.body),
                "handler_first": min(h.body[0].lineno for h in catchers),
                "handler_last": max(getattr(h.body[-1], "end_lineno", h.body[-1].lineno) for h in catchers),
                "shape": shape, "arg": "",
            })
            # only the try *body* is protected by the handlers
            self.tries.append(sid)
            for st in node.body:
                self.visit(st)
            self.tries.pop()
            for part in (node.handlers, node.orelse, node.finalbody):
                for st in part:
                    self.visit(st)
            return
        self.generic_visit(node)

    visit_TryStar = visit_Try


def scopes():
    """Every scope of rattr/**.py, in (file, source order)."""
    defs = manager_definitions()
    out = []
    for rel, src in source_files():
        _FnScan(rel, defs, out).visit(ast.parse(src))
    return out


ENTRY_CALLEES = ("compile_root_context", "FileAnalyser")


def analysis_entries():
    """Where the analysis of one file's AST starts: every call of `compile_root_context(...)` and
    every construction `FileAnalyser(...)`, with the argument of the innermost lexically enclosing
    `with enter_file(<arg>)` ('' if none): (file, function, call, enter_file argument).
    And every call of a function that holds such a call without an enclosing enter_file (same shape).
    """
    entries, bare_fns = [], set()
    per_file = {}
    for rel, src in source_files():
        tree = ast.parse(src)
        per_file[rel] = tree

    def scan(rel, tree, names, out):
        class V(ast.NodeVisitor):
            def __init__(self):
                self.fn = []
                self.files = []

            def _enter(self, node):
                self.fn.append(node.name)
                saved, self.files = self.files, []     # a nested def does not run inside the outer `with`
                self.generic_visit(node)
                self.files = saved
                self.fn.pop()

            visit_FunctionDef = visit_AsyncFunctionDef = visit_ClassDef = _enter

            def visit_With(self, node):
                pushed = 0
                for item in node.items:
                    self.visit(item.context_expr)
                    if _callee(item.context_expr).split(".")[-1] == "enter_file" and isinstance(item.context_expr, ast.Call):
                        a = item.context_expr.args
                        self.files.append(ast.unparse(a[0]) if a else "?")
                        pushed += 1
                for s in node.body:
                    self.visit(s)
                for _ in range(pushed):
                    self.files.pop()

            visit_AsyncWith = visit_With

            def visit_Call(self, node):
                name = _callee(node).split(".")[-1]
                if name in names and self.fn:
                    out.append((rel, ".".join(self.fn), ast.unparse(node), self.files[-1] if self.files else ""))
                self.generic_visit(node)

        V().visit(tree)

    for rel, tree in per_file.items():
        scan(rel, tree, set(ENTRY_CALLEES), entries)
    entries = [e for e in entries if not e[0].startswith("rattr/models/context/_root_context.py") or e[1] != "compile_root_context"]
    bare_fns = {e[1].split(".")[-1] for e in entries if e[3] == ""}
    callers = []
    for rel, tree in per_file.items():
        scan(rel, tree, bare_fns, callers)
    return sorted(entries), sorted(callers)


def enter_file_restores_on_exception() -> bool:
    for rel, src in source_files():
        if rel != "rattr/config/state.py":
            continue
        for n in ast.walk(ast.parse(src)):
            if isinstance(n, ast.FunctionDef) and n.name == "enter_file":
                return generator_restores_on_exception(n)
    raise ValueError("enter_file not found in rattr/config/state.py")

"""Tie A table for C02: WHAT OF THE DEFINITION NODE the function analyser reads.

The model `RattrModel/Callable.lean` states that `FunctionAnalyser.analyse()` (the analysed callable
itself) and `FunctionAnalyser.visit_AnyFunctionDef` (a nested def / lambda) read the parameter NAMES
and the body of the definition node and nothing else — never `args.defaults`, `args.kw_defaults`,
an `arg.annotation`, `returns`, `decorator_list`, `type_params`. This table reads that off the
source of the repo under test:

  * per function, the maximal attribute chains rooted at the variable that holds the definition
    node (`self.ast` in `analyse`, `node` in `visit_AnyFunctionDef` / `get_function_body`), with the
    root written `$`;
  * per function, the callees the WHOLE node is handed to (so a reader can see where else the node
    goes: `get_function_body`, the `token=` of a symbol, `Func.from_fn_def`, `error.error`);
  * the attribute names `CallInterface.from_arguments` touches on the `ast.arguments` object;
  * CPython's own field lists of `FunctionDef` / `Lambda` / `arguments` / `arg` (the interpreter
    the check runs under), so that the theorem can say which fields stay unread.
"""
import ast
import inspect
import textwrap

from tables.util import llist, lstr

NAME = "C02"


def _fn_ast(fn):
    """the function's BODY as a module (its own signature / annotations are not code it runs)."""
    return ast.Module(body=ast.parse(textwrap.dedent(inspect.getsource(fn))).body[0].body, type_ignores=[])


def _spell(n):
    if isinstance(n, ast.Name):
        return n.id
    if isinstance(n, ast.Attribute):
        b = _spell(n.value)
        return None if b is None else f"{b}.{n.attr}"
    return None


def chains(fn_ast, root):
    """maximal attribute chains spelled `root` or `root.…` in the function, root written `$`."""
    inner = set()
    found = []
    for n in ast.walk(fn_ast):
        if isinstance(n, ast.Attribute):
            inner.add(id(n.value))
    for n in ast.walk(fn_ast):
        if isinstance(n, (ast.Name, ast.Attribute)) and id(n) not in inner:
            s = _spell(n)
            if s is not None and (s == root or s.startswith(root + ".")):
                found.append("$" + s[len(root):])
    return sorted(set(found))


def escapes(fn_ast, root):
    """`callee(…root…)`: (callee spelling, positional index or keyword) for every call the whole node is an argument of."""
    out = []
    for n in ast.walk(fn_ast):
        if isinstance(n, ast.Call):
            callee = _spell(n.func) or "<expr>"
            for i, a in enumerate(n.args):
                if _spell(a) == root:
                    out.append(f"{callee}#{i}")
            for k in n.keywords:
                if _spell(k.value) == root:
                    out.append(f"{callee}#{k.arg}")
    return sorted(set(out))


def attrs(fn_ast):
    return sorted({n.attr for n in ast.walk(fn_ast) if isinstance(n, ast.Attribute)})


def free_names(fn):
    """identifiers a function READS that it does not bind itself (parameters, assignment / walrus / for / with targets,
    comprehension variables): what it takes from its module — helpers, singletons, any module-level STATE."""
    src = ast.parse(textwrap.dedent(inspect.getsource(fn))).body[0]
    bound = {a.arg for a in src.args.posonlyargs + src.args.args + src.args.kwonlyargs}
    bound |= {a.arg for a in (src.args.vararg, src.args.kwarg) if a is not None}
    loads = set()
    for n in ast.walk(ast.Module(body=src.body, type_ignores=[])):
        if isinstance(n, ast.Name):
            (loads if isinstance(n.ctx, ast.Load) else bound).add(n.id)
    return sorted(loads - bound)


def module_level_state(module):
    """identifiers the module's own top-level code binds by ASSIGNMENT (plain / annotated / augmented / walrus / for / with,
    also below if / try): everything that is not an import, a def or a class — i.e. objects created at import time that
    live as long as the process."""
    tree = ast.parse(inspect.getsource(module))
    out = set()

    def stmts(body):
        for st in body:
            if isinstance(st, (ast.FunctionDef, ast.AsyncFunctionDef, ast.ClassDef, ast.Import, ast.ImportFrom)):
                continue
            if isinstance(st, ast.Expr) and isinstance(st.value, ast.Constant):
                continue
            for f in ("body", "orelse", "finalbody"):
                stmts(getattr(st, f, []) or [])
            for h in getattr(st, "handlers", []) or []:
                stmts(h.body)
            heads = [st] if not hasattr(st, "body") else [getattr(st, "target", None)] + [i.optional_vars for i in getattr(st, "items", [])]
            for h in heads:
                if h is None:
                    continue
                for n in ast.walk(h):
                    if isinstance(n, ast.Name) and isinstance(n.ctx, ast.Store):
                        out.add(n.id)
    stmts(tree.body)
    return sorted(out)


def call_args(fn, callee):
    """the argument spellings of every call to `callee` inside `fn`."""
    out = []
    for n in ast.walk(_fn_ast(fn)):
        if isinstance(n, ast.Call) and _spell(n.func) == callee:
            out.append(", ".join([_spell(a) or "<expr>" for a in n.args] + [f"{k.arg}={_spell(k.value) or '<expr>'}" for k in n.keywords]))
    return sorted(out)


def tables():
    import rattr.analyser.function as function_module
    from rattr.analyser.function import FunctionAnalyser, custom_analyser_for_target
    from rattr.analyser.util import get_function_body
    from rattr.models.context import Context
    from rattr.models.symbol import CallInterface

    analyse = _fn_ast(FunctionAnalyser.analyse)
    nested = _fn_ast(FunctionAnalyser.visit_AnyFunctionDef)
    body = _fn_ast(get_function_body)
    add_args = _fn_ast(Context.add_arguments_to_context)
    from_args = _fn_ast(CallInterface.from_arguments.__func__)

    return [
        f"def analyseReads : List String := {llist(chains(analyse, 'self.ast'))}",
        f"def analyseEscapes : List String := {llist(escapes(analyse, 'self.ast'))}",
        f"def nestedReads : List String := {llist(chains(nested, 'node'))}",
        f"def nestedEscapes : List String := {llist(escapes(nested, 'node'))}",
        f"def functionBodyReads : List String := {llist(chains(body, 'node'))}",
        f"def addArgumentsReads : List String := {llist(chains(add_args, 'arguments'))}",
        f"def addArgumentsEscapes : List String := {llist(escapes(add_args, 'arguments'))}",
        f"def fromArgumentsReads : List String := {llist(chains(from_args, 'arguments'))}",
        f"def fromArgumentsAttrs : List String := {llist(attrs(from_args))}",
        f"def functionDefFields : List String := {llist(list(ast.FunctionDef._fields))}",
        f"def asyncFunctionDefFields : List String := {llist(list(ast.AsyncFunctionDef._fields))}",
        f"def lambdaFields : List String := {llist(list(ast.Lambda._fields))}",
        f"def argumentsFields : List String := {llist(list(ast.arguments._fields))}",
        f"def argFields : List String := {llist(list(ast.arg._fields))}",
        # which plug-in analyser handles a call: chosen from the call node and the CURRENT context, from nothing that
        # outlives the analysis of one callable (RattrModel `FnA.visit` / `C02.calleeAnalyser`)
        f"def customAnalyserFreeNames : List String := {llist(free_names(custom_analyser_for_target))}",
        f"def customAnalyserParams : List String := {llist([a.arg for a in ast.parse(textwrap.dedent(inspect.getsource(custom_analyser_for_target))).body[0].args.args])}",
        f"def customAnalyserCalledWith : List String := {llist(call_args(FunctionAnalyser.visit_Call, 'custom_analyser_for_target'))}",
        f"def functionModuleState : List String := {llist(module_level_state(function_module))}",
    ]

"""Tie A table of C14: every MEMOISED function of rattr.

The property holds over histories (several analyses / generations in one process) only because nothing that
builds or transforms IR objects is memoised: every analysis builds fresh FileIr objects, and `unbind_name` builds a
fresh `Name` (carrying the location of the symbol it is given) on every call. A `Name`'s equality ignores its
location and FileIr objects are mutated in place by result generation, so a cache in front of either silently
changes what the IR says. The table lists (file, qualified function name, decorator) of every function under rattr/
that carries a caching decorator; the model's allow-list (`Rattr.Provenance.pureMemo`) says for each why it is safe.
"""
import ast
from pathlib import Path

from tables.util import lstr

NAME = "C14"

CACHING = ("cache", "memo", "once")


def deco_name(d):
    if isinstance(d, ast.Call):
        d = d.func
    parts = []
    while isinstance(d, ast.Attribute):
        parts.append(d.attr)
        d = d.value
    if isinstance(d, ast.Name):
        parts.append(d.id)
    return ".".join(reversed(parts))


def scan():
    import rattr
    root = Path(rattr.__file__).resolve().parent
    rows = []
    n_files = 0
    for f in sorted(root.rglob("*.py")):
        rel = "rattr/" + str(f.relative_to(root))
        tree = ast.parse(f.read_text())
        n_files += 1

        def walk(node, prefix):
            for ch in ast.iter_child_nodes(node):
                if isinstance(ch, (ast.FunctionDef, ast.AsyncFunctionDef)):
                    q = prefix + ch.name
                    for d in ch.decorator_list:
                        dn = deco_name(d)
                        if any(k in dn.lower() for k in CACHING):
                            rows.append((rel, q, dn))
                    walk(ch, q + ".")
                elif isinstance(ch, ast.ClassDef):
                    walk(ch, prefix + ch.name + ".")
                else:
                    walk(ch, prefix)

        walk(tree, "")
    if n_files < 40:
        raise ValueError("implausibly few source files scanned")
    # module-level `name = cache(fn)` / `functools.cache(...)` wrappers
    for f in sorted(root.rglob("*.py")):
        rel = "rattr/" + str(f.relative_to(root))
        for node in ast.walk(ast.parse(f.read_text())):
            if isinstance(node, ast.Assign) and isinstance(node.value, ast.Call):
                dn = deco_name(node.value.func)
                if dn.split(".")[-1] in ("cache", "lru_cache") and node.value.args:
                    tgt = node.targets[0]
                    rows.append((rel, getattr(tgt, "id", ast.dump(tgt)[:30]), dn + "(…)"))
    return sorted(set(rows))


def tables():
    rows = scan()
    if len(rows) < 5:
        raise ValueError("memoised-function scan found implausibly few functions")
    return [
        "/-- every function under rattr/ that carries a caching decorator: (file, qualified name, decorator) -/",
        "def memoised : List (String × String × String) := [\n  "
        + ",\n  ".join(f"({lstr(a)}, {lstr(b)}, {lstr(c)})" for a, b, c in rows) + "]",
    ]

"""Tie A for C18: what the serialisation hooks of the working tree say now.

* symbol type tags     — the tuple `__symbols` of `_serialisation_helpers` (class names)
* the `any` sentinel   — a probe serialisation of `AnyCallInterface()`
* field names per class, in emission order — probe serialisations of one instance of every class
  (`json.loads(..., object_pairs_hook=...)` keeps the order the bytes have)
* every `sorted(` call of `_serialisation_helpers.py` with its enclosing function and its key
  (ast scan), the attribute `Symbol.__lt__` compares (ast scan), and the key
  `make_cacheable_import_info` sorts on.
* where the ORDER of `import_irs` comes from (ast scan of `rattr/analyser/file.py`): what the BFS queue is
  initialised with and what is appended to it (local names resolved to the expression they are bound to,
  a loop variable to the iterable of its loop), what `SymbolTable.symbols` returns and what `_symbols` is,
  how `import_irs` is created and assigned; `serialise_irs` contains no `sorted(` and a probe document
  keeps the insertion order of `import_irs`; what `make_cacheable_import_info` collects into what.
"""
import ast
import inspect
import json
from pathlib import Path

from tables.util import llist, lstr

NAME = "C18"


def _keys(doc):
    return [k for k, _ in doc]


def _pairs(s):
    return json.loads(s, object_pairs_hook=lambda kv: kv)


def _get(doc, key):
    for k, v in doc:
        if k == key:
            return v
    raise KeyError(key)


def _sorted_calls(tree):
    """(enclosing function, key description) for every `sorted(...)` call, in source order."""
    out = []

    def part_desc(b):
        if isinstance(b, ast.Subscript) and isinstance(b.slice, ast.Constant):
            return f"item:{b.slice.value}"
        if isinstance(b, ast.Attribute):
            return f"attr:{b.attr}"
        if isinstance(b, ast.Call):
            kws = ",".join(f"{k.arg}={ast.unparse(k.value)}" for k in b.keywords)
            args = ",".join(ast.unparse(a) for a in b.args)
            return f"call:{ast.unparse(b.func)}({args}{';' + kws if kws else ''})"
        return "other:" + ast.unparse(b)

    def key_desc(call):
        for kw in call.keywords:
            if kw.arg == "key":
                v = kw.value
                if isinstance(v, ast.Lambda):
                    b = v.body
                    if isinstance(b, ast.Tuple):
                        return "tuple:" + "|".join(part_desc(e) for e in b.elts)
                    return part_desc(b)
                return "other:" + ast.unparse(v)
        return "natural"

    def walk(node, fn):
        for child in ast.iter_child_nodes(node):
            f = fn
            if isinstance(child, (ast.FunctionDef, ast.AsyncFunctionDef)):
                f = child.name
            if isinstance(child, ast.Call) and isinstance(child.func, ast.Name) and child.func.id == "sorted":
                arg = ast.unparse(child.args[0]) if child.args else ""
                what = "keys" if arg.endswith(".keys()") else ("unstructured" if "unstructure" in arg else "values")
                out.append((f, what + "/" + key_desc(child), child.lineno, child.col_offset))
            walk(child, f)

    walk(tree, "<module>")
    out.sort(key=lambda t: (t[2], t[3]))
    return [(a, b) for a, b, _, _ in out]


def _iter_desc(fn, expr, depth=0):
    """Where the elements of an iterable expression come from: a local name bound once is replaced by the
    expression it is bound to, a comprehension by `<kind>[elt]:<iter>|<conditions>`."""
    U = ast.unparse
    if isinstance(expr, ast.Name) and depth < 4:
        defs = [n for n in ast.walk(fn) if isinstance(n, ast.Assign) and len(n.targets) == 1
                and isinstance(n.targets[0], ast.Name) and n.targets[0].id == expr.id]
        if len(defs) == 1:
            return _iter_desc(fn, defs[0].value, depth + 1)
        if expr.id in [a.arg for a in fn.args.args]:
            return f"param:{expr.id}"
        return f"name:{expr.id}/{len(defs)}-defs"
    if isinstance(expr, (ast.ListComp, ast.GeneratorExp, ast.SetComp)):
        kind = {ast.ListComp: "listcomp", ast.GeneratorExp: "genexp", ast.SetComp: "setcomp"}[type(expr)]
        gens = ";".join(f"{U(g.iter)}|{'&'.join(U(i) for i in g.ifs)}" for g in expr.generators)
        return f"{kind}[{U(expr.elt)}]:{gens}"
    if isinstance(expr, ast.Call):
        return f"call:{U(expr.func)}(" + ",".join(_iter_desc(fn, a, depth + 1) for a in expr.args) + ")"
    return "expr:" + U(expr)


def _import_queue(tree):
    """(event, description) in source order for `parse_and_analyse_imports` and its caller."""
    U = ast.unparse
    fns = {n.name: n for n in ast.walk(tree) if isinstance(n, ast.FunctionDef)}
    f = fns["parse_and_analyse_imports"]
    out = []

    class V(ast.NodeVisitor):
        def __init__(self):
            self.loops = []

        def visit_For(self, n):
            self.loops.append(n)
            self.generic_visit(n)
            self.loops.pop()

        def visit_Assign(self, n):
            t = n.targets[0]
            if U(t) == "queue":
                out.append((n.lineno, "queue:init", _iter_desc(f, n.value)))
            if isinstance(t, ast.Subscript) and U(t.value) == "import_irs":
                out.append((n.lineno, "import_irs:store", U(n)))
            self.generic_visit(n)

        def visit_AnnAssign(self, n):
            if U(n.target) == "import_irs":
                out.append((n.lineno, "import_irs:init", U(n.value)))
            self.generic_visit(n)

        def visit_Call(self, n):
            if isinstance(n.func, ast.Attribute) and U(n.func.value) in ("queue", "import_irs"):
                m, obj = n.func.attr, U(n.func.value)
                if obj == "queue" and n.args:
                    arg = n.args[-1]
                    d = _iter_desc(f, arg)
                    for lp in reversed(self.loops):
                        if isinstance(arg, ast.Name) and U(lp.target) == arg.id:
                            d = "for:" + _iter_desc(f, lp.iter)
                            break
                    out.append((n.lineno, f"queue:{m}", d))
                else:
                    out.append((n.lineno, f"{obj}:{m}", ""))
            self.generic_visit(n)

    V().visit(f)
    g = fns["__parse_and_analyse_file_impl"]
    for node in ast.walk(g):
        if isinstance(node, ast.Call) and U(node.func) == "parse_and_analyse_imports":
            out.append((node.lineno, "caller:imports", _iter_desc(g, node.args[0])))
    # every other mention of `import_irs` that could reorder it (sorted / reversed / dict(...) rebuilds)
    for node in ast.walk(f):
        if isinstance(node, ast.Return):
            out.append((node.lineno, "return", U(node.value)))
    out.sort()
    return [(a, b) for _, a, b in out]


def tables():
    import impl  # noqa: F401  (reset_config)
    from rattr.models.context import Context
    from rattr.models.ir import FileIr
    from rattr.models.results import FileResults
    from rattr.models.results.cacheable import CacheableImportInfo, CacheableResults
    from rattr.models.symbol import (AnyCallInterface, Builtin, Call, CallArguments, CallInterface, Class, Func,
                                     Import, Location, Name, Symbol)
    from rattr.models.util import _serialisation_helpers as sh
    from rattr.models.util import serialise, serialise_irs
    from rattr.models.results import util as rutil
    import rattr.models.symbol._symbol as symmod

    impl.reset_config()
    tags = [c.__name__ for c in sh.__dict__["__symbols"]]
    any_doc = json.loads(serialise(AnyCallInterface()))
    assert isinstance(any_doc, str), any_doc

    loc = Location(lineno=1, col_offset=2, end_lineno=3, end_col_offset=4, file=Path("f.py"))
    ci = CallInterface(posonlyargs=["p"], args=["a"], vararg="v", kwonlyargs=["k"], kwarg="w")
    func = Func(name="fn", location=loc, interface=ci, is_async=True)
    insts = {
        "Name": Name(name="a.b", basename="a", location=loc, interface=ci),
        "Builtin": Builtin(name="print", location=loc),
        "Import": Import(name="m", qualified_name="pkg.m", location=loc),
        "Func": func,
        "Class": Class(name="C", location=loc, interface=ci),
        "Call": Call(name="fn", args=CallArguments(args=["x"], kwargs={"k": "y"}), target=func, location=loc),
    }
    decls = [f"def symbolTags : List String := {llist(tags)}",
             f"def anySentinel : String := {lstr(any_doc)}"]
    for t in tags:
        doc = _pairs(serialise(insts[t]))
        decls.append(f"def fields{t} : List String := {llist(_keys(doc))}")
        if t == "Name":
            decls.append(f"def fieldsLocation : List String := {llist(_keys(_get(doc, 'location')))}")
            decls.append(f"def fieldsIface : List String := {llist(_keys(_get(doc, 'interface')))}")
        if t == "Call":
            decls.append(f"def fieldsCallArgs : List String := {llist(_keys(_get(doc, 'args')))}")
            decls.append(f"def callTargetTag : String := {lstr(_get(_get(doc, 'target'), 'type'))}")

    ctx = Context(parent=Context(parent=None, file=Path("f.py")), file=Path("f.py"))
    ctx.symbol_table.add(func)
    from rattr.models.ir import FunctionIr
    fir = FileIr(context=ctx, file_ir={func: FunctionIr.new(gets=[insts["Name"]], calls=[insts["Call"]])})
    doc = _pairs(serialise(fir))
    decls.append(f"def fieldsFileIr : List String := {llist(_keys(doc))}")
    decls.append(f"def fieldsContext : List String := {llist(_keys(_get(doc, 'context')))}")
    decls.append(f"def fieldsFnIr : List String := {llist(_keys(_get(_get(doc, 'function_irs'), 'fn')))}")
    out = _pairs(serialise_irs(target_name="t.py", target_ir=fir, import_irs={"m": fir}))
    decls.append(f"def fieldsOutputIrs : List String := {llist(_keys(out))}")
    decls.append(f"def fieldsTargetIr : List String := {llist(_keys(_get(out, 'target_ir')))}")

    from rattr.models.results import FunctionResults
    res = FileResults({"fn": FunctionResults.new(gets=["a"], sets=["b"], dels=["c"], calls=["d()"])})
    rdoc = _pairs(serialise(res))
    decls.append(f"def fieldsFnResults : List String := {llist(_keys(_get(rdoc, 'fn')))}")
    cache = CacheableResults(version="v", arguments_hash="a", plugins_hash="p", filepath="t.py", filehash="h",
                             imports=[CacheableImportInfo(filepath="m.py", filehash="mh")], results=res)
    cdoc = _pairs(serialise(cache))
    decls.append(f"def fieldsCacheable : List String := {llist(_keys(cdoc))}")
    decls.append(f"def fieldsImportInfo : List String := {llist(_keys(_get(cdoc, 'imports')[0]))}")

    tree = ast.parse(Path(inspect.getsourcefile(sh)).read_text())
    calls = _sorted_calls(tree)
    pair = lambda p: f"({lstr(p[0])}, {lstr(p[1])})"  # noqa: E731
    # what json.dumps(…, sort_keys=True) prints (separators, key order, escapes): a probe value
    probe = {"b": [1, "x\"y", None, True], "a": {"d": -2, "c": "é"}}
    decls.append(f"def dumpsProbe : String := {lstr(json.dumps(probe, sort_keys=True))}")
    decls.append(f"def sortedCalls : List (String × String) := {llist(calls, pair)}")

    # Symbol.__lt__: which attribute is compared
    stree = ast.parse(Path(inspect.getsourcefile(symmod)).read_text())
    lt_attr = "?"
    for node in ast.walk(stree):
        if isinstance(node, ast.ClassDef) and node.name == "Symbol":
            for fn in node.body:
                if isinstance(fn, ast.FunctionDef) and fn.name == "__lt__":
                    for r in ast.walk(fn):
                        if isinstance(r, ast.Compare) and isinstance(r.ops[0], ast.Lt) \
                                and isinstance(r.left, ast.Attribute) and isinstance(r.comparators[0], ast.Attribute):
                            lt_attr = f"{r.left.attr}<{r.comparators[0].attr}"
    decls.append(f"def symbolLtCompares : String := {lstr(lt_attr)}")

    # ---- the order of import_irs
    import rattr.analyser.file as afile
    import rattr.models.context._symbol_table as stmod
    import rattr.models.util.serialise as sermod
    decls.append(f"def importQueue : List (String × String) := "
                 f"{llist(_import_queue(ast.parse(Path(inspect.getsourcefile(afile)).read_text())), pair)}")
    sttree = ast.parse(Path(inspect.getsourcefile(stmod)).read_text())
    symtab = []
    for node in ast.walk(sttree):
        if isinstance(node, ast.ClassDef) and node.name == "SymbolTable":
            for st in node.body:
                if isinstance(st, ast.AnnAssign) and ast.unparse(st.target) == "_symbols":
                    symtab.append(("_symbols", ast.unparse(st.annotation) + " = " + ast.unparse(st.value)))
                if isinstance(st, ast.FunctionDef) and st.name == "symbols":
                    symtab.append(("symbols", "; ".join(ast.unparse(x) for x in st.body)))
                if isinstance(st, ast.FunctionDef) and st.name == "__setitem__":
                    symtab.append(("__setitem__", "; ".join(ast.unparse(x) for x in st.body
                                                            if not isinstance(x, ast.Expr) or not isinstance(x.value, ast.Constant))))
    decls.append(f"def symbolTableOrder : List (String × String) := {llist(symtab, pair)}")
    sertree = ast.parse(Path(inspect.getsourcefile(sermod)).read_text())
    decls.append(f"def serialiseIrsSortedCalls : List (String × String) := "
                 f"{llist([c for c in _sorted_calls(sertree)], pair)}")
    probe_irs = _pairs(serialise_irs(target_name="t.py", target_ir=fir, import_irs={"zz": fir, "aa": fir, "mm": fir}))
    decls.append(f"def importIrsProbeKeys : List String := {llist(_keys(_get(probe_irs, 'import_irs')))}")

    rtree = ast.parse(Path(inspect.getsourcefile(rutil)).read_text())
    ci = []
    for node in ast.walk(rtree):
        if isinstance(node, ast.FunctionDef) and node.name == "make_cacheable_import_info":
            for r in ast.walk(node):
                if isinstance(r, ast.Assign) and ast.unparse(r.targets[0]) == "contexts":
                    ci.append(("contexts", ast.unparse(r.value)))
                if isinstance(r, ast.Call) and isinstance(r.func, ast.Name) and r.func.id == "sorted":
                    a = r.args[0]
                    kind = {ast.SetComp: "setcomp", ast.ListComp: "listcomp", ast.GeneratorExp: "genexp"}.get(type(a), "other")
                    gens = ";".join(ast.unparse(g.iter) for g in getattr(a, "generators", []))
                    ci.append(("sorted-arg", f"{kind}:{gens}"))
                    ci.append(("filters", str(sum(len(g.ifs) for g in getattr(a, "generators", [])))))
    decls.append(f"def cacheImportInfo : List (String × String) := {llist(ci, pair)}")
    decls.append(f"def cacheImportsSorted : List (String × String) := "
                 f"{llist([c for c in _sorted_calls(rtree) if c[0] == 'make_cacheable_import_info'], pair)}")
    # ---- the sort key of the cache document's `imports`, in full: the key expression as written, how a
    # member is made (`from_file`), which fields a member has / compares / hashes on, and how the key type
    # orders (a probe: `Path` compares component-wise, and a link is not resolved by comparing)
    import attrs
    import rattr.models.results.cacheable as cmod
    sk = []
    for node in ast.walk(rtree):
        if isinstance(node, ast.FunctionDef) and node.name == "make_cacheable_import_info":
            for r in ast.walk(node):
                if isinstance(r, ast.Call) and isinstance(r.func, ast.Name) and r.func.id == "sorted":
                    sk.append(("sorted-keywords", ",".join(sorted(k.arg or "**" for k in r.keywords))))
                    for k in r.keywords:
                        if k.arg == "key":
                            sk.append(("key", ast.unparse(k.value)))
                    a = r.args[0]
                    sk.append(("member", ast.unparse(getattr(a, "elt", a))))
    ctree = ast.parse(Path(inspect.getsourcefile(cmod)).read_text())
    for node in ast.walk(ctree):
        if isinstance(node, ast.ClassDef) and node.name == "CacheableImportInfo":
            sk.append(("class-decorators", ",".join(ast.unparse(d) for d in node.decorator_list)))
            for st in node.body:
                if isinstance(st, ast.AnnAssign):
                    sk.append(("field:" + ast.unparse(st.target), ast.unparse(st.annotation) + " = " + ast.unparse(st.value)))
                if isinstance(st, ast.FunctionDef) and st.name == "from_file":
                    sk.append(("from_file", "; ".join(ast.unparse(x) for x in st.body)))
    flds = attrs.fields(CacheableImportInfo)
    sk.append(("eq-fields", ",".join(f.name for f in flds if f.eq)))
    sk.append(("hash-fields", ",".join(f.name for f in flds if (f.hash if f.hash is not None else f.eq))))
    probe_paths = ["r/a/c.py", "r/a.x/c.py", "r/a-b/c.py", "r/a/B.py", "r/A/c.py", "r/a_b/c.py", "frozen", "/abs/z.py"]
    infos = [CacheableImportInfo(filepath=p, filehash="h") for p in probe_paths]
    sk.append(("probe:recorded", "|".join(str(i.filepath) for i in infos[:2] + [CacheableImportInfo(filepath="l/../m.py")])))
    sk.append(("probe:order", "|".join(str(i.filepath) for i in sorted(infos, key=lambda info: info.filepath))))
    decls.append(f"def cacheSortKey : List (String × String) := {llist(sk, pair)}")
    return decls

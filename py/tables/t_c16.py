"""Tie A tables of C16: the warning-level -> flags table, the -w choices, and every code location
that can observe a verbosity / path-formatting option."""
from tables.util import llist, lstr
from tables.diagscan import verbosity_readers, diagnostic_sites, diagnostic_site_args

NAME = "C16"


def tables():
    from rattr.config import Arguments
    from rattr.config._types import ShowWarnings, FormatPath
    from rattr.cli.parser import make_cli_parser

    parser = make_cli_parser()
    act = [a for a in parser._actions if a.dest == "_warning_level"]
    if len(act) != 1:
        raise ValueError("-w option not found")
    choices = list(act[0].choices)
    default = act[0].default
    flags = [f.name for f in ShowWarnings]
    rows = []
    for lit in choices:
        a = Arguments()
        a._warning_level = lit
        v = a.show_warnings
        rows.append((lit, [f.name for f in ShowWarnings if f in v]))
    ht = []
    for h in (False, True):
        for t in (False, True):
            a = Arguments()
            a.collapse_home, a.truncate_deep_paths = h, t
            ht.append((h, t, [f.name for f in FormatPath if f in a.format_path]))
    readers = verbosity_readers()
    if not readers:
        raise ValueError("verbosity reader scan found nothing")
    sites = [x for x in diagnostic_sites() if x["file"] != "rattr/error/error.py"]
    if len(sites) < 20:
        raise ValueError("diagnostic call-site scan found implausibly few calls")
    args = [x for x in diagnostic_site_args() if x["file"] != "rattr/error/error.py"]
    if [(x["file"], x["fn"], x["level"], x["k"]) for x in args] != [(x["file"], x["fn"], x["level"], x["k"]) for x in sites]:
        raise ValueError("the two diagnostic call-site scans disagree")
    cache_fns = {("rattr/__main__.py", "main"), ("rattr/__main__.py", "write_cache_file"),
                 ("rattr/models/results/util.py", "target_cache_file_is_up_to_date")}
    gate_shape = [f"{x['fn']}:{x['level']}:{x['nargs']}:{x['keywords']}" for x in args if (x["file"], x["fn"]) in cache_fns]
    return [
        f"def warnChoices : List String := {llist(choices)}",
        f"def warnDefault : String := {lstr(default)}",
        f"def showFlags : List String := {llist(flags)}",
        "/-- `Arguments.show_warnings` evaluated on each `-w` choice -/",
        "def showWarnings : List (String × List String) := ["
        + ", ".join(f"({lstr(l)}, {llist(fs)})" for l, fs in rows) + "]",
        "/-- `Arguments.format_path` evaluated on (collapse_home, truncate_deep_paths) -/",
        "def formatPath : List (Bool × Bool × List String) := ["
        + ", ".join(f"({str(h).lower()}, {str(t).lower()}, {llist(fs)})" for h, t, fs in ht) + "]",
        "/-- every (file, enclosing function) in rattr/ that mentions a verbosity / path-format option or a renderer -/",
        "def verbosityReaders : List (String × String) := ["
        + ",\n  ".join(f"({lstr(f)}, {lstr(fn)})" for f, fn in readers) + "]",
        "/-- every call of a level function outside rattr/error/error.py: (file, enclosing function, level, k) with k numbering the calls of that level in that function in source order -/",
        "def diagSites : List (String × String × String × Nat) := ["
        + ",\n  ".join(f"({lstr(x['file'])}, {lstr(x['fn'])}, {lstr(x['level'])}, {x['k']})" for x in sites) + "]",
        "/-- the CULPRIT argument of every such call (second positional argument or keyword `culprit`): its source text, \"\" when there is none (or the literal None) -/",
        "def siteCulprits : List ((String × String × String × Nat) × String) := ["
        + ",\n  ".join(f"(({lstr(x['file'])}, {lstr(x['fn'])}, {lstr(x['level'])}, {x['k']}), {lstr(x['culprit'])})" for x in args) + "]",
        "/-- the level-function calls of `main`, `write_cache_file` and `target_cache_file_is_up_to_date` in source order: function:level:#positional:keywords -/",
        f"def cacheGateShape : List String := {llist(gate_shape)}",
    ]

"""Tie A tables of C15: default badness per level, call sites that override it."""
import inspect
import sys

from tables.util import lstr
from tables.diagscan import LEVELS, diagnostic_calls

NAME = "C15"


def tables():
    import rattr.error  # noqa
    mod = sys.modules["rattr.error.error"]
    defaults = []
    for lvl in LEVELS:
        d = inspect.signature(mod.__dict__[lvl]).parameters["badness"].default
        if not isinstance(d, int) or isinstance(d, bool) or d < 0:
            raise ValueError(f"default badness of {lvl} is {d!r}")
        defaults.append((lvl, d))
    calls = diagnostic_calls()
    if len(calls) < 20:
        raise ValueError("diagnostic call-site scan found implausibly few calls")
    overrides = sorted((f, fn, lvl, b) for f, fn, lvl, b in calls if b is not None)
    per_level = {l: sum(1 for c in calls if c[2] == l) for l in LEVELS}
    return [
        "/-- `inspect.signature(rattr.error.error.<level>).parameters['badness'].default` -/",
        "def diagDefaults : List (String × Nat) := ["
        + ", ".join(f"({lstr(l)}, {d})" for l, d in defaults) + "]",
        "/-- every call of a level function that passes `badness` explicitly: (file, enclosing function, level, expression) -/",
        "def diagOverrides : List (String × String × String × String) := ["
        + ", ".join(f"({lstr(f)}, {lstr(fn)}, {lstr(l)}, {lstr(b)})" for f, fn, l, b in overrides) + "]",
        "/-- number of call sites per level found by the scan (reach of the scan, not used by theorems) -/",
        "def diagCallSites : List (String × Nat) := ["
        + ", ".join(f"({lstr(l)}, {per_level[l]})" for l in LEVELS) + "]",
    ]

"""Tie A tables of C15: default badness per level, call sites that override it."""
import inspect
import sys

from tables.util import lstr, lbool
from tables.diagscan import LEVELS, diagnostic_calls
from tables import scopescan

NAME = "C15"


def tables():
    import rattr.error  # noqa
    mod = sys.modules["rattr.error.error"]
    defaults = []
    for lvl in LEVELS:
        d = inspect.signature(mod.__dict__[lvl]).parameters["badness"].default
        if not isinstance(d, int) or isinstance(d, bool) or d < 0:
            raise ValueError(f"default badness of {lvl} is {d!r}")
        defaults.append((lvl, d))
    calls = diagnostic_calls()
    if len(calls) < 20:
        raise ValueError("diagnostic call-site scan found implausibly few calls")
    overrides = sorted((f, fn, lvl, b) for f, fn, lvl, b in calls if b is not None)
    per_level = {l: sum(1 for c in calls if c[2] == l) for l in LEVELS}
    return [
        "/-- `inspect.signature(rattr.error.error.<level>).parameters['badness'].default` -/",
        "def diagDefaults : List (String × Nat) := ["
        + ", ".join(f"({lstr(l)}, {d})" for l, d in defaults) + "]",
        "/-- every call of a level function that passes `badness` explicitly: (file, enclosing function, level, expression) -/",
        "def diagOverrides : List (String × String × String × String) := ["
        + ", ".join(f"({lstr(f)}, {lstr(fn)}, {lstr(l)}, {lstr(b)})" for f, fn, l, b in overrides) + "]",
        "/-- number of call sites per level found by the scan (reach of the scan, not used by theorems) -/",
        "def diagCallSites : List (String × Nat) := ["
        + ", ".join(f"({lstr(l)}, {per_level[l]})" for l in LEVELS) + "]",
    ] + scope_tables() + current_file_tables(calls)


SITE_FUNCTIONS = (("rattr/analyser/file.py", "parse_and_analyse_imports"),
                  ("rattr/results/_find_call_target.py", "resolve_import"))


def current_file_tables(calls):
    """Round 4: where `state.current_file` can change (every `with enter_file(..)` item, every other mention of
    `enter_file`, every store to an attribute `current_file`), and the level-function calls of the two
    import-following loops in source order with their explicit `badness` argument."""
    import ast
    from tables.diagscan import source_files

    def q(t):
        return "(" + ", ".join(lstr(x) for x in t) + ")"

    sc = scopescan.scopes()
    enters = [(s["file"], s["function"], s["arg"]) for s in sc
              if s["kind"] == "with" and s["what"].split(".")[-1] == "enter_file"]
    writers, other = [], []
    for rel, src in source_files():
        tree = ast.parse(src)
        with_callees = set()
        for node in ast.walk(tree):
            if isinstance(node, (ast.With, ast.AsyncWith)):
                for item in node.items:
                    if isinstance(item.context_expr, ast.Call):
                        with_callees.add(id(item.context_expr.func))
        stack = []

        def visit(node):
            named = isinstance(node, (ast.FunctionDef, ast.AsyncFunctionDef, ast.ClassDef))
            if named:
                stack.append(node.name)
            where = ".".join(stack) if stack else "<module>"
            if isinstance(node, ast.Attribute) and node.attr == "current_file" and isinstance(node.ctx, (ast.Store, ast.Del)):
                writers.append((rel, where))
            if isinstance(node, ast.Call) and isinstance(node.func, ast.Name) and node.func.id in ("setattr", "delattr") \
                    and len(node.args) >= 2 and not (isinstance(node.args[1], ast.Constant) and node.args[1].value != "current_file"):
                writers.append((rel, where + ":" + node.func.id))
            if ((isinstance(node, ast.Name) and node.id == "enter_file") or (isinstance(node, ast.Attribute) and node.attr == "enter_file")) \
                    and id(node) not in with_callees:
                other.append((rel, where))
            if isinstance(node, (ast.FunctionDef, ast.AsyncFunctionDef)) and node.name == "enter_file" and rel != "rattr/config/state.py":
                other.append((rel, where))
            for ch in ast.iter_child_nodes(node):
                visit(ch)
            if named:
                stack.pop()

        visit(tree)
    if ("rattr/config/state.py", "enter_file") not in writers:
        raise ValueError("the scan no longer finds the stores of enter_file itself")
    site_calls = [(f, fn, lvl, b or "") for f, fn, lvl, b in calls if (f, fn) in SITE_FUNCTIONS]
    for key in SITE_FUNCTIONS:
        if not any((f, fn) == key for f, fn, _, _ in site_calls):
            raise ValueError(f"no diagnostic call found in {key}")
    return [
        "/-- every `with enter_file(..)` item of rattr/**.py: (file, function, argument) -/",
        "def enterFileSites : List (String × String × String) := [\n  " + ",\n  ".join(q(e) for e in enters) + "]",
        "/-- every other mention of `enter_file` (a call outside a `with` item, an alias, a second definition): (file, function) -/",
        "def enterFileOtherUses : List (String × String) := [" + ", ".join(q(e) for e in other) + "]",
        "/-- every store to an attribute `current_file` (and every setattr / delattr with a non-constant or that name): (file, function) -/",
        "def currentFileWriters : List (String × String) := [" + ", ".join(q(e) for e in writers) + "]",
        "/-- the level-function calls of the import walk's loop and of the simplifier's import resolution, in source order:"
        " (file, function, level, explicit badness expression or \"\") -/",
        "def siteCalls : List (String × String × String × String) := [\n  " + ",\n  ".join(q(e) for e in site_calls) + "]",
    ]


def scope_tables():
    """Source facts about what can happen to the SystemExit of a fatal diagnostic and about which
    file is current while a file's AST is analysed (see tables/scopescan.py)."""
    scopes = scopescan.scopes()
    if len(scopes) < 8 or not any(s["what"].endswith("DictChanges") for s in scopes):
        raise ValueError("scope scan found implausibly few `with` blocks")
    ids = [s["id"] for s in scopes]
    if len(set(ids)) != len(ids):
        raise ValueError("scope ids are not unique")
    entries, callers = scopescan.analysis_entries()
    if not entries:
        raise ValueError("no analysis entry points found")

    def q(t):
        return "(" + ", ".join(lstr(x) for x in t) + ")"

    return [
        "/-- every `with` item and every `try` with a handler able to catch SystemExit in rattr/**.py: (id, kind, verdict);"
        " id = file::function::spelling#ordinal -/",
        "def scopes : List (String × String × String) := [\n  "
        + ",\n  ".join(q((s["id"], s["kind"], s["verdict"])) for s in scopes) + "]",
        "/-- calls that start the analysis of one file's AST, with the argument of the innermost lexically enclosing"
        " `with enter_file(..)` (\"\" = none): (file, function, call, enter_file argument) -/",
        "def analysisEntries : List (String × String × String × String) := [\n  " + ",\n  ".join(q(e) for e in entries) + "]",
        "/-- calls of the functions that hold an entry without an enclosing enter_file (same shape) -/",
        "def analysisEntryCallers : List (String × String × String × String) := [\n  " + ",\n  ".join(q(e) for e in callers) + "]",
        "/-- every SystemExit handler around a `with redirect_stderr(S)` that reads S back line by line: (try id, the message"
        " family it filters out, what it does with the other lines (LINE = the loop variable), the call that replaces the filtered"
        " ones) -/",
        "def captureHandlers : List (String × String × String × String) := ["
        + ", ".join(q((s["id"],) + tuple(s["shape"])) for s in scopes if s["kind"] == "try" and s.get("shape")) + "]",
        "/-- every `with` that diverts stderr, with the innermost SystemExit-catching `try` whose body holds it (\"\" = none) -/",
        "def captureScopes : List (String × String) := ["
        + ", ".join(q((s["id"], s["enclosing_try"])) for s in scopes if s["verdict"] == "captures") + "]",
        "/-- does `enter_file` restore `current_file` when an exception leaves its block (yield guarded by try/finally)? -/",
        f"def enterFileRestoresOnException : Bool := {lbool(scopescan.enter_file_restores_on_exception())}",
    ]

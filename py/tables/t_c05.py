"""Tie A for C05: the two places where per-process memory / hash order could enter the resolution of a call.

  * the module search: `iter_python_path_dirs`, `locate_module_in_python_path`, `find_module_in_path`,
    `derive_working_dir` (rattr/module_locator/_locate.py) and `find_module_spec_fast` (util.py) must carry
    the search directories in a SEQUENCE from `sys.path` to `locations[0]`: no set / dict / frozenset
    construction, comprehension or call in their bodies (the model `Locator.locate` takes the directories
    as a list in `sys.path` order);
  * the resolver: the functions of rattr/results/_find_call_target.py have exactly the parameters the
    model `Resolve.resolveImport` has (the symbol and the environment), none of them with a default, no
    mutable default anywhere in rattr/results and rattr/module_locator, and no `global` / `nonlocal`
    statement in _find_call_target.py: a resolution cannot remember an earlier one.
"""
from tables.util import lbool, llist, lstr

NAME = "C05"

HASH_ORDERED_CALLS = {"set", "frozenset", "dict", "defaultdict", "Counter", "OrderedDict"}
MUTABLE_CALLS = HASH_ORDERED_CALLS | {"list", "deque", "bytearray"}
SEARCH_FUNCTIONS = [("module_locator/_locate.py", "iter_python_path_dirs"),
                    ("module_locator/_locate.py", "locate_module_in_python_path"),
                    ("module_locator/_locate.py", "find_module_in_path"),
                    ("module_locator/_locate.py", "derive_working_dir"),
                    ("module_locator/util.py", "find_module_spec_fast")]


def _callee(node):
    import ast
    f = node.func
    if isinstance(f, ast.Name):
        return f.id
    if isinstance(f, ast.Attribute):
        return f.attr
    return ""


def tables():
    import ast
    from pathlib import Path

    import rattr

    root = Path(rattr.__file__).resolve().parent

    def functions(rel):
        tree = ast.parse((root / rel).read_text())
        return [n for n in ast.walk(tree) if isinstance(n, (ast.FunctionDef, ast.AsyncFunctionDef))], tree

    # ---- the search path never passes through a hash-ordered container
    hash_ordered, missing = [], []
    for rel, fname in SEARCH_FUNCTIONS:
        fns, _ = functions(rel)
        fn = next((f for f in fns if f.name == fname), None)
        if fn is None:
            missing.append(f"{rel}:{fname}")
            continue
        for node in ast.walk(fn):
            if isinstance(node, (ast.Set, ast.SetComp, ast.Dict, ast.DictComp)) or (
                    isinstance(node, ast.Call) and _callee(node) in HASH_ORDERED_CALLS):
                hash_ordered.append(f"{rel}:{fname}:{type(node).__name__}:{_callee(node) if isinstance(node, ast.Call) else ''}")
    # ---- no mutable default in the resolver / the locator
    mutable_defaults = []
    for d in ("results", "module_locator"):
        for f in sorted((root / d).glob("*.py")):
            rel = f"{d}/{f.name}"
            for fn in functions(rel)[0]:
                a = fn.args
                pos = a.posonlyargs + a.args
                pairs = list(zip(pos[len(pos) - len(a.defaults):], a.defaults)) + \
                    [(p, dflt) for p, dflt in zip(a.kwonlyargs, a.kw_defaults) if dflt is not None]
                for p, dflt in pairs:
                    if isinstance(dflt, (ast.List, ast.Dict, ast.Set, ast.ListComp, ast.SetComp, ast.DictComp)) or (
                            isinstance(dflt, ast.Call) and _callee(dflt) in MUTABLE_CALLS):
                        mutable_defaults.append(f"{rel}:{fn.name}:{p.arg}")
    # ---- the resolver's interface and statefulness
    fns, tree = functions("results/_find_call_target.py")
    by = {f.name: f for f in fns}

    def params(fn):
        a = fn.args
        return [p.arg for p in a.posonlyargs + a.args] + ([f"*{a.vararg.arg}"] if a.vararg else []) + \
            [p.arg for p in a.kwonlyargs] + ([f"**{a.kwarg.arg}"] if a.kwarg else [])

    def n_defaults(fn):
        return len(fn.args.defaults) + sum(1 for d in fn.args.kw_defaults if d is not None)

    ri = by.get("resolve_import")
    rec_kw = []
    if ri is not None:
        for node in ast.walk(ri):
            if isinstance(node, ast.Call) and _callee(node) == "resolve_import":
                rec_kw.append([f"positional:{len(node.args)}"] + sorted(k.arg or "**" for k in node.keywords))
    stateful = sorted({type(n).__name__ + ":" + ",".join(n.names) for n in ast.walk(tree) if isinstance(n, (ast.Global, ast.Nonlocal))})
    module_level_state = sorted(
        t.id for n in tree.body if isinstance(n, (ast.Assign, ast.AnnAssign))
        for t in (n.targets if isinstance(n, ast.Assign) else [n.target]) if isinstance(t, ast.Name)
        and isinstance(n.value, (ast.List, ast.Dict, ast.Set, ast.Call)))
    return [
        f"def searchFunctionsMissing : List String := {llist(missing)}",
        f"def searchPathHashOrdered : List String := {llist(hash_ordered)}",
        f"def mutableDefaults : List String := {llist(mutable_defaults)}",
        f"def resolveImportParams : List String := {llist(params(ri) if ri else ['<missing>'])}",
        f"def resolveImportDefaults : Nat := {n_defaults(ri) if ri else 99}",
        f"def findCallTargetParams : List String := {llist(params(by['find_call_target_and_ir']) if 'find_call_target_and_ir' in by else ['<missing>'])}",
        f"def resolveImportRecursiveCalls : List (List String) := {llist(rec_kw, f=llist)}",
        f"def resolverGlobalStatements : List String := {llist(stateful)}",
        f"def resolverModuleLevelContainers : List String := {llist(module_level_state)}",
        f"def resolveImportIsCached : Bool := {lbool(ri is not None and any('cache' in ast.unparse(d) for d in ri.decorator_list))}",
    ]

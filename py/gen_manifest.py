"""Regenerate MANIFEST.json from the table below (kept valid at all times)."""
import json
from pathlib import Path

VERIF = Path(__file__).resolve().parent.parent

BASELINE_CMD = "cd /repo && /venv/bin/python -m pytest -ra -q -p no:cacheprovider --timeout=900 --continue-on-collection-errors"

# pid -> (technique, level text, design ref, level note)
CHECKS = {}
NOT_APPLICABLE = {}


COMMON_NOTE = ("Trusted: Lean 4.33 kernel; axioms ⊆ {propext, Classical.choice, Quot.sound} (audited by #print axioms each run; "
               "no sorry/native_decide/bv_decide/custom axioms); py/extract.py (Tie A) and the differential harness + Lean driver (Tie B, sampled); "
               "the hand-written model is tied to the code only through those two ties. ")


def load():
    checks, na = {}, {}
    for f in sorted((VERIF / "py" / "manifest_d").glob("C*.json")):
        c = json.loads(f.read_text())
        if "not_applicable" in c:
            na[f.stem] = c["not_applicable"]
        else:
            c["note"] = COMMON_NOTE + c["note"]
            checks[f.stem] = c
    return checks, na


def main():
    checks, na = load()
    props = [json.loads(l)["id"] for l in (VERIF / "properties.jsonl").read_text().splitlines() if l.strip()]
    out = {
        "version": 1,
        "setup_cmd": "/venv/bin/python py/extract.py && cd lean && lake build RattrModel RattrDriver rattr_model RattrProofs",
        "hooks": {
            "guard": "RATTR_VERIF",
            "enable": "no source hooks: diagnostics are tapped from the harness by wrapping rattr.error.* module attributes; checks import /repo's working tree through /venv's editable install",
            "baseline_off_cmd": BASELINE_CMD,
            "source_commits": [],
            "add_only": True,
        },
        "engines": [
            {"name": "lean-model-and-proofs", "path": "lean/", "serves_properties": sorted(checks),
             "kind_free_text": "Lean 4 executable model (RattrModel), property theorems (RattrProofs/Props), compiled line-protocol driver (rattr_model)"},
            {"name": "correspondence-harness", "path": "py/", "serves_properties": sorted(checks),
             "kind_free_text": "Python harness running the real rattr in-process / via CLI, the Lean driver on the same inputs, and the property oracle; Tie-A table extractor"},
        ],
        "checks": [],
        "not_applicable": [],
        "notes": "All checks: ./check Cxx --tier quick|thorough. exit 0 = held; exit 1 + VIOLATION line; exit 2 = internal machinery error (never a violation). Known findings: known_findings.json.",
    }
    for pid in props:
        if pid in checks:
            c = checks[pid]
            out["checks"].append({
                "property_id": pid,
                "quick_cmd": f"./check {pid} --tier quick",
                "thorough_cmd": f"./check {pid} --tier thorough",
                "evidence_file": f"evidence/{pid}.json",
                "replay_cmd_template": f"./check {pid} --replay {{path}}",
                "engine": "lean-model-and-proofs",
                "level_claimed": {"category": "proof", "text": c["text"], "design_ref": c["ref"]},
                "level_note": c["note"],
                "technique": c["technique"],
            })
        else:
            out["not_applicable"].append({"property_id": pid, "reason": na.get(pid, "check not built yet in this round; see DESIGN.md §5 for the plan")})
    (VERIF / "MANIFEST.json").write_text(json.dumps(out, indent=1) + "\n")
    print(f"MANIFEST.json: {len(out['checks'])} checks, {len(out['not_applicable'])} not_applicable")


if __name__ == "__main__":
    main()

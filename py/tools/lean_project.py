"""Development aid: render a multi-file project (a directory) as a Lean `Pipeline2.Project` literal,
with the location facts the REAL locator functions give (so that the concrete projects in `example`s /
test theorems ARE encodings of real source trees), plus the document the real run prints and the
model's own answer on exactly that literal (builtins cut down to `print`, empty plugin tables — as the
C03 test module).

    /venv/bin/python py/tools/lean_project.py <project dir> <target rel> <lean name>
"""
from __future__ import annotations

import json
import sys
import warnings
from pathlib import Path

sys.path.insert(0, str(Path(__file__).resolve().parent.parent))
warnings.simplefilter("ignore")

import common  # noqa: E402
from props import pipeline2 as p2  # noqa: E402
from tools import lean_module as lm  # noqa: E402

s, lst, opt = lm.s, lm.lst, lm.opt


def alias(a):
    return f"⟨{s(a['name'])}, {opt(a['asname'])}⟩"


def deco(d):
    names = {"rattr_ignore": "Ann.nIgnore", "rattr_results": "Ann.nResults", "staticmethod": "Ann.nStatic"}
    if d["call"] is not None or d["head"] not in names:
        raise SystemExit("only bare rattr_ignore / rattr_results / staticmethod decorators are supported by this aid")
    return f"⟨.named {names[d['head']]}, none⟩"


def top(t):
    k = t["k"]
    if k == "import":
        return f".importStmt {lst(alias(a) for a in t['aliases'])}"
    if k == "importfrom":
        return (f".importFrom {opt(t['module'])} {t['level']} {lst(alias(a) for a in t['aliases'])} {s(t['abs'])} "
                f"{'true' if t['specFound'] else 'false'} {'true' if t['confirmedOk'] else 'false'}")
    if k == "def":
        return (f".funcDef {s(t['name'])} {lm.params(t['ps'])}\n      {lst(lm.node(x) for x in t['body'])}\n      "
                f"{lst(deco(d) for d in t['decos'])} {'true' if t['async'] else 'false'}")
    if k == "class":
        return (f".classDef {s(t['name'])} {lst(lm.node(x) for x in t['bases'])}\n     [" +
                ",\n      ".join(top(x) for x in t["body"]) + f"]\n     {lst(deco(d) for d in t['decos'])}")
    return lm.top(t)


def b(x):
    return "true" if x else "false"


def srcfile(f):
    body = "[" + ",\n     ".join(top(t) for t in f["body"]) + "]"
    return (f"{{ origin := {s(f['origin'])}, derived := {opt(f['derived'])}, isInit := {b(f['isInit'])},\n      body :=\n      {body} }}")


def render(name, payload, used_files):
    mods = ",\n     ".join(f"({s(n)}, ⟨{b(f['blacklisted'])}, {b(f['originFound'])}, {b(f['modExists'])}⟩)" for n, f in payload["mods"])
    quals = ",\n     ".join(
        f"({s(n)}, {{ module := {opt(f['module'])}, origin := {opt(f['origin'])}, pySource := {b(f['pySource'])}, "
        f"builtinLoader := {b(f['builtinLoader'])}, blacklisted := {b(f['blacklisted'])}, inPip := {b(f['inPip'])}, "
        f"inStdlib := {b(f['inStdlib'])} }})" for n, f in payload["quals"])
    files = ",\n   ".join(srcfile(f) for f in payload["files"] if f["origin"] in used_files)
    return (f"def {name} : Project :=\n  {{ env := envE, builtins := [{s('print')}],\n    mods :=\n    [{mods}],\n    quals :=\n    [{quals}],\n"
            f"    excluded := {lst(s(x) for x in payload['excluded'])},\n    target :=\n    {srcfile(payload['target'])},\n"
            f"    files :=\n  [{files}] }}")


def doc_literal(doc_pairs):
    rows = []
    for n, e in doc_pairs:
        rows.append(f"({s(n)}, ⟨{lst(s(x) for x in e['gets'])}, {lst(s(x) for x in e['sets'])}, {lst(s(x) for x in e['dels'])}, "
                    f"{lst(s(x) for x in e['calls'])}⟩)")
    return "[" + ",\n   ".join(rows) + "]"


def relocate(payload, root):
    """origins under a stable fictitious root (the temp dir name must not end up in a theorem)."""
    def fix(o):
        return o.replace(root, "/proj") if isinstance(o, str) else o
    for _, f in payload["quals"]:
        f["origin"] = fix(f["origin"])
    for f in payload["files"]:
        f["origin"] = fix(f["origin"])
    payload["target"]["origin"] = fix(payload["target"]["origin"])     # a target given by its absolute path
    return payload


if __name__ == "__main__":
    project, target, name = Path(sys.argv[1]).resolve(), sys.argv[2], sys.argv[3]
    model = common.Model()

    class C:
        pass

    c = C()
    c.facts = p2.Facts(project, target)
    c.facts.seed()
    assert c.facts.skipped is None, c.facts.skipped
    c.rounds = 0
    p2.run_model([c], model)
    im = p2.real_pipeline2(project, target)
    diff = p2.compare(im, c.mo)
    print(f"-- real run: {im['outcome']} {im['exc']}; model vs real: {'AGREE' if diff is None else diff}")
    payload = relocate(c.facts.payload(), str(project))
    # keep only the facts about names of this project's import statements
    small = {**payload, "env": {"prims": [], "literals": [], "analysers": []}, "builtins": ["print"]}
    mo = model.batch([("pipeline2", small)])[0]
    print(f"-- model on the literal (builtins = [print]): {mo.get('outcome')} {mo.get('exc')} irs={mo.get('irs')}")
    used = {q["origin"] for _, q in payload["quals"] if q["origin"]}
    print(render(name, small, used))
    if mo.get("outcome") == "ok":
        print(f"\ndef {name}Doc : ResultsDoc :=\n  {doc_literal(mo['doc'])}")
        print(f"\n-- diags: {json.dumps(mo['diags'])}")
        if im["outcome"] == "ok":
            real = {k: v for k, v in im["doc"].items()}
            same = {n: e for n, e in mo["doc"]} == real
            print(f"-- document equals the real CLI's: {same}")

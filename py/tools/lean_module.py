"""Development aid: render the model's encoding of a Python module as a Lean `List Top` literal
(so that the concrete modules in `example`s / test theorems ARE the encoding of real source).

    /venv/bin/python py/tools/lean_module.py file.py  > literal.lean
"""
from __future__ import annotations

import ast
import sys
from pathlib import Path

sys.path.insert(0, str(Path(__file__).resolve().parent.parent))

from props import filelib  # noqa: E402

CTX = {0: ".load", 1: ".store", 2: ".del", "load": ".load", "store": ".store", "del": ".del"}


def s(x):
    return '"' + x.replace("\\", "\\\\").replace('"', '\\"') + '".toList'


def lst(xs):
    return "[" + ", ".join(xs) + "]"


def opt(x, f=s):
    return "none" if x is None else f"(some {f(x)})"


def params(p):
    return (f"⟨{lst(map(s, p['posonly']))}, {lst(map(s, p['args']))}, {opt(p['vararg'])}, "
            f"{lst(map(s, p['kwonly']))}, {opt(p['kwarg'])}⟩")


def node(n):
    k = n["k"]
    N = node
    L = lambda xs: lst(N(x) for x in xs)  # noqa: E731
    c = lambda: CTX[n["c"]]  # noqa: E731
    if k == "name":
        return f"(.name {s(n['id'])} {c()})"
    if k == "attr":
        return f"(.attr {N(n['v'])} {s(n['a'])} {c()})"
    if k == "sub":
        return f"(.sub {N(n['v'])} {N(n['sl'])} {c()})"
    if k == "starred":
        return f"(.starred {N(n['v'])} {c()})"
    if k == "call":
        return f"(.call {N(n['f'])} {L(n['args'])} {lst(opt(x) for x in n['kwn'])} {L(n['kwv'])})"
    if k == "lam":
        return f"(.lam {params(n['ps'])} {N(n['body'])})"
    if k == "str":
        return f"(.strConst {s(n['s'])})"
    if k == "const":
        return ".const"
    if k == "seq":
        return f"(.seq {s(n['kind'])} {L(n['elts'])} {c()})"
    if k == "dict":
        return f"(.dict {L(n['keys'])} {L(n['vals'])})"
    if k == "assign":
        return f"(.assign {L(n['targets'])} {N(n['v'])})"
    if k == "aug":
        return f"(.augAssign {N(n['t'])} {N(n['v'])})"
    if k == "delete":
        return f"(.delete {L(n['targets'])})"
    if k == "ret":
        return f"(.ret {L(n['v'])})"
    if k == "other":
        return f"(.other {s(n['kind'])} {L(n['kids'])})"
    raise SystemExit(f"node kind {k} not supported by this aid")


def deco(d):
    head = d["head"]
    names = {"rattr_ignore": "Ann.nIgnore", "rattr_results": "Ann.nResults", "staticmethod": "Ann.nStatic"}
    if d["call"] is not None or head not in names:
        raise SystemExit("only bare rattr_ignore / rattr_results / staticmethod decorators are supported by this aid")
    return f"⟨.named {names[head]}, none⟩"


def top(t):
    k = t["k"]
    if k == "def":
        return (f".funcDef {s(t['name'])} {params(t['ps'])}\n      {lst(node(x) for x in t['body'])}\n      "
                f"{lst(deco(d) for d in t['decos'])} {'true' if t['async'] else 'false'}")
    if k == "class":
        return (f".classDef {s(t['name'])} {lst(node(x) for x in t['bases'])}\n     [" +
                ",\n      ".join(top(x) for x in t["body"]) + f"]\n     {lst(deco(d) for d in t['decos'])}")
    if k == "assign":
        v = "none" if t["value"] is None else f"(some {node(t['value'])})"
        return f".assign {lst(node(x) for x in t['targets'])} {lst(node(x) for x in t['extra'])} {v}"
    if k == "exprstmt":
        return f".exprStmt {node(t['v'])}"
    raise SystemExit(f"top kind {k} not supported by this aid")


if __name__ == "__main__":
    src = Path(sys.argv[1]).read_text()
    enc = filelib.Encoder()
    body = [enc.top(x) for x in ast.parse(src).body]
    print("  [" + ",\n   ".join(top(t) for t in body) + "]")

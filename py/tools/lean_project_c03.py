"""Development aid: render a PROJECT (target + followed modules) as Lean `Project.FileIn` literals and the
`Project.PFacts`, exactly as the harness (`props/c03proj.py`) would send them to op `project` — so that the
concrete projects in the test theorems of Props/C03.lean ARE the encoding of real source files.

    /venv/bin/python py/tools/lean_project.py <name-prefix> <project dir> <target.py>  > literal.lean
"""
from __future__ import annotations

import sys
import warnings
from pathlib import Path

sys.path.insert(0, str(Path(__file__).resolve().parent.parent))
sys.path.insert(0, str(Path(__file__).resolve().parent))
warnings.simplefilter("ignore")

import common  # noqa: E402
from props import c03proj  # noqa: E402
import lean_module as lm  # noqa: E402


def alias(a):
    return f"⟨{lm.s(a['name'])}, {lm.opt(a['asname'])}⟩"


def top(t):
    k = t["k"]
    if k == "import":
        return f".importStmt {lm.lst(alias(a) for a in t['aliases'])}"
    if k == "importfrom":
        return (f".importFrom {lm.opt(t['module'])} {t['level']} {lm.lst(alias(a) for a in t['aliases'])} "
                f"{lm.s(t['abs'])} {'true' if t['specFound'] else 'false'} {'true' if t['confirmedOk'] else 'false'}")
    return lm.top(t)


def b(x):
    return "true" if x else "false"


def facts(f):
    mods = lm.lst(f"({lm.s(n)}, ⟨{b(m['blacklisted'])}, {b(m['originFound'])}, {b(m['modExists'])}⟩)" for n, m in f["mods"])
    return f"{{ mods := {mods}, isInit := {b(f['isInit'])}, excluded := {lm.lst(map(lm.s, f['excluded']))} }}"


def main():
    prefix, project, target = sys.argv[1], Path(sys.argv[2]).resolve(), sys.argv[3]
    im = c03proj.run_inprocess(project, target)
    assert im["outcome"] == "ok", im
    files = c03proj.model_files(project, target, im["followed"])
    model = common.Model()
    mo = model.batch([("project", {"files": files, "facts": {}})])[0]
    pf = c03proj.project_facts(project, target, mo.get("quals", []), mo.get("callTargets", []))
    mo = model.batch([("project", {"files": files, "facts": pf})])[0]
    assert c03proj.compare_model(im, mo) is None, c03proj.compare_model(im, mo)
    names = []
    for i, f in enumerate(files):
        nm = f"{prefix}File{i}"
        names.append(nm)
        body = "  [" + ",\n   ".join(top(t) for t in f["body"]) + "]"
        print(f"/-- `{f['modName'] or target}` -/")
        print(f"def {nm} : Project.FileIn :=\n  {{ modName := {lm.s(f['modName'])}, derived := {lm.opt(f['derived'])}, pathId := {f['pathId']},\n"
              f"    env := envP, mn := {lm.s(f['module'])}, facts := {facts(f['facts'])},\n    builtins := [S' \"print\"],\n    body :=\n{body} }}\n")
    print(f"def {prefix}Facts : Project.PFacts :=\n  {{ excluded := {lm.lst(map(lm.s, pf['excluded']))}, existing := {lm.lst(map(lm.s, pf['existing']))}, "
          f"ignored := {lm.lst(map(lm.s, pf['ignored']))} }}\n")
    print("-- document printed by the real CLI:")
    for k, v in im["doc"].items():
        print(f"--   {k}: {v}")
    doc = lm.lst(f"(S' \"{k}\", ⟨{lm.lst(map(lambda x: chr(83) + chr(39) + ' ' + chr(34) + x + chr(34), v['gets']))}, "
                 f"{lm.lst(map(lambda x: chr(83) + chr(39) + ' ' + chr(34) + x + chr(34), v['sets']))}, "
                 f"{lm.lst(map(lambda x: chr(83) + chr(39) + ' ' + chr(34) + x + chr(34), v['dels']))}, "
                 f"{lm.lst(map(lambda x: chr(83) + chr(39) + ' ' + chr(34) + x + chr(34), v['calls']))}⟩)" for k, v in im["doc"].items())
    print(f"def {prefix}Doc : ResultsDoc :=\n  {doc}")


if __name__ == "__main__":
    main()

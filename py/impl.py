"""Implementation-side helpers: run the real rattr (from /repo's working tree) in-process.

Everything here runs under /venv/bin/python where `rattr` is an editable install of /repo, so the
code exercised is always the current working tree. No source hook is needed: diagnostics are tapped
by wrapping module attributes from the outside.
"""
from __future__ import annotations

import ast
import contextlib
import functools
import io
import os
import sys
from pathlib import Path
from unittest import mock

REPO = os.environ.get("RATTR_REPO", "/repo")


def _ensure_repo_on_path():
    # The editable install already points to /repo; make sure nothing shadows it.
    import rattr  # noqa

    assert os.path.realpath(os.path.dirname(os.path.dirname(rattr.__file__))) == os.path.realpath(
        REPO
    ), f"rattr imported from {rattr.__file__}, expected {REPO}"


_ensure_repo_on_path()

from rattr.config import Arguments, Config, Output, State  # noqa: E402
from rattr.config._types import ConfigMetaclass  # noqa: E402


def clear_caches():
    """Clear every functools cache living in a rattr module."""
    import gc

    for obj in gc.get_objects():
        try:
            if isinstance(obj, functools._lru_cache_wrapper):
                mod = getattr(obj, "__module__", "") or ""
                if mod.startswith("rattr"):
                    obj.cache_clear()
        except ReferenceError:
            pass


_CACHED = None


def clear_caches_fast():
    """Like clear_caches but remembers the wrappers (gc scan is slow)."""
    global _CACHED
    if _CACHED is None:
        import gc

        _CACHED = []
        for obj in gc.get_objects():
            try:
                if isinstance(obj, functools._lru_cache_wrapper):
                    mod = getattr(obj, "__module__", "") or ""
                    if mod.startswith("rattr"):
                        _CACHED.append(obj)
            except ReferenceError:
                pass
    for f in _CACHED:
        f.cache_clear()


def default_arguments(**over) -> Arguments:
    kw = dict(
        pyproject_toml_override=None,
        _follow_imports_level=1,
        _excluded_imports=[],
        _excluded_names=[],
        _warning_level="all",
        collapse_home=False,
        truncate_deep_paths=False,
        is_strict=False,
        threshold=0,
        stdout=Output.results,
        force_refresh_cache=False,
        cache_file=None,
        target=Path("target.py"),
    )
    kw.update(over)
    return Arguments(**kw)


def reset_config(validate=False, **over) -> Config:
    """Drop the Config singleton and create a fresh one."""
    ConfigMetaclass._instance = None
    try:
        Config._instance = None
    except Exception:
        pass
    args = default_arguments(**over)
    if validate:
        cfg = Config(arguments=args, state=State())
    else:
        with mock.patch("rattr.config._types.validate_arguments", lambda a: a):
            cfg = Config(arguments=args, state=State())
    clear_caches_fast()
    return cfg


LEVELS = ("info", "warning", "error", "fatal")


class Tap:
    """Record every diagnostic *before* the verbosity filter, and every printed line.

    events: list of dict(level, message, line, col, badness, bucket)
    printed: list of dict(level, message)
    """

    def __init__(self):
        self.events = []
        self.printed = []
        self._stack = contextlib.ExitStack()

    def __enter__(self):
        pkg = sys.modules["rattr.error"]
        mod = sys.modules["rattr.error.error"]
        tap = self

        def wrap(level, orig):
            @functools.wraps(orig)
            def wrapper(message, culprit=None, badness=None, **kw):
                cfg = Config()
                st = cfg.state
                if not st.is_in_any_file:
                    bucket = "simplification"
                elif cfg.is_in_target_file:
                    bucket = "target"
                else:
                    bucket = "import"
                eff = badness
                if eff is None:
                    eff = {"info": 0, "warning": 1, "error": 5, "fatal": 0}[level]
                    # read the real default from the signature
                    import inspect

                    eff = inspect.signature(orig).parameters["badness"].default
                line = getattr(culprit, "lineno", None)
                col = getattr(culprit, "col_offset", None)
                loc = getattr(culprit, "location", None)
                if line is None and loc is not None:
                    line, col = loc.lineno, loc.col_offset
                tap.events.append(
                    dict(level=level, message=str(message), line=line, col=col, badness=eff,
                         bucket=bucket)
                )
                if badness is None:
                    return orig(message, culprit, **kw)
                return orig(message, culprit, badness, **kw)

            return wrapper

        for lvl in LEVELS:
            orig = mod.__dict__[lvl]
            w = wrap(lvl, orig)
            self._stack.enter_context(mock.patch.dict(mod.__dict__, {lvl: w}))
            self._stack.enter_context(mock.patch.object(pkg, lvl, w))

        orig_log = mod.__dict__["__log"]

        def log(level, message, culprit=None):
            tap.printed.append(dict(level=level.name, message=str(message)))
            return orig_log(level, message, culprit)

        self._stack.enter_context(mock.patch.dict(mod.__dict__, {"__log": log}))
        self._stderr = io.StringIO()
        self._stack.enter_context(contextlib.redirect_stderr(self._stderr))
        return self

    def __exit__(self, *exc):
        self._stack.close()
        return False

    @property
    def stderr(self):
        return self._stderr.getvalue()


def outcome_of(fn, *a, **kw):
    """Run fn; classify: ('ok', value) | ('fatal', code) | ('crash', exc type name, message)."""
    try:
        return ("ok", fn(*a, **kw))
    except SystemExit as e:
        return ("fatal", e.code)
    except RecursionError as e:
        return ("crash", "RecursionError", str(e)[:200])
    except BaseException as e:  # noqa
        return ("crash", type(e).__name__, str(e)[:300])


@contextlib.contextmanager
def in_dir(path):
    old = os.getcwd()
    old0 = sys.path[0] if sys.path else None
    os.chdir(path)
    if sys.path:
        sys.path[0] = str(path)
    try:
        yield
    finally:
        os.chdir(old)
        if sys.path and old0 is not None:
            sys.path[0] = old0

"""Shared machinery of the C15 / C16 checks: generated diagnostic projects, the real CLI in
subprocesses, an in-process run of the real `main` with a pre-filter diagnostic tap.

Nothing here modifies the repo under test: the tap wraps module attributes from the outside.
"""
from __future__ import annotations

import contextlib
import functools
import io
import os
import re
import shutil
import subprocess
import sys
import tempfile
from concurrent.futures import ThreadPoolExecutor
from pathlib import Path
from unittest import mock

import impl

from rattr.config import Config, State
from rattr.config._types import ConfigMetaclass

LEVELS = ("info", "warning", "error", "fatal")
WARN = ("none", "local", "default", "all")
IMPORT_PAD = 1000  # imported files start with this many blank lines: line numbers tell the file

# ------------------------------------------------------------------------------------------------
# project generation
# ------------------------------------------------------------------------------------------------
# Each menu entry: kind -> (function source template, expected (level, stage) of the diagnostics
# it was observed to produce on the pinned tree; only used for the distribution report, never for
# a verdict). `{p}` = place prefix (t / h), `{n}` = serial number.

ANALYSIS_MENU = {
    # info
    "method_call": "def {p}_f{n}(a):\n    return a.meth{n}()\n",
    # warning
    "undefined_name": "def {p}_f{n}(a):\n    return {p}_undef{n}.x\n",
    "class_not_stored": "class {p}_K{n}:\n    def __init__(self, v):\n        self.v = v\n\ndef {p}_f{n}(a):\n    {p}_K{n}(a)\n    return a\n",
    # error
    "nested_def": "def {p}_f{n}(a):\n    def inner{n}():\n        pass\n    return a\n",
    "lambda_in_function": "def {p}_f{n}(a):\n    g{n} = lambda q: q.z\n    return a\n",
    "nested_class": "def {p}_f{n}(a):\n    class Inner{n}:\n        pass\n    return a\n",
    "call_on_call": "def {p}_f{n}(a):\n    return a.m{n}()()\n",
    # nothing
    "plain": "def {p}_f{n}(a):\n    return a.attr{n}\n",
}

# constructs that only fire at simplification time (always in the target file; they call helpers)
SIMPL_MENU = {
    "call_ignored": "def t_s{n}(a):\n    return h_ignored(a)\n",
    "too_many_args": "def t_s{n}(a):\n    return h_plain(a, a, a)\n",
    "unexpected_kw": "def t_s{n}(a):\n    return h_plain(a, zz{n}=a)\n",
    "undefined_callee": "def t_s{n}(a):\n    return t_nowhere{n}(a)\n",
    "local_too_many": "def t_s{n}(a):\n    return t_base(a, a)\n",
    "imported_method": "def t_s{n}(a):\n    return h_plain.meth{n}(a)\n",
    "call_ok": "def t_s{n}(a):\n    return h_plain(a)\n",
    "stdlib_call": "def t_s{n}(a):\n    return sqrt(a.v{n})\n",
    "import_missing_name": "def t_s{n}(a):\n    return h_missing(a)\n",
    "local_ignored": "def t_s{n}(a):\n    return t_ignored(a)\n",
    "class_init_ok": "def t_s{n}(a):\n    k = t_Klass(a)\n    return k\n",
}

FATAL_MENU = {
    "global_stmt": "def {p}_f{n}(a):\n    global G{n}\n    return a\n",
    "local_import": "def {p}_f{n}(a):\n    import math\n    return a\n",
}

HELPER_HEAD = (
    "from rattr.analyser.annotations import rattr_ignore\n\n"
    "def h_plain(x):\n    return x.hattr\n\n"
    "@rattr_ignore\ndef h_ignored(x):\n    return x.y\n\n"
)
TARGET_HEAD = (
    "from math import sqrt\n"
    "from rattr.analyser.annotations import rattr_ignore\n"
    "from {mod} import h_plain, h_ignored, h_missing\n\n"
    "def t_base(x):\n    return x.tattr\n\n"
    "@rattr_ignore\ndef t_ignored(x):\n    return x.y\n\n"
    "class t_Klass:\n    def __init__(self, v):\n        self.v = v.w\n\n"
)


def gen_program(rng, fatal_rate=0.12, empty_rate=0.04):
    """A structured random project description: lists of menu kinds for target / import / simpl."""
    if rng.random() < empty_rate:
        return {"target": [], "import": [], "simpl": [], "fatal": None}
    ak = list(ANALYSIS_MENU)
    sk = list(SIMPL_MENU)
    prog = {
        "target": [rng.choice(ak) for _ in range(rng.randint(0, 4))],
        "import": [rng.choice(ak) for _ in range(rng.randint(0, 4))],
        "simpl": [rng.choice(sk) for _ in range(rng.randint(0, 3))],
        "fatal": None,
    }
    # bias: sometimes only weightless / only warnings, so thresholds around small totals and the
    # strict gate (badness == 0) are exercised
    r = rng.random()
    if r < 0.12:
        prog["target"] = [k for k in prog["target"] if k in ("method_call", "plain")]
        prog["simpl"] = [k for k in prog["simpl"] if k in ("call_ok", "imported_method")]
    elif r < 0.24:
        prog["target"] = [k for k in prog["target"] if k in ("method_call", "plain", "undefined_name", "class_not_stored")]
        prog["simpl"] = [k for k in prog["simpl"] if k in ("call_ok", "imported_method")]
    if rng.random() < fatal_rate:
        prog["fatal"] = [rng.choice(list(FATAL_MENU)), rng.choice(["target", "import"]), rng.randint(0, 4)]
    return prog


def render_sources(prog, module="helper"):
    """-> (target source, helper source). Helper is padded so its line numbers exceed IMPORT_PAD."""
    n = 0
    t_parts, h_parts = [TARGET_HEAD.format(mod=module)], ["\n" * IMPORT_PAD, HELPER_HEAD]
    fatal = prog.get("fatal")

    def add(parts, place, kinds):
        nonlocal n
        for i, k in enumerate(kinds):
            if fatal and fatal[1] == place and fatal[2] == i:
                n += 1
                parts.append(FATAL_MENU[fatal[0]].format(p=place[0] if place == "target" else "h", n=n) + "\n")
            n += 1
            parts.append(ANALYSIS_MENU[k].format(p="t" if place == "target" else "h", n=n) + "\n")
        if fatal and fatal[1] == place and fatal[2] >= len(kinds):
            n += 1
            parts.append(FATAL_MENU[fatal[0]].format(p="t" if place == "target" else "h", n=n) + "\n")

    add(h_parts, "import", prog["import"])
    add(t_parts, "target", prog["target"])
    for k in prog["simpl"]:
        n += 1
        t_parts.append(SIMPL_MENU[k].format(n=n) + "\n")
    return "".join(t_parts), "".join(h_parts)


LAYOUTS = ("flat", "deep", "collide", "special_target", "special_deep", "special_tail")


class Project:
    """A project on disk (fake $HOME; `root` = project root = the directory holding pyproject.toml;
    `cwd` = where rattr is started, also sys.path[0] for its module search).

    flat            cwd = root; target.py and helper.py in it (C15).
    deep            cwd = root = $HOME/work/proj; helper in the package pkgx/la/lb/lc/ld (6 parts:
                    -T truncates); target outside the root at $HOME/src/da/db/dc/dd/target.py,
                    passed as an absolute path (-H collapses, -T truncates).
    collide         cwd = root; target app/current/core/models/base/util.py (relative argument) and
                    import app/legacy/core/models/base/util.py: both are more than five parts deep
                    and share the first and the last three parts, so -T renders them identically.
    special_target  cwd = root; target `skeleton/{service}/target.py` (relative argument), helper
                    plain: format-significant characters in the target's rendered path only.
    special_deep    root = $HOME/work, cwd = root/gen/{service}/v1/api/http: target and import both
                    render as gen/{service}/v1/api/http/<file> and -T elides the brace component.
    special_tail    root = $HOME/work, cwd = root/sk/{}/x y/é%s/{a}{b}: braces, `{}`, `%s`, a space
                    and a non-ASCII letter in components that -T keeps.
    """

    def __init__(self, base: Path, prog, layout="flat", strict_toml=False):
        self.base = base
        self.prog = prog
        self.layout = layout
        module = "helper"
        if layout == "flat":
            self.home = base / "home"
            self.cwd = self.root = base / "proj"
            self.cwd.mkdir(parents=True)
            self.home.mkdir(parents=True)
            self.target_arg = "target.py"
            self.target_path = self.cwd / "target.py"
            self.helper_path = self.cwd / "helper.py"
        elif layout == "deep":
            self.home = base / "home" / "user"
            self.cwd = self.root = self.home / "work" / "proj"
            pk = self.cwd / "pkgx" / "la" / "lb" / "lc" / "ld"
            pk.mkdir(parents=True)
            d = self.cwd / "pkgx"
            for part in ("", "la", "lb", "lc", "ld"):
                d = d / part if part else d
                (d / "__init__.py").write_text("")
            module = "pkgx.la.lb.lc.ld.helper"
            tdir = self.home / "src" / "da" / "db" / "dc" / "dd"
            tdir.mkdir(parents=True)
            self.target_path = tdir / "target.py"
            self.target_arg = str(self.target_path)
            self.helper_path = pk / "helper.py"
        elif layout == "collide":
            self.home = base / "home" / "user"
            self.cwd = self.root = self.home / "work" / "proj"
            for version in ("current", "legacy"):
                d = self.cwd / "app"
                d.mkdir(parents=True, exist_ok=True)
                (d / "__init__.py").write_text("")
                for part in (version, "core", "models", "base"):
                    d = d / part
                    d.mkdir()
                    (d / "__init__.py").write_text("")
            module = "app.legacy.core.models.base.util"
            self.target_arg = "app/current/core/models/base/util.py"
            self.target_path = self.cwd / self.target_arg
            self.helper_path = self.cwd / "app" / "legacy" / "core" / "models" / "base" / "util.py"
        elif layout == "special_target":
            self.home = base / "home" / "user"
            self.cwd = self.root = self.home / "work" / "proj"
            (self.cwd / "skeleton" / "{service}").mkdir(parents=True)
            self.target_arg = "skeleton/{service}/target.py"
            self.target_path = self.cwd / self.target_arg
            self.helper_path = self.cwd / "helper.py"
        elif layout in ("special_deep", "special_tail"):
            self.home = base / "home" / "user"
            self.root = self.home / "work"
            sub = ("gen", "{service}", "v1", "api", "http") if layout == "special_deep" else \
                ("sk", "{}", "x y", "\u00e9%s", "{a}{b}")
            self.cwd = self.root.joinpath(*sub)
            self.cwd.mkdir(parents=True)
            self.target_path = self.cwd / "target.py"
            self.target_arg = str(self.target_path)
            self.helper_path = self.cwd / "helper.py"
        else:
            raise ValueError(layout)
        t, h = render_sources(prog, module)
        self.target_path.write_text(t)
        self.helper_path.write_text(h)
        toml = "[tool.rattr]\n" + ("strict = true\n" if strict_toml else "")
        (self.root / "pyproject.toml").write_text(toml)
        self.strict_toml = strict_toml

    def set_strict_toml(self, on: bool):
        (self.root / "pyproject.toml").write_text("[tool.rattr]\n" + ("strict = true\n" if on else ""))
        self.strict_toml = on


def argv_for(cfg, target_arg, output="results"):
    """cfg: dict(strict, threshold, warn, H, T, via_toml). strict+threshold together is only
    expressible with strict coming from pyproject.toml (argparse mutex group on the CLI)."""
    a = ["-w", cfg["warn"], "-o", output]
    if cfg.get("H"):
        a.append("-H")
    if cfg.get("T"):
        a.append("-T")
    if cfg["strict"] and not cfg.get("via_toml"):
        a.append("--strict")
    if cfg["threshold"] or cfg.get("explicit_threshold"):
        a += ["--threshold", str(cfg["threshold"])]
    a.append(target_arg)
    return a


# ------------------------------------------------------------------------------------------------
# the real CLI
# ------------------------------------------------------------------------------------------------

ANSI = re.compile(r"\x1b\[[0-9;]*m")
LINE_RE = re.compile(
    r"^\x1b\[[0-9;]*m(?P<level>rattr|info|warning|error|fatal)\x1b\[0m: "
    r"\x1b\[1m(?P<file>.*?)\x1b\[0m(?:\x1b\[1m:(?P<line>\d+):(?P<col>\d+)\x1b\[0m)?: (?P<msg>.*)$"
)


def parse_stderr(text):
    """-> (list of dict(level, file, line, col, msg), list of unparsed lines)."""
    out, junk = [], []
    for raw in text.splitlines():
        m = LINE_RE.match(raw)
        if m:
            d = m.groupdict()
            out.append(d)
        elif raw.strip():
            junk.append(raw)
    return out, junk


STATS_RE = {
    "total": re.compile(r"^Total badness\s*\|\s*(\d+)", re.M),
    "target": re.compile(r"^\.\.\. from <file>\s*\|\s*(\d+)", re.M),
    "import": re.compile(r"^\.\.\. from imports\s*\|\s*(\d+)", re.M),
    "simpl": re.compile(r"^\.\.\. from simplification\s*\|\s*(\d+)", re.M),
    "true": re.compile(r"^True badness\s*:\s*(\d+)", re.M),
    "threshold": re.compile(r"^Threshold\s*:\s*(\S+)", re.M),
}


def parse_stats(stdout):
    d = {}
    for k, r in STATS_RE.items():
        m = r.search(stdout)
        if not m:
            return None
        d[k] = m.group(1) if k == "threshold" else int(m.group(1))
    return d


CLI_ENV_EXTRA = {}   # (additive) further environment of every CLI run, set by a caller; empty = today's behaviour


def cli_env(project: Project):
    env = {k: v for k, v in os.environ.items() if k not in ("PYTHONHASHSEED",)}
    env["HOME"] = str(project.home)
    env["PYTHONHASHSEED"] = "0"
    env["PYTHONDONTWRITEBYTECODE"] = "1"
    env.update(CLI_ENV_EXTRA)
    return env


def run_cli(project: Project, argv, timeout=120):
    p = subprocess.run([sys.executable, "-m", "rattr", *argv], cwd=str(project.cwd), env=cli_env(project),
                       capture_output=True, text=True, timeout=timeout)
    lines, junk = parse_stderr(p.stderr)
    return {"exit": p.returncode, "stdout": p.stdout, "stderr": p.stderr, "lines": lines, "junk": junk}


def run_cli_many(jobs, workers=16):
    """jobs: list of (project, argv) -> list of results (same order)."""
    with ThreadPoolExecutor(max_workers=workers) as ex:
        return list(ex.map(lambda j: run_cli(*j), jobs))


# ------------------------------------------------------------------------------------------------
# in-process run with the tap
# ------------------------------------------------------------------------------------------------

def current_config():
    """The live Config singleton, if any (the metaclass stores it on the class `Config`)."""
    return getattr(Config, "_instance", None)


def drop_config():
    ConfigMetaclass._instance = None
    Config._instance = None


class DiagTap:
    """Records every *top-level* call of a level function before any filtering:
    level, effective badness argument, `where` (from the raw state, as increment_badness will see
    it), the bucket deltas the call actually caused, the stage, culprit kind and line; nested calls
    (error -> fatal under strict) are attributed to the top-level event. Also records every line
    handed to `__log`, tagged with the index of the event that printed it."""

    def __init__(self, record_sites=False):
        # record_sites (additive, default off): every top-level event also gets `site` =
        # (file of the calling frame, line of the call, name of the calling function)
        self.record_sites = record_sites
        self.events = []
        self.printed = []
        self.stage = "pre"
        self._depth = 0
        self._stack = contextlib.ExitStack()

    def __enter__(self):
        import inspect
        import ast as _ast

        pkg = sys.modules["rattr.error"]
        mod = sys.modules["rattr.error.error"]
        tap = self

        def snapshot():
            inst = current_config()
            if inst is None:
                return None
            st = inst.state
            return (st.badness_from_target_file, st.badness_from_imports, st.badness_from_simplification)

        def where_now():
            inst = current_config()
            if inst is None:
                return None
            cur = inst.state.current_file
            if cur is None:
                return "simplification"
            return "target" if cur == inst.arguments.target else "import"

        def wrap(level, orig):
            default = inspect.signature(orig).parameters["badness"].default

            @functools.wraps(orig)
            def wrapper(message, culprit=None, badness=None, **kw):
                top = tap._depth == 0
                tap._depth += 1
                if top:
                    eff = default if badness is None else badness
                    if isinstance(culprit, _ast.AST):
                        ck, line = "ast", getattr(culprit, "lineno", None)
                    elif culprit is None:
                        ck, line = "none", None
                    else:
                        loc = getattr(culprit, "location", None)
                        ck, line = "symbol", getattr(loc, "lineno", None)
                    ev = dict(level=level, badness=eff, where=where_now(), stage=tap.stage,
                              explicit=badness is not None, culprit=ck, line=line,
                              message=str(message), before=snapshot(), after=None)
                    if tap.record_sites:
                        fr = sys._getframe(1)
                        ev["site"] = (fr.f_code.co_filename, fr.f_lineno, fr.f_code.co_name)
                    tap.events.append(ev)
                try:
                    if badness is None:
                        return orig(message, culprit, **kw)
                    return orig(message, culprit, badness, **kw)
                finally:
                    tap._depth -= 1
                    if top:
                        ev["after"] = snapshot()

            return wrapper

        for lvl in LEVELS:
            orig = mod.__dict__[lvl]
            w = wrap(lvl, orig)
            self._stack.enter_context(mock.patch.dict(mod.__dict__, {lvl: w}))
            self._stack.enter_context(mock.patch.object(pkg, lvl, w))

        orig_log = mod.__dict__["__log"]

        def log(level, message, culprit=None):
            idx = len(tap.events) - 1 if tap._depth > 0 else None
            tap.printed.append(dict(level=level.name, message=str(message), event=idx))
            return orig_log(level, message, culprit)

        self._stack.enter_context(mock.patch.dict(mod.__dict__, {"__log": log}))

        # stage tracking (independent of state.current_file)
        main_mod = sys.modules["rattr.__main__"]

        def staged(name, stage_in, stage_out):
            orig = getattr(main_mod, name)

            @functools.wraps(orig)
            def f(*a, **kw):
                tap.stage = stage_in
                r = orig(*a, **kw)
                tap.stage = stage_out
                return r

            self._stack.enter_context(mock.patch.object(main_mod, name, f))

        staged("parse_and_analyse_file", "analysis", "between")
        staged("generate_results_from_ir", "simplification", "post")
        self._stderr = io.StringIO()
        self._stack.enter_context(contextlib.redirect_stderr(self._stderr))
        return self

    def __exit__(self, *exc):
        self._stack.close()
        return False

    @property
    def stderr(self):
        return self._stderr.getvalue()


def run_inprocess(project: Project, argv, record_sites=False):
    """Run the real `main` in this process. Returns dict(exit, stdout, events, printed, buckets,
    outcome). `exit` is what the process would exit with."""
    import rattr.__main__ as main_mod  # noqa
    from rattr.cli import parse_arguments

    old_home = os.environ.get("HOME")
    os.environ["HOME"] = str(project.home)
    out = io.StringIO()
    try:
        with impl.in_dir(str(project.cwd)):
            drop_config()
            impl.clear_caches_fast()
            with DiagTap(record_sites=record_sites) as tap, contextlib.redirect_stdout(out):
                def go():
                    args = parse_arguments(sys_args=list(argv))
                    cfg = Config(arguments=args, state=State())
                    return main_mod.main(cfg)

                oc = impl.outcome_of(go)
            inst = current_config()
            buckets = None
            if inst is not None:
                st = inst.state
                buckets = [st.badness_from_target_file, st.badness_from_imports, st.badness_from_simplification]
    finally:
        if old_home is None:
            os.environ.pop("HOME", None)
        else:
            os.environ["HOME"] = old_home
        drop_config()
    if oc[0] == "ok":
        code = oc[1]
    elif oc[0] == "fatal":
        code = oc[1]
    else:
        code = "crash:" + oc[1]
    lines, junk = parse_stderr(tap.stderr)
    return {"exit": code, "stdout": out.getvalue(), "events": tap.events, "printed": tap.printed,
            "buckets": buckets, "outcome": list(oc[:2]), "lines": lines, "crash": oc if oc[0] == "crash" else None}


def model_events(events):
    """Projection of tapped events handed to the Lean model / spec: analysis + simplification
    events (the gate's own fatal is produced by the model itself)."""
    return [{"level": e["level"], "badness": e["badness"], "where": e["where"]}
            for e in events if e["stage"] in ("analysis", "simplification")]


def is_subsequence(a, b):
    it = iter(b)
    return all(any(x == y for y in it) for x in a)


@contextlib.contextmanager
def scratch_dir(prefix):
    d = Path(tempfile.mkdtemp(prefix=prefix, dir=os.environ.get("VERIF_SCRATCH", "/tmp")))
    try:
        yield d
    finally:
        shutil.rmtree(d, ignore_errors=True)

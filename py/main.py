"""Entry point of every check: ./check Cxx --tier quick|thorough [--replay file]."""
from __future__ import annotations

import argparse
import importlib
import os
import sys
import time
import traceback
from pathlib import Path

sys.path.insert(0, str(Path(__file__).resolve().parent))

import common  # noqa: E402


def main():
    ap = argparse.ArgumentParser()
    ap.add_argument("pid")
    ap.add_argument("--tier", default=os.environ.get("VERIF_TIER", "quick"), choices=["quick", "thorough"])
    ap.add_argument("--replay", default=None)
    ap.add_argument("--no-build", action="store_true", help="skip extract/build/audit (debugging only)")
    a = ap.parse_args()
    pid = a.pid.upper()
    seed = int(os.environ.get("VERIF_SEED", "0") or 0)
    t0 = time.time()
    os.chdir(common.VERIF)

    mod = importlib.import_module(f"props.{pid.lower()}")

    if a.replay:
        return mod.replay(a.replay)

    if a.no_build:
        common.EVIDENCE_OUT = common.EVIDENCE / "scratch"
        br = common.BuildResult()
    else:
        br = common.prepare(pid, a.tier, getattr(mod, 'TABLES', None))
    try:
        res = mod.run(tier=a.tier, seed=seed, build=br)
    except Exception:
        traceback.print_exc()
        print(f"INTERNAL-ERROR: {pid} harness crashed")
        return 2
    return common.finish(pid, a.tier, seed, br, res, t0)


if __name__ == "__main__":
    sys.exit(main())

"""Rewrite the generated regions of DESIGN.md (seeded-change table) from seeded/*/meta.json + eval.json."""
import json
import re
from pathlib import Path

V = Path(__file__).resolve().parent.parent


def seeded_table():
    rows = ["| Seeded id | breaks | needs to manifest (from the adversary's notes) | confirmed | checks run → verdict |", "|---|---|---|---|---|"]
    for d in sorted((V / "seeded").iterdir()):
        if not (d / "meta.json").exists():
            continue
        m = json.loads((d / "meta.json").read_text())
        ev = json.loads((d / "eval.json").read_text()) if (d / "eval.json").exists() else {}
        verdicts = []
        for pid, r in sorted(ev.items()):
            if r["exit"] == 0:
                verdicts.append(f"{pid}: **missed**")
            elif r["exit"] == 1:
                sigs = [v.get("signature") or "?" for v in r["violations"]]
                if sigs and all(s == "broken-obligation" for s in sigs):
                    verdicts.append(f"{pid}: VIOLATION no-failing-input-found (correspondence / Tie A broke)")
                else:
                    s0 = next(s for s in sigs if s != "broken-obligation")
                    verdicts.append(f"{pid}: caught, replay `{s0[:70]}`")
            else:
                verdicts.append(f"{pid}: exit {r['exit']}")
        need = (m.get("needs_to_manifest") or "").replace("|", "/").strip("-* ")[:170]
        rows.append(f"| {m['id']} | {m['property']} | {need} | {'yes' if m.get('confirmed') else 'NO'} | {'; '.join(verdicts) or 'not run'} |")
    return "\n".join(rows)


def main():
    p = V / "DESIGN.md"
    s = p.read_text()
    s = re.sub(r"<!-- BEGIN:seeded -->.*?<!-- END:seeded -->", "<!-- BEGIN:seeded -->\n" + seeded_table() + "\n<!-- END:seeded -->", s, flags=re.S)
    p.write_text(s)


if __name__ == "__main__":
    main()

"""Rewrite the generated regions of DESIGN.md (seeded-change table) from seeded/*/meta.json + eval.json."""
import json
import re
from pathlib import Path

V = Path(__file__).resolve().parent.parent


def seeded_table():
    rows = ["| Seeded id | breaks | needs to manifest (from the adversary's notes) | confirmed | checks run → verdict |", "|---|---|---|---|---|"]
    for d in sorted((V / "seeded").iterdir()):
        if not (d / "meta.json").exists():
            continue
        m = json.loads((d / "meta.json").read_text())
        ev = json.loads((d / "eval.json").read_text()) if (d / "eval.json").exists() else {}
        verdicts = []
        for pid, r in sorted(ev.items()):
            if r["exit"] == 0:
                verdicts.append(f"{pid}: **missed**")
            elif r["exit"] == 1:
                sigs = [v.get("signature") or "?" for v in r["violations"]]
                if sigs and all(s == "broken-obligation" for s in sigs):
                    verdicts.append(f"{pid}: VIOLATION no-failing-input-found (correspondence / Tie A broke)")
                else:
                    s0 = next(s for s in sigs if s != "broken-obligation")
                    verdicts.append(f"{pid}: caught, replay `{s0[:70]}`")
            else:
                verdicts.append(f"{pid}: exit {r['exit']}")
        need = (m.get("needs_to_manifest") or "").replace("|", "/").strip("-* ")[:170]
        if m.get("superseded_by"):
            verdicts = [f"superseded by fix {m['superseded_by']} (no longer breaks the property; see meta.json)"]
        elif m.get("rebased_onto"):
            verdicts.append(f"(patch re-expressed on {m['rebased_onto']})")
        rows.append(f"| {m['id']} | {m['property']} | {need} | {'yes' if m.get('confirmed') else 'NO'} | {'; '.join(verdicts) or 'not run'} |")
    return "\n".join(rows)


def counts_table():
    kf = json.loads((V / "known_findings.json").read_text())["findings"]
    rows = ["| Id | audited theorems (last committed run) | axioms used | known findings | fixed |", "|---|---|---|---|---|"]
    tot = 0
    for i in range(1, 21):
        pid = f"C{i:02d}"
        ev = json.loads((V / "evidence" / f"{pid}.json").read_text())
        cov = ev["coverage"]
        ax = sorted({a for v in cov.get("theorems", {}).values() for a in v})
        k = len([f for f in kf if f["property"] == pid and f.get("status", "known") == "known"])
        fx = len([f for f in kf if f["property"] == pid and f.get("status") == "fixed"])
        tot += cov["obligations"]
        rows.append(f"| {pid} | {cov['discharged']} / {cov['obligations']} | {', '.join(ax) or 'none'} | {k} | {fx} |")
    rows.append(f"| total | {tot} | | {len([f for f in kf if f.get('status', 'known') == 'known'])} | {len([f for f in kf if f.get('status') == 'fixed'])} |")
    return "\n".join(rows)


def main():
    p = V / "DESIGN.md"
    s = p.read_text()
    if "<!-- BEGIN:counts -->" in s:
        ct = "<!-- BEGIN:counts -->\n" + counts_table() + "\n<!-- END:counts -->"
        s = re.sub(r"<!-- BEGIN:counts -->.*?<!-- END:counts -->", lambda m: ct, s, flags=re.S)
    st = "<!-- BEGIN:seeded -->\n" + seeded_table() + "\n<!-- END:seeded -->"
    s = re.sub(r"<!-- BEGIN:seeded -->.*?<!-- END:seeded -->", lambda m: st, s, flags=re.S)
    p.write_text(s)


if __name__ == "__main__":
    main()

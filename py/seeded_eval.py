"""Run checks against a seeded change without touching /repo.

usage: seeded_eval.py <dir with patch.diff> [--tier quick] [--seed N] PID [PID ...]

A scratch git worktree of /repo is created under /tmp, the patch is applied there, and each check is
run with RATTR_REPO / PYTHONPATH pointing at it (PYTHONPATH beats /venv's editable install). The
Generated/*.lean tables are regenerated from /repo afterwards and the worktree is removed.
"""
from __future__ import annotations

import json
import os
import subprocess
import sys
import tempfile
import time
from pathlib import Path

VERIF = Path(__file__).resolve().parent.parent


def sh(cmd, **kw):
    return subprocess.run(cmd, capture_output=True, text=True, **kw)


def main(argv):
    d = Path(argv[0]).resolve()
    tier, seed, pids = "quick", "0", []
    it = iter(argv[1:])
    for a in it:
        if a == "--tier":
            tier = next(it)
        elif a == "--seed":
            seed = next(it)
        else:
            pids.append(a.upper())
    wt = Path(tempfile.mkdtemp(prefix="rattr-seeded-"))
    wt.rmdir()
    out = {}
    try:
        r = sh(["git", "-C", "/repo", "worktree", "add", "--detach", str(wt)])
        assert r.returncode == 0, r.stderr
        r = sh(["git", "-C", str(wt), "apply", str(d / "patch.diff")])
        assert r.returncode == 0, "patch does not apply: " + r.stderr
        env = dict(os.environ, RATTR_REPO=str(wt), PYTHONPATH=str(wt), VERIF_SEED=seed)
        for pid in pids:
            t0 = time.time()
            r = sh([str(VERIF / "check"), pid, "--tier", tier], cwd=str(VERIF), env=env, timeout=3600)
            lines = [l for l in r.stdout.splitlines() if l.startswith(("VIOLATION", "INTERNAL-ERROR", f"[{pid}]"))]
            replays = []
            for l in lines:
                if l.startswith("VIOLATION"):
                    p = l.split("replay=")[1].split()[0]
                    try:
                        j = json.loads((VERIF / p).read_text())
                        replays.append({"signature": j.get("signature", j.get("kind")), "file": p,
                                        "no_failing_input": l.rstrip().endswith("no-failing-input-found")})
                    except Exception:
                        replays.append({"file": p})
            out[pid] = {"exit": r.returncode, "wall_s": round(time.time() - t0, 1), "violations": replays,
                        "summary": lines[-1] if lines else r.stdout[-300:] + r.stderr[-300:]}
            print(pid, "exit", r.returncode, [v.get("signature") for v in replays][:6])
    finally:
        sh(["git", "-C", "/repo", "worktree", "remove", "--force", str(wt)])
        sh(["/venv/bin/python", str(VERIF / "py" / "extract.py")], cwd=str(VERIF))
        sh(["lake", "build", "rattr_model"], cwd=str(VERIF / "lean"))
    prev = {}
    if (d / "eval.json").exists():
        try:
            prev = json.loads((d / "eval.json").read_text())
        except Exception:
            prev = {}
    prev.update(out)
    (d / "eval.json").write_text(json.dumps(prev, indent=1))
    return 0


if __name__ == "__main__":
    sys.exit(main(sys.argv[1:]))

"""C14 over HISTORIES of analyses in one process (library use).

The property quantifies over "all sequences of result-generation calls over the same IR"; the IR *object handed to
result generation* must describe each function's own body only. In the unchanged code every analysis builds fresh
FileIr objects, so the known defect (result generation folds callee names into the IR it is given) stays inside one
analysis: whatever an earlier generation did, the IR the NEXT analysis hands over is the IR a fresh process computes.
This stage checks exactly that, for the target's FileIr and the FileIr of every followed import:

    for every project, every history h = [t1, …, tn] of targets analysed (and generated from) in ONE interpreter
    WITHOUT clearing any cache (the Config is re-created per step exactly as `entry_point()` does), the IR document
    `serialise_irs(target, import_irs)` taken right after `parse_and_analyse_file()` of step k equals the document a
    FRESH interpreter produces for target tk.

Histories: the same target twice (then another target that shares its followed imports), and the other target
first. Styles: `library` (parse_and_analyse_file + generate_results_from_ir, pre- and post-generation documents),
`main` (the real `main(config)` with `-o ir`: the printed document of step k must be the printed document of a
fresh process).

Two realisations: (a) sub-processes (really fresh interpreters; a sample of the projects), (b) in-process for every
project of the multi-file stage (`c14multi.observe`: re-analysis of the same target and analysis of the second
target after the two generations, caches kept; the reference for the second target is taken after clearing the
functools caches).
"""
from __future__ import annotations

import ast
import hashlib
import json
import os
import subprocess
import sys
from pathlib import Path

DRIVER_NAME = "_c14_history_driver.py"

HISTORY_DRIVER = r'''
import contextlib, hashlib, io, json, sys
sys.argv = ["rattr"]
import rattr.__main__ as main_mod
from rattr.analyser.file import parse_and_analyse_file
from rattr.cli import parse_arguments
from rattr.config import Config, State
from rattr.config._types import ConfigMetaclass
from rattr.models.util import serialise_irs
from rattr.results import generate_results_from_ir

spec = json.loads(sys.stdin.read())
steps = []


def new_config(target, out):
    # what `entry_point()` does in a fresh process: a new Config from the arguments
    ConfigMetaclass._instance = None
    Config._instance = None
    return Config(arguments=parse_arguments(sys_args=spec["argv"] + ["-o", out, target]), state=State())


def reduced(doc):
    # the whole document is compared by its digest; what is shipped for classifying a difference is the document
    # without the (large) context symbol tables
    j = json.loads(doc)
    t = j["target_ir"]
    red = {"target_ir": {"filename": t.get("filename"), "ir": {k: v for k, v in t["ir"].items() if k != "context"}},
           "import_irs": {m: {k: v for k, v in ir.items() if k != "context"} for m, ir in j["import_irs"].items()}}
    return {"sha": hashlib.sha256(doc.encode()).hexdigest(), "doc": red}


def as_main(target):
    cfg = new_config(target, "ir")
    out = io.StringIO()
    with contextlib.redirect_stdout(out), contextlib.redirect_stderr(io.StringIO()):
        main_mod.main(cfg)
    return {"printed": reduced(out.getvalue())}


def as_library(target):
    new_config(target, "silent")
    with contextlib.redirect_stderr(io.StringIO()), contextlib.redirect_stdout(io.StringIO()):
        file_ir, import_irs, _stats = parse_and_analyse_file()
        pre = serialise_irs(target_name=target, target_ir=file_ir, import_irs=import_irs)
        results = generate_results_from_ir(target_ir=file_ir, import_irs=import_irs)
        post = serialise_irs(target_name=target, target_ir=file_ir, import_irs=import_irs) if spec.get("post") else None
    return {"pre": reduced(pre), "post": reduced(post) if post is not None else None,
            "results": {k: {a: sorted(b) for a, b in v.items()} for k, v in dict(results).items()}}


for target in spec["history"]:
    try:
        doc = (as_library if spec["style"] == "library" else as_main)(target)
        steps.append({"target": target, "outcome": "ok", **doc})
    except SystemExit as e:
        steps.append({"target": target, "outcome": "fatal:%s" % (e.code,)})
    except BaseException as e:
        steps.append({"target": target, "outcome": "crash:" + type(e).__name__})
print(json.dumps(steps))
'''


def second_target(src: str) -> str:
    """Another target over the same imports: the top-level definitions of `src` in reverse order, the last function
    dropped when there are more than two (imports and other statements stay where they are, in front)."""
    tree = ast.parse(src)
    lines = src.splitlines()
    head, defs = [], []
    for node in tree.body:
        start = min([node.lineno] + [d.lineno for d in getattr(node, "decorator_list", [])])
        chunk = "\n".join(lines[start - 1:node.end_lineno])
        if isinstance(node, (ast.FunctionDef, ast.AsyncFunctionDef, ast.ClassDef)):
            defs.append((node, chunk))
        else:
            head.append(chunk)
    # helper definitions other definitions are decorated with must stay in front
    deco_names = {d.id for n, _ in defs for d in getattr(n, "decorator_list", []) if isinstance(d, ast.Name)}
    deco_names |= {d.func.id for n, _ in defs for d in getattr(n, "decorator_list", [])
                   if isinstance(d, ast.Call) and isinstance(d.func, ast.Name)}
    front = [c for n, c in defs if n.name in deco_names]
    rest = [(n, c) for n, c in defs if n.name not in deco_names]
    fns = [n.name for n, _ in rest if isinstance(n, (ast.FunctionDef, ast.AsyncFunctionDef))]
    used = {x.id for n, _ in rest for x in ast.walk(n) if isinstance(x, ast.Name)}
    if len(fns) > 2:
        droppable = [f for f in fns if f not in used]
        if droppable:
            rest = [(n, c) for n, c in rest if n.name != droppable[-1]]
    rest.reverse()
    return "\n".join(head) + ("\n\n\n" if head else "") + "\n\n\n".join(front + [c for _, c in rest]) + "\n"


def with_second_target(files):
    files = dict(files)
    if "target_b.py" not in files:
        files["target_b.py"] = second_target(files["target.py"])
    return files


def argv_of(spec):
    fl = ["-w", "none", "-f", str(spec.get("level", 1))]
    for p in spec.get("excluded_imports", []):
        fl += ["-F", p]
    for p in spec.get("excluded_names", []):
        fl += ["-x", p]
    return fl


def write_driver(project: Path):
    drv = project / DRIVER_NAME
    if not drv.exists():
        import threading
        tmp = drv.with_suffix(".tmp%d_%d" % (os.getpid(), threading.get_ident()))
        tmp.write_text(HISTORY_DRIVER)
        tmp.rename(drv)


def history_run(project: Path, spec, history, style, hashseed=0, post=True):
    """One fresh interpreter, cwd = project, analysing `history` (target file names) in sequence."""
    env = dict(os.environ, PYTHONHASHSEED=str(hashseed), PYTHONDONTWRITEBYTECODE="1")
    env["PYTHONPATH"] = os.environ.get("RATTR_REPO", "/repo")
    drv = project / DRIVER_NAME
    write_driver(project)
    req = {"history": list(history), "style": style, "argv": argv_of(spec), "post": post}
    p = subprocess.run([sys.executable, drv.name], cwd=str(project), env=env, input=json.dumps(req),
                       capture_output=True, text=True, timeout=600)
    if p.returncode != 0:
        return {"error": p.stderr[-1500:]}
    try:
        return {"steps": json.loads(p.stdout)}
    except Exception:  # noqa
        return {"error": "unparseable driver output: " + p.stdout[-500:]}


# ------------------------------------------------------------------ comparing two IR documents

def doc_difference(doc_a: str, doc_b: str):
    """What differs between two serialised IR documents -> sorted list of 'where:kind' (empty when equal)."""
    if doc_a == doc_b:
        return []
    from props import c14multi
    if isinstance(doc_a, dict):         # {"sha": digest of the whole document, "doc": the document without its contexts}
        if doc_a["sha"] == doc_b["sha"]:
            return []
        ja, jb = doc_a["doc"], doc_b["doc"]
        if ja == jb:
            return ["document:context-differs"]
    else:
        ja, jb = json.loads(doc_a), json.loads(doc_b)
    out = set()
    if list(ja.get("import_irs", {})) != list(jb.get("import_irs", {})):
        out.add("document:import-irs-key-list-differs")
    ma, mb = dict(c14multi.module_docs(ja)), dict(c14multi.module_docs(jb))
    for m in ma:
        if m not in mb:
            continue
        where = "target" if m == "target" and ma[m] is ja["target_ir"]["ir"] else "import"
        kinds = set()
        c14multi.walk_doc(ma[m], mb[m], [], kinds)
        for k in kinds:
            out.add(f"{where}:" + ("names-added" if isinstance(k, tuple) else k))
    if not out:
        out.add("document:other")
    return sorted(out)


def sha(s):
    return hashlib.sha256(s.encode()).hexdigest()[:16]


HISTORIES = {"A": ["target.py", "target.py", "target_b.py"], "B": ["target_b.py", "target.py"]}
# (run, step) that must equal the fresh (run, 0): (compared step, reference step, what happened before)
PAIRS = [(("A", 1), ("A", 0), "same-target-again"),
         (("B", 1), ("A", 0), "another-target-analysed-before"),
         (("A", 2), ("B", 0), "another-target-analysed-before")]


def judge_history(res, case, style, runs):
    """runs: {"A": history_run result, "B": …}. Appends violations / internal errors; returns number of compared steps."""
    for k, r in runs.items():
        if "error" in r:
            res.internal_errors.append({"what": "history driver failed", "run": k, "case": case, "detail": r["error"]})
            return 0
    n = 0
    for (ra, ia), (rb, ib), what in PAIRS:
        a, b = runs[ra]["steps"][ia], runs[rb]["steps"][ib]
        n += 1
        if a["outcome"] != b["outcome"]:
            res.count("history:outcome-differs")
            res.violations.append({"signature": f"history:{style}:outcome-differs-from-a-fresh-process:{what}", "case": case,
                                   "history": HISTORIES[ra][:ia + 1], "in_history": a["outcome"], "fresh": b["outcome"]})
            continue
        if a["outcome"] != "ok":
            res.count("history:step-not-ok:" + a["outcome"].split(":")[0])
            continue
        if style == "library":
            d = doc_difference(b["pre"], a["pre"])
            if d:
                res.count("history:ir-handed-to-generation-differs")
                res.violations.append({"signature": f"history:ir-handed-to-generation-differs-from-a-fresh-analysis:{what}:" + "+".join(d),
                                       "case": case, "history": HISTORIES[ra][:ia + 1]})
                continue
            res.count("history:ir-handed-to-generation-equals-a-fresh-analysis:" + what)
            if a["results"] != b["results"]:
                res.violations.append({"signature": f"history:results-differ-from-a-fresh-process:{what}", "case": case,
                                       "history": HISTORIES[ra][:ia + 1], "in_history": a["results"], "fresh": b["results"]})
            if a.get("post") is None or b.get("post") is None:
                continue
            d = doc_difference(b["post"], a["post"])
            if d:
                res.count("history:ir-after-generation-differs")
                res.violations.append({"signature": f"history:ir-after-generation-differs-from-a-fresh-process:{what}:" + "+".join(d),
                                       "case": case, "history": HISTORIES[ra][:ia + 1]})
            else:
                res.count("history:ir-after-generation-equals-a-fresh-process")
        else:
            d = doc_difference(b["printed"], a["printed"])
            if d:
                res.count("history:printed-ir-differs")
                res.violations.append({"signature": f"history:main:printed-ir-differs-from-a-fresh-process:{what}:" + "+".join(d),
                                       "case": case, "history": HISTORIES[ra][:ia + 1]})
            else:
                res.count("history:main:printed-ir-equals-a-fresh-process:" + what)
    return n


def submit(ex, d, spec, style, hashseed=0, post=True):
    """Start the histories of one (already written) project on the executor."""
    write_driver(d)
    return {"style": style, "runs": {k: ex.submit(history_run, d, dict(spec), h, style, hashseed, post) for k, h in HISTORIES.items()}}


def collect(res, case, handle):
    res.evaluations += 1
    res.count("history:cases:" + handle["style"])
    n = judge_history(res, case, handle["style"], {k: f.result() for k, f in handle["runs"].items()})
    res.count("history:steps-compared", n)

"""C08, dotted calls `m.f()` x the FILE-SYSTEM LAYOUT behind the name `m`.

"A dotted call `m.f()` is inlined from module m only when m is an imported module": WHICH file is
"module m" is decided by the import system.  When a module file `m.py`, a regular package
`m/__init__.py` and / or a plain directory `m/` (no `__init__.py`: data directory, namespace portion,
left-over build directory) share the name, Python binds

    the regular package  >  the module file  >  the namespace package (which has no file at all)

per search-path entry.  The expected callee of every row is taken from CPython's own path finder
(`importlib.machinery.PathFinder.find_spec` on the project directory — never rattr's locator).

One project per (layout, depth): the module sits at top level (`lm`) or inside a regular package
(`lp.lm`).  Every candidate file defines `f` with its own distinctive attribute (`mark_modfile`,
`mark_pkginit`, `mark_helper`); some layouts leave `f` out of the file Python binds (the call then has
nothing to inline — and must not be inlined from the OTHER file).  Rows = import spelling x where the
call is made (target file / a followed import / a followed import using a relative import).
"""
from __future__ import annotations

import importlib.machinery
from pathlib import Path

F_MOD = "def f(z):\n    return z.mark_modfile\n"
F_PKG = "def f(z):\n    return z.mark_pkginit\n"
F_HELPER = "def f(z):\n    return z.mark_helper\n"
NOF = "def other(z):\n    return z.mark_other\n"

# layout id -> files relative to the directory that holds the name `lm` ({} value None = a non-Python data file)
LAYOUTS = {
    "module-only": {"lm.py": F_MOD},
    "package-only": {"lm/__init__.py": F_PKG},
    "module+package": {"lm.py": F_MOD, "lm/__init__.py": F_PKG},
    "module+package-with-submodule": {"lm.py": F_MOD, "lm/__init__.py": F_PKG, "lm/helper.py": F_HELPER},
    "module+package-without-f": {"lm.py": F_MOD, "lm/__init__.py": NOF},
    "module+empty-package": {"lm.py": F_MOD, "lm/__init__.py": ""},
    "module-without-f+package": {"lm.py": NOF, "lm/__init__.py": F_PKG},
    "module+plain-directory": {"lm.py": F_MOD, "lm/data.txt": "data\n"},
    "module+plain-directory-with-py": {"lm.py": F_MOD, "lm/helper.py": F_HELPER},
    "module+pycache-only-directory": {"lm.py": F_MOD, "lm/__pycache__/stale.txt": "x\n"},
    "plain-directory-only": {"lm/helper.py": F_HELPER},
    "package-with-f-in-submodule-only": {"lm/__init__.py": NOF, "lm/f.py": F_HELPER},
}
# layouts in which some directory named like the module has no __init__.py (rattr's `find_module_in_path` tests
# `is_dir()` first: the C13 known finding `module-shadowed-by-non-package-directory`)
HAS_PLAIN_DIR = {"module+plain-directory", "module+plain-directory-with-py", "module+pycache-only-directory",
                 "plain-directory-only"}

# spelling id -> (import statement, call expression, form class)
SPELLINGS_TOP = {
    "import-m": ("import lm", "lm.f({a})", "dotted"),
    "import-m-as-x": ("import lm as la", "la.f({a})", "dotted"),
    "from-m-import-f": ("from lm import f", "f({a})", "bare"),
    "from-m-import-f-as-g": ("from lm import f as g", "g({a})", "bare"),
}
SPELLINGS_NESTED = {
    "import-p.m-as-x": ("import lp.lm as la", "la.f({a})", "dotted"),
    "from-p-import-m": ("from lp import lm", "lm.f({a})", "dotted"),
    "from-p-import-m-as-x": ("from lp import lm as lx", "lx.f({a})", "dotted"),
    "from-p.m-import-f": ("from lp.lm import f", "f({a})", "bare"),
    "from-p.m-import-f-as-g": ("from lp.lm import f as g", "g({a})", "bare"),
}
SPELLINGS_REL = {
    "from-.-import-m": ("from . import lm", "lm.f({a})", "dotted"),
    "from-.m-import-f": ("from .lm import f", "f({a})", "bare"),
}


def tag(s):
    return "".join(ch if ch.isalnum() else "_" for ch in s)


def python_binds(root: Path, depth: int):
    """(kind, relative file or None) — what CPython's path finder binds for `lm` / `lp.lm` below `root`."""
    d = root / "lp" if depth else root
    name = "lp.lm" if depth else "lm"
    # a FRESH FileFinder = the per-path-entry finder of the import system, with no process-wide cache involved
    finder = importlib.machinery.FileFinder(str(d), (importlib.machinery.SourceFileLoader, [".py"]))
    spec = finder.find_spec(name)
    if spec is None:
        return ("not-found", None)
    if spec.loader is None or spec.origin is None:
        return ("namespace", None)
    return ("package" if spec.submodule_search_locations is not None else "module",
            str(Path(spec.origin).resolve().relative_to(root.resolve())))


def expected_mark(files, bound):
    """the mark of `f` in the file Python binds, or None when that file has no `f` (or there is no file)"""
    kind, rel = bound
    if rel is None:
        return None
    src = files.get(rel, "")
    for m in ("mark_modfile", "mark_pkginit", "mark_helper"):
        if "def f(" in src and m in src:
            return m
    return None


def build(layout: str, depth: int):
    """(files, rows): one project.  A spelling whose import statement Python itself rejects for this layout (ImportError:
    `from lm import f` when the bound module has no `f`) still is a row: nothing may be inlined."""
    base = "lp/" if depth else ""
    files = {}
    if depth:
        files["lp/__init__.py"] = ""
    for rel, src in LAYOUTS[layout].items():
        files[base + rel] = src
    spell = SPELLINGS_NESTED if depth else SPELLINGS_TOP
    rows = []
    # ---- target: one function per spelling; imports of the spellings all at the top of the target
    t_imports, t_body = [], []
    v_imports, v_body = [], []
    for sid, (imp, call, fclass) in spell.items():
        n = f"t_{tag(sid)}"
        t_imports.append(imp)
        t_body.append(f"def {n}(v):\n    {call.format(a='v')}\n")
        rows.append({"name": n, "spelling": sid, "where": "target", "fclass": fclass, "import": imp,
                     "caller": t_body[-1]})
        u = f"use_{tag(sid)}"
        v_imports.append(imp)
        v_body.append(f"def {u}(w):\n    {call.format(a='w')}\n")
        n2 = f"t_via_{tag(sid)}"
        t_body.append(f"def {n2}(v):\n    via.{u}(v)\n")
        rows.append({"name": n2, "spelling": sid, "where": "followed-import", "fclass": fclass, "import": imp,
                     "caller": t_body[-1], "via": v_body[-1]})
    files["via.py"] = "\n".join(v_imports) + "\n\n" + "\n".join(v_body)
    t_imports.append("import via")
    if depth:
        r_imports, r_body = [], []
        for sid, (imp, call, fclass) in SPELLINGS_REL.items():
            u = f"use_{tag(sid)}"
            r_imports.append(imp)
            r_body.append(f"def {u}(w):\n    {call.format(a='w')}\n")
            n3 = f"t_rel_{tag(sid)}"
            t_body.append(f"def {n3}(v):\n    lu.{u}(v)\n")
            rows.append({"name": n3, "spelling": sid, "where": "followed-import-with-relative-import", "fclass": fclass,
                         "import": imp, "caller": t_body[-1], "via": r_body[-1]})
        files["lp/user.py"] = "\n".join(r_imports) + "\n\n" + "\n".join(r_body)
        t_imports.append("import lp.user as lu")
    files["target.py"] = "\n".join(t_imports) + "\n\n" + "\n".join(t_body)
    return files, rows


def single_row_project(layout, depth, row):
    """a self-contained minimal project for ONE row (used for layouts where rattr may stop at the first import it can
    not locate, and as the replay of a failing row)."""
    base = "lp/" if depth else ""
    files = {}
    if depth:
        files["lp/__init__.py"] = ""
    for rel, src in LAYOUTS[layout].items():
        files[base + rel] = src
    if row["where"] == "target":
        files["target.py"] = row["import"] + "\n\n" + row["caller"]
    elif row["where"] == "followed-import":
        files["via.py"] = row["import"] + "\n\n" + row["via"]
        files["target.py"] = "import via\n\n" + row["caller"]
    else:
        files["lp/user.py"] = row["import"] + "\n\n" + row["via"]
        files["target.py"] = "import lp.user as lu\n\n" + row["caller"]
    return files


# the plain-directory layout whose rows each get a project of their own
PER_ROW = {"module+plain-directory"}


def all_projects():
    """[(layout, depth, files, rows)] — one project per (layout, depth); for `module+plain-directory` one project PER ROW (an
    import rattr can not locate is fatal for the whole run, so in a shared project the rows after the first import are not
    exercised on today's code; the sibling plain-directory layouts share one project per depth and become live as soon as
    the locator finds the module)."""
    out = []
    for layout in LAYOUTS:
        for depth in (0, 1):
            files, rows = build(layout, depth)
            if layout in PER_ROW:
                for r in rows:
                    out.append((layout, depth, single_row_project(layout, depth, r), [r]))
            else:
                out.append((layout, depth, files, rows))
    return out


# ------------------------------------------------------------------ two search-path entries

R1_MOD = "def f(z):\n    return z.mark_r1_modfile\n"
R1_PKG = "def f(z):\n    return z.mark_r1_pkginit\n"
R1_LAYOUTS = {
    "module-only": {"lm.py": R1_MOD},
    "package-only": {"lm/__init__.py": R1_PKG},
    "module+package": {"lm.py": R1_MOD, "lm/__init__.py": R1_PKG},
}
# (layout of the name in the project directory = first path entry | None, layout in the second path entry)
TWO_ROOTS = [
    (None, "module-only"), (None, "package-only"), (None, "module+package"),
    ("module-only", "package-only"), ("package-only", "module-only"), ("module+package", "module-only"),
    ("plain-directory-only", "module-only"), ("plain-directory-only", "package-only"),
    ("module+plain-directory", "module-only"), ("module+plain-directory", "package-only"),
]
TWO_ROOT_SPELLINGS = ("import-m", "from-m-import-f")


def build_two_roots(l0, l1):
    """(files of the project directory, files of the second path entry, rows) — calls made in the target only"""
    files0 = dict(LAYOUTS[l0]) if l0 else {}
    files1 = dict(R1_LAYOUTS[l1])
    rows, imports, body = [], [], []
    for sid in TWO_ROOT_SPELLINGS:
        imp, call, fclass = SPELLINGS_TOP[sid]
        n = f"t_{tag(sid)}"
        imports.append(imp)
        body.append(f"def {n}(v):\n    {call.format(a='v')}\n")
        rows.append({"name": n, "spelling": sid, "where": "target", "fclass": fclass, "import": imp, "caller": body[-1]})
    files0["target.py"] = "\n".join(imports) + "\n\n" + "\n".join(body)
    return files0, files1, rows


def python_binds_two_roots(root0: Path, root1: Path):
    """CPython's PathFinder over the two path entries (a namespace portion in the first entry loses to a regular module or
    package in the second).  Fresh FileFinders (no `sys.path_importer_cache`)."""
    hooks = importlib.machinery.FileFinder.path_hook((importlib.machinery.SourceFileLoader, [".py"]))
    namespace = False
    for i, r in enumerate((root0, root1)):
        spec = hooks(str(r)).find_spec("lm")
        if spec is None:
            continue
        if spec.loader is None:
            namespace = True        # a portion: remembered, the search goes on
            continue
        return ("package" if spec.submodule_search_locations is not None else "module", i,
                str(Path(spec.origin).resolve().relative_to(Path(r).resolve())))
    return ("namespace" if namespace else "not-found", None, None)


def expected_mark_two_roots(files0, files1, bound):
    kind, i, rel = bound
    if rel is None:
        return None
    src = (files0, files1)[i].get(rel, "")
    for m in ("mark_r1_modfile", "mark_r1_pkginit", "mark_modfile", "mark_pkginit", "mark_helper"):
        if "def f(" in src and m in src:
            return m
    return None

"""C09 — recorded call arguments mirror the call site (incl. constructed instance)."""
from __future__ import annotations

import random
import warnings

import common
from props import accessspec as spec
from props import c09order
from props import visitlib as vl

PID = "C09"

WITNESSES = '''
def w_assigned(a, b):
    x = Cls(a.p, b, k=a.q)
    a.attr = Cls(b)
    y: int = Bare()
    z = NT(a, b.c)
def w_returned(a, b):
    return Cls(a, b.q), [Bare(), NT(a, 1)], {"k": Cls(b, k=a)}
def w_discarded(a, b):
    Cls(a, b)
    print(Cls(a.x), Bare())
    [Cls(b)]
    with Cls(a) as c:
        pass
def w_plain(a, b):
    helper(a.x, b[0], a.m(), 1, "s", (a, b), *a.rest, w=b.y, **b.kw)
    a.meth(b, k=a.z)
def w_walrus(a):
    (n := Cls(a))
'''


def run(tier, seed, build):
    warnings.simplefilter("ignore")
    res = common.Result(PID)
    res.rule = ("same generated modules as C01 + constructor-context witnesses; per function: real FunctionAnalyser vs Lean "
                "model (call records incl. args, kwargs, target), then for every call expression in a visited position the "
                "real IR must contain the record (name, [instance?] + spelled positionals in source order, keywords by name); "
                "instance = assignment target / @ReturnValue / @ClassName decided from the syntax alone. "
                "non-trivial = distinct function with >= 1 judged call having >= 1 argument. "
                "stage A (argument slots, py/props/c09args.py) — every argument expression over the whole nameable grammar (exhaustive to depth 3 "
                "over {.attr, [sub], calls with 0-3 inner arguments, getattr with literal / non-literal / missing / extra arguments, hole as object "
                "and as name} on {variable, builtin's name, literal}, depth 2 for hasattr / setattr / delattr and the full leaf set, every other "
                "ast.expr class as root and below one / two steps, seeded random trees to depth 7) x eleven call-site kinds (function first / second "
                "positional + keyword, method, starred, nested call, constructor assigned to name / attribute / walrus, returned bare / in a list, "
                "discarded; full product for the small expressions, rotation by index + seed for the rest): the record must list the README "
                "spelling (Lean Spec.spell through the driver op arg_spell) in that slot — in the FunctionAnalyser IR (+ Tie B with the Lean "
                "function analyser and with the Lean namer on the same expression), in `python -m rattr -o ir`, end-to-end in `-o results` "
                "(callee's accesses attributed to the argument), and with the callees in a followed import; "
                "non-trivial = distinct (channel, call-site kind, argument expression). "
                "stage O (other functions of the file, py/props/c09order.py) — files = module-level classes (with / without initialiser, two "
                "namedtuple declarations), function, named lambda, imported function, builtin + one user + a SHADOWING callable (def / async def / "
                "initialiser / static method / nested def / lambda) that binds a local of that name (14 binder kinds: assignment forms, loop / with "
                "target, walrus, unpacking, parameter, nested def, except-as, comprehension) and unbinds it (12 kinds: none, del N, del (N, x), "
                "del [N], in if / loop / try-finally, twice, rebinding, del N.attr, del N[0]) + the users after it (constructor assigned to name / "
                "attribute / annotated / subscript / walrus, returned bare / in containers, discarded as statement / argument / display / with-item; "
                "plain calls): every user judged by the same call-site oracle AND against its records in the file without the shadowing callable "
                "(quick: binder x unbinder product, half of binder x name and unbinder x name, every host x every name); channels: real FileAnalyser "
                "in-process (+ Tie B op analyse_file on the whole file), `python -m rattr -o ir` on composite files (10 shadowing callables + the "
                "users of every name), and the composite file as a followed import; non-trivial = distinct file with >= 1 judged call")
    rng = random.Random(seed)
    n_modules = 60 if tier == "quick" else 900
    model = common.Model()
    from props.bodygen import PREAMBLE
    wit_names = [l.split("(")[0][4:] for l in WITNESSES.splitlines() if l.startswith("def ")]
    cases = vl.run_batch(rng, n_modules, model, extra_sources=[(PREAMBLE + WITNESSES, wit_names)])
    cases += vl.run_file_batch(rng, n_modules // 3, model)
    for c in cases:
        res.evaluations += 1
        case = {"function": c.fn_src}
        if c.diff is not None:
            res.disagreements.append({"case": case, "diff": c.diff[:2000]})
        if c.im["outcome"] != "ok":
            continue
        classes = spec.local_class_names(c.fn, vl.MODULE_CLASSES)
        judged = c09order.judge_function(res, c.fn, c.im["calls"], classes, case)
        if judged and any(len(r["args"]) for r in c.im["calls"]):
            res.nontrivial.add(common.digest(c.fn_src))
        res.sample({"function": c.fn_src, "calls": c.im["calls"][:4]}, cap=3)
    imported_class_case(res)
    # stage A: the spelling of every argument slot for arbitrary argument expressions (py/props/c09args.py)
    from props import c09args

    c09args.run_stage(res, tier, random.Random(seed * 7919 + 9), seed, model)
    # stage O: the records of a function do not depend on what the other functions of the file do (py/props/c09order.py)
    c09order.run_stage(res, tier, random.Random(seed * 104729 + 17), seed, model)
    res.assumptions = [
        "which callee names are classes is decided from the module preamble (class statements, namedtuple declarations) and namedtuple declarations in the function",
        "[interp] call-site spelling = README spelling of each argument expression",
        "[interp] stage A: the README spelling of an argument is Lean Spec.spell of its projection; an argument read through a DIRECT "
        "getattr-family call with a non-literal name or fewer than two positional arguments has no dotted equivalent and is not judged "
        "(counted args:*:not-judged:*; rattr's 'o.<n>' is still compared with the Lean model); a direct getattr-family call with fewer than two "
        "arguments is not a valid call of the builtin, so the abort it causes is not judged either",
        "stage A judges the record of the probe's own call site only; the records of calls INSIDE the argument expression (e.g. the inner "
        "`.pick(v, 'name')`) are named by the visitor's namer and belong to C10 / C01",
        "stage A: when the analysis ends in a fatal / crash AFTER the call record was made (the visitor reaches the argument later), the "
        "partial IR is judged; when it ends BEFORE, the case is classified syntactically (abort_class) — two classes are known findings, "
        "anything else is a violation",
        "stage A file channels hold the probes whose in-process analysis ended ok (at most 1500 in quick: all small ones + a seed-dependent stride)",
        "stage O: a shadowing callable only ever binds LOCALS (no `global` / `nonlocal` declaration), so in Python the module-level class / function "
        "the later functions use is untouched; a file whose analysis does not end ok with the shadowing callable (counted order:file-not-ok:*) is not judged",
    ]
    return res


def imported_class_case(res):
    """A class reached through an import: Python constructs an instance exactly as for a local class."""
    import shutil
    import tempfile
    from pathlib import Path

    import impl

    tmp = Path(tempfile.mkdtemp(prefix="rattr-c09-"))
    try:
        (tmp / "b.py").write_text("class C:\n    def __init__(self, a):\n        self.from_b = a.w\n")
        src = "from b import C\n\ndef f(p):\n    x = C(p)\n    return C(p.q)\n"
        (tmp / "target.py").write_text(src)
        with impl.in_dir(tmp):
            tree, ctx = vl.prepare(src)
            fn = next(n for n in tree.body if getattr(n, "name", "") == "f")
            im, _ = vl.analyse_function(fn, ctx)
        res.evaluations += 1
        recs = sorted((r["name"], tuple(r["args"])) for r in im["calls"])
        want = [("C", ("@ReturnValue", "p.q")), ("C", ("x", "p"))]
        if recs == want:
            res.count("imported-class:instance-prepended")
        else:
            res.count("verdict:instance-argument-missing:imported-class")
            res.violations.append({"signature": "instance-argument-missing:imported-class",
                                   "case": {"files": {"b.py": (tmp / "b.py").read_text(), "target.py": src}},
                                   "expected": want, "recorded": recs})
    finally:
        shutil.rmtree(tmp, ignore_errors=True)


def replay(path):
    import json
    j = json.load(open(path))
    case = j.get("case") or {}
    if case.get("stage") == "order":
        import impl
        from props import c09order

        impl.reset_config()
        return c09order.replay_case(case)
    if case.get("stage") == "args":
        import impl
        from props import c09args

        impl.reset_config()
        return c09args.replay_case(case)
    print(json.dumps(j, indent=1)[:5000])
    return 0

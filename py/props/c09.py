"""C09 — recorded call arguments mirror the call site (incl. constructed instance)."""
from __future__ import annotations

import random
import warnings

import common
from props import accessspec as spec
from props import visitlib as vl

PID = "C09"

WITNESSES = '''
def w_assigned(a, b):
    x = Cls(a.p, b, k=a.q)
    a.attr = Cls(b)
    y: int = Bare()
    z = NT(a, b.c)
def w_returned(a, b):
    return Cls(a, b.q), [Bare(), NT(a, 1)], {"k": Cls(b, k=a)}
def w_discarded(a, b):
    Cls(a, b)
    print(Cls(a.x), Bare())
    [Cls(b)]
    with Cls(a) as c:
        pass
def w_plain(a, b):
    helper(a.x, b[0], a.m(), 1, "s", (a, b), *a.rest, w=b.y, **b.kw)
    a.meth(b, k=a.z)
def w_walrus(a):
    (n := Cls(a))
'''


def run(tier, seed, build):
    warnings.simplefilter("ignore")
    res = common.Result(PID)
    res.rule = ("same generated modules as C01 + constructor-context witnesses; per function: real FunctionAnalyser vs Lean "
                "model (call records incl. args, kwargs, target), then for every call expression in a visited position the "
                "real IR must contain the record (name, [instance?] + spelled positionals in source order, keywords by name); "
                "instance = assignment target / @ReturnValue / @ClassName decided from the syntax alone. "
                "non-trivial = distinct function with >= 1 judged call having >= 1 argument. "
                "stage A (argument slots, py/props/c09args.py) — every argument expression over the whole nameable grammar (exhaustive to depth 3 "
                "over {.attr, [sub], calls with 0-3 inner arguments, getattr with literal / non-literal / missing / extra arguments, hole as object "
                "and as name} on {variable, builtin's name, literal}, depth 2 for hasattr / setattr / delattr and the full leaf set, every other "
                "ast.expr class as root and below one / two steps, seeded random trees to depth 7) x eleven call-site kinds (function first / second "
                "positional + keyword, method, starred, nested call, constructor assigned to name / attribute / walrus, returned bare / in a list, "
                "discarded; full product for the small expressions, rotation by index + seed for the rest): the record must list the README "
                "spelling (Lean Spec.spell through the driver op arg_spell) in that slot — in the FunctionAnalyser IR (+ Tie B with the Lean "
                "function analyser and with the Lean namer on the same expression), in `python -m rattr -o ir`, end-to-end in `-o results` "
                "(callee's accesses attributed to the argument), and with the callees in a followed import; "
                "non-trivial = distinct (channel, call-site kind, argument expression)")
    rng = random.Random(seed)
    n_modules = 60 if tier == "quick" else 900
    model = common.Model()
    from props.bodygen import PREAMBLE
    wit_names = [l.split("(")[0][4:] for l in WITNESSES.splitlines() if l.startswith("def ")]
    cases = vl.run_batch(rng, n_modules, model, extra_sources=[(PREAMBLE + WITNESSES, wit_names)])
    cases += vl.run_file_batch(rng, n_modules // 3, model)
    for c in cases:
        res.evaluations += 1
        case = {"function": c.fn_src}
        if c.diff is not None:
            res.disagreements.append({"case": case, "diff": c.diff[:2000]})
        if c.im["outcome"] != "ok":
            continue
        classes = spec.local_class_names(c.fn, vl.MODULE_CLASSES)
        pm = spec.parent_map(c.fn)
        records = {}
        for r in c.im["calls"]:
            records.setdefault(r["name"], []).append((r["args"], r["kwargs"]))
        judged = 0
        for a in spec.accesses(c.fn, classes):
            if a.kind != "call" or a.tags:
                continue        # dropped / custom-analysed positions are C01's findings
            call = a.node
            callee = spec.wcb(spec.spell(call))
            self_name = None
            ctx_kind = "plain"
            if callee in classes:
                self_name = spec.expected_self(call, pm, callee)
                if self_name is None:
                    res.count("context:not-one-to-one-skipped")
                    continue
                ctx_kind = "assigned" if not self_name.startswith("@") else ("returned" if self_name == "@ReturnValue" else "discarded")
            exp_args, exp_kwargs = spec.expected_record(call, self_name)
            judged += 1
            res.count("context:" + ctx_kind)
            res.count(f"nargs:{min(len(call.args), 4)}+kw{min(len(call.keywords), 2)}")
            got = records.get(callee, [])
            if (exp_args, exp_kwargs) in [(g[0], g[1]) for g in got]:
                continue
            if not got:
                sig = "call-record-missing"
            elif any(g[0][-len(call.args):] == exp_args[-len(call.args):] and g[1] == exp_kwargs for g in got if call.args) or \
                    (not call.args and any(g[1] == exp_kwargs for g in got)):
                sig = f"instance-argument-wrong:{ctx_kind}"
            elif any(sorted(g[0]) == sorted(exp_args) for g in got):
                sig = "positional-arguments-out-of-order"
            else:
                sig = "arguments-misspelled-or-dropped"
            res.count("verdict:" + sig)
            res.violations.append({"signature": sig, "case": case, "call": spec.spell(call), "line": call.lineno,
                                   "expected": {"args": exp_args, "kwargs": exp_kwargs}, "recorded": got})
        if judged and any(len(x[0]) for v in records.values() for x in v):
            res.nontrivial.add(common.digest(c.fn_src))
        res.sample({"function": c.fn_src, "calls": c.im["calls"][:4]}, cap=3)
    imported_class_case(res)
    # stage A: the spelling of every argument slot for arbitrary argument expressions (py/props/c09args.py)
    from props import c09args

    c09args.run_stage(res, tier, random.Random(seed * 7919 + 9), seed, model)
    res.assumptions = [
        "which callee names are classes is decided from the module preamble (class statements, namedtuple declarations) and namedtuple declarations in the function",
        "[interp] call-site spelling = README spelling of each argument expression",
        "[interp] stage A: the README spelling of an argument is Lean Spec.spell of its projection; an argument read through a DIRECT "
        "getattr-family call with a non-literal name or fewer than two positional arguments has no dotted equivalent and is not judged "
        "(counted args:*:not-judged:*; rattr's 'o.<n>' is still compared with the Lean model); a direct getattr-family call with fewer than two "
        "arguments is not a valid call of the builtin, so the abort it causes is not judged either",
        "stage A judges the record of the probe's own call site only; the records of calls INSIDE the argument expression (e.g. the inner "
        "`.pick(v, 'name')`) are named by the visitor's namer and belong to C10 / C01",
        "stage A: when the analysis ends in a fatal / crash AFTER the call record was made (the visitor reaches the argument later), the "
        "partial IR is judged; when it ends BEFORE, the case is classified syntactically (abort_class) — two classes are known findings, "
        "anything else is a violation",
        "stage A file channels hold the probes whose in-process analysis ended ok (at most 1500 in quick: all small ones + a seed-dependent stride)",
    ]
    return res


def imported_class_case(res):
    """A class reached through an import: Python constructs an instance exactly as for a local class."""
    import shutil
    import tempfile
    from pathlib import Path

    import impl

    tmp = Path(tempfile.mkdtemp(prefix="rattr-c09-"))
    try:
        (tmp / "b.py").write_text("class C:\n    def __init__(self, a):\n        self.from_b = a.w\n")
        src = "from b import C\n\ndef f(p):\n    x = C(p)\n    return C(p.q)\n"
        (tmp / "target.py").write_text(src)
        with impl.in_dir(tmp):
            tree, ctx = vl.prepare(src)
            fn = next(n for n in tree.body if getattr(n, "name", "") == "f")
            im, _ = vl.analyse_function(fn, ctx)
        res.evaluations += 1
        recs = sorted((r["name"], tuple(r["args"])) for r in im["calls"])
        want = [("C", ("@ReturnValue", "p.q")), ("C", ("x", "p"))]
        if recs == want:
            res.count("imported-class:instance-prepended")
        else:
            res.count("verdict:instance-argument-missing:imported-class")
            res.violations.append({"signature": "instance-argument-missing:imported-class",
                                   "case": {"files": {"b.py": (tmp / "b.py").read_text(), "target.py": src}},
                                   "expected": want, "recorded": recs})
    finally:
        shutil.rmtree(tmp, ignore_errors=True)


def replay(path):
    import json
    j = json.load(open(path))
    case = j.get("case") or {}
    if case.get("stage") == "args":
        import impl
        from props import c09args

        impl.reset_config()
        return c09args.replay_case(case)
    print(json.dumps(j, indent=1)[:5000])
    return 0

"""C09 — recorded call arguments mirror the call site (incl. constructed instance)."""
from __future__ import annotations

import random
import warnings

import common
from props import accessspec as spec
from props import visitlib as vl

PID = "C09"

WITNESSES = '''
def w_assigned(a, b):
    x = Cls(a.p, b, k=a.q)
    a.attr = Cls(b)
    y: int = Bare()
    z = NT(a, b.c)
def w_returned(a, b):
    return Cls(a, b.q), [Bare(), NT(a, 1)], {"k": Cls(b, k=a)}
def w_discarded(a, b):
    Cls(a, b)
    print(Cls(a.x), Bare())
    [Cls(b)]
    with Cls(a) as c:
        pass
def w_plain(a, b):
    helper(a.x, b[0], a.m(), 1, "s", (a, b), *a.rest, w=b.y, **b.kw)
    a.meth(b, k=a.z)
def w_walrus(a):
    (n := Cls(a))
'''


def run(tier, seed, build):
    warnings.simplefilter("ignore")
    res = common.Result(PID)
    res.rule = ("same generated modules as C01 + constructor-context witnesses; per function: real FunctionAnalyser vs Lean "
                "model (call records incl. args, kwargs, target), then for every call expression in a visited position the "
                "real IR must contain the record (name, [instance?] + spelled positionals in source order, keywords by name); "
                "instance = assignment target / @ReturnValue / @ClassName decided from the syntax alone. "
                "non-trivial = distinct function with >= 1 judged call having >= 1 argument")
    rng = random.Random(seed)
    n_modules = 60 if tier == "quick" else 900
    model = common.Model()
    from props.bodygen import PREAMBLE
    wit_names = [l.split("(")[0][4:] for l in WITNESSES.splitlines() if l.startswith("def ")]
    cases = vl.run_batch(rng, n_modules, model, extra_sources=[(PREAMBLE + WITNESSES, wit_names)])
    for c in cases:
        res.evaluations += 1
        case = {"function": c.fn_src}
        if c.diff is not None:
            res.disagreements.append({"case": case, "diff": c.diff[:2000]})
        if c.im["outcome"] != "ok":
            continue
        classes = spec.local_class_names(c.fn, vl.MODULE_CLASSES)
        pm = spec.parent_map(c.fn)
        records = {}
        for r in c.im["calls"]:
            records.setdefault(r["name"], []).append((r["args"], r["kwargs"]))
        judged = 0
        for a in spec.accesses(c.fn, classes):
            if a.kind != "call" or a.tags:
                continue        # dropped / custom-analysed positions are C01's findings
            call = a.node
            callee = spec.wcb(spec.spell(call))
            self_name = None
            ctx_kind = "plain"
            if callee in classes:
                self_name = spec.expected_self(call, pm, callee)
                if self_name is None:
                    res.count("context:not-one-to-one-skipped")
                    continue
                ctx_kind = "assigned" if not self_name.startswith("@") else ("returned" if self_name == "@ReturnValue" else "discarded")
            exp_args, exp_kwargs = spec.expected_record(call, self_name)
            judged += 1
            res.count("context:" + ctx_kind)
            res.count(f"nargs:{min(len(call.args), 4)}+kw{min(len(call.keywords), 2)}")
            got = records.get(callee, [])
            if (exp_args, exp_kwargs) in [(g[0], g[1]) for g in got]:
                continue
            if not got:
                sig = "call-record-missing"
            elif any(g[0][-len(call.args):] == exp_args[-len(call.args):] and g[1] == exp_kwargs for g in got if call.args) or \
                    (not call.args and any(g[1] == exp_kwargs for g in got)):
                sig = f"instance-argument-wrong:{ctx_kind}"
            elif any(sorted(g[0]) == sorted(exp_args) for g in got):
                sig = "positional-arguments-out-of-order"
            else:
                sig = "arguments-misspelled-or-dropped"
            res.count("verdict:" + sig)
            res.violations.append({"signature": sig, "case": case, "call": spec.spell(call), "line": call.lineno,
                                   "expected": {"args": exp_args, "kwargs": exp_kwargs}, "recorded": got})
        if judged and any(len(x[0]) for v in records.values() for x in v):
            res.nontrivial.add(common.digest(c.fn_src))
        res.sample({"function": c.fn_src, "calls": c.im["calls"][:4]}, cap=3)
    res.assumptions = [
        "which callee names are classes is decided from the module preamble (class statements, namedtuple declarations) and namedtuple declarations in the function",
        "[interp] call-site spelling = README spelling of each argument expression",
    ]
    return res


def replay(path):
    import json
    print(json.dumps(json.load(open(path)), indent=1)[:5000])
    return 0

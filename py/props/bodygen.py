"""G_body: generator of function bodies over every statement kind x expression kind x context.

Sources are assembled as text and parsed, so every program is valid Python 3.12. Every attribute
name carries a fresh number, so a missing access maps to exactly one place in the body.
"""
from __future__ import annotations

import ast
import random

PREAMBLE = '''import collections
import os
from collections import defaultdict, namedtuple
from os import path as ospath

class Cls:
    def __init__(self, a, b=0, *rest, k=None):
        self.x = a
        self.y = b.q

class Bare:
    pass

class WithStatic:
    @staticmethod
    def sm(v):
        return v.sm_attr

def helper(z, w=0):
    return z.secret

async def ahelper(z):
    return z.asecret

lam = lambda q: q.in_lam
NT = namedtuple("NT", ["u", "v"])
glob = 1
other_glob = [1, 2]

'''

PARAM_POOL = ["a", "b", "c", "d"]


class BodyGen:
    def __init__(self, rng: random.Random, hostile=0.04, max_depth=3):
        self.r = rng
        self.n = 0
        self.hostile = hostile
        self.max_depth = max_depth
        self.params = ["a", "b"]
        self.locals = []

    def fresh(self, p="x"):
        self.n += 1
        return f"{p}{self.n}"

    # ---------------------------------------------------------------- expressions
    def var(self):
        r = self.r
        pool = self.params + self.locals[-3:] + (["glob"] if r.random() < 0.1 else [])
        if r.random() < 0.03:
            return self.fresh("undef")
        return r.choice(pool)

    def atom(self):
        r = self.r
        k = r.random()
        v = self.var()
        if k < 0.25:
            return v
        if k < 0.6:
            return f"{v}.{self.fresh('a')}"
        if k < 0.7:
            return f"{v}.{self.fresh('a')}.{self.fresh('a')}"
        if k < 0.8:
            return f"{v}[{r.choice(['0', repr('k'), self.var() + '.' + self.fresh('i')])}]"
        if k < 0.86:
            return r.choice(["1", "'s'", "None", "True", "b'x'", "1.5"])
        if k < 0.92:
            return f"{v}.{self.fresh('a')}[{r.choice(['0', self.var()])}][{r.choice(['1', self.var() + '.' + self.fresh('i')])}]"
        return f"{v}.{self.fresh('m')}()"

    def expr(self, d=0):
        r = self.r
        if d >= self.max_depth or r.random() < 0.3:
            return self.atom()
        E = lambda: self.expr(d + 1)  # noqa: E731
        kinds = [
            "binop", "boolop", "unary", "compare", "ifexp", "call", "method", "attr_of", "sub_of", "tuple", "list", "set",
            "dict", "listcomp", "setcomp", "dictcomp", "genexp", "lambda", "fstring", "walrus", "slice", "getattr",
            "setattr", "hasattr", "delattr", "sorted", "defaultdict", "cls", "lamcall", "helper", "starcall", "await_",
            "yield_", "chain", "callcall", "subcall", "static", "ospath", "nested_getattr", "builtin", "kwcall",
            "kw_after_unpack", "like_namedtuple",
        ]
        k = r.choice(kinds)
        v = self.var()
        if k == "binop":
            return f"({E()} {r.choice(['+', '-', '*', '//', '%', '|', '&'])} {E()})"
        if k == "boolop":
            return f"({E()} {r.choice(['and', 'or'])} {E()})"
        if k == "unary":
            return f"({r.choice(['not ', '-', '~'])}{E()})"
        if k == "compare":
            return f"({E()} {r.choice(['<', '==', 'in', 'is not'])} {E()})"
        if k == "ifexp":
            return f"({E()} if {E()} else {E()})"
        if k == "call":
            return f"{r.choice(['print', 'len', 'str', 'helper', 'unknown_fn', 'lam', 'isinstance'])}({E()})"
        if k == "method":
            return f"{v}.{self.fresh('m')}({E()}, {self.fresh('kw')}={E()})"
        if k == "attr_of":
            return f"({E()}).{self.fresh('a')}"
        if k == "sub_of":
            return f"({E()})[{E()}]"
        if k == "tuple":
            return f"({E()}, {E()})"
        if k == "list":
            return f"[{E()}, {E()}]"
        if k == "set":
            return f"{{{E()}, {E()}}}"
        if k == "dict":
            return f"{{{E()}: {E()}, **{E()}}}"
        if k in ("listcomp", "setcomp", "genexp"):
            t = self.fresh("t")
            o, c = {"listcomp": "[]", "setcomp": "{}", "genexp": "()"}[k]
            self.locals.append(t)
            body = f"{o}{t}.{self.fresh('a')} for {t} in {E()} if {t}.{self.fresh('a')}{c}"
            self.locals.pop()
            return body
        if k == "dictcomp":
            t, u = self.fresh("t"), self.fresh("t")
            return f"{{{t}: {u}.{self.fresh('a')} for {t}, {u} in {E()}.items()}}"
        if k == "lambda":
            w = self.fresh("w")
            return f"(lambda {w}: {w}.{self.fresh('a')} + {v}.{self.fresh('a')})"
        if k == "fstring":
            return "f\"{" + E() + "!r:>{" + self.atom() + "}}\""
        if k == "walrus":
            n = self.fresh("n")
            self.locals.append(n)
            return f"({n} := {E()})"
        if k == "slice":
            return f"{v}.{self.fresh('a')}[{E()}:{E()}]"
        if k == "getattr":
            return f"getattr({r.choice([v, v + '.' + self.fresh('a'), v + '[0]'])}, '{self.fresh('lit')}')"
        if k == "nested_getattr":
            return f"getattr(getattr({v}, '{self.fresh('lit')}'), '{self.fresh('lit')}')"
        if k == "setattr":
            return f"setattr({v}, '{self.fresh('lit')}', {E()})"
        if k == "hasattr":
            return f"hasattr({v}.{self.fresh('a')}, '{self.fresh('lit')}')"
        if k == "delattr":
            return f"delattr({v}, '{self.fresh('lit')}')"
        if k == "sorted":
            w = self.fresh("w")
            return r.choice([
                f"sorted({E()}, key=lambda {w}: {w}.{self.fresh('a')})",
                f"sorted({v}.{self.fresh('a')}, key={v}.{self.fresh('a')}, reverse={E()})",
                f"sorted({E()})",
            ])
        if k == "defaultdict":
            return r.choice([f"defaultdict({v}.{self.fresh('a')})", f"defaultdict(lambda: {E()})", "defaultdict(list)",
                             f"collections.defaultdict({E()})"])
        if k == "cls":
            return f"{r.choice(['Cls', 'Bare', 'NT'])}({E()}, {E()})"
        if k == "lamcall":
            return f"lam({E()})"
        if k == "helper":
            return f"helper({E()}, w={E()})"
        if k == "starcall":
            return f"helper(*{v}.{self.fresh('a')}, **{v}.{self.fresh('a')})"
        if k == "await_":
            return f"(await {E()})"
        if k == "yield_":
            return f"(yield {E()})"
        if k == "chain":
            return f"{v}.{self.fresh('m')}({E()}).{self.fresh('a')}.{self.fresh('m')}({E()})"
        if k == "callcall":
            return f"helper({E()})({E()})"
        if k == "subcall":
            return f"{v}[{E()}]({E()})"
        if k == "static":
            return f"WithStatic.sm({E()})"
        if k == "ospath":
            return r.choice([f"os.path.join({E()})", f"ospath.join({E()})", f"collections.OrderedDict({E()})"])
        if k == "builtin":
            return f"{r.choice(['max', 'dict', 'enumerate', 'zip'])}({E()}, {E()})"
        if k == "kwcall":
            return f"helper(z={E()}, w={E()})"
        if k == "kw_after_unpack":
            return f"helper({E()}, **{v}.{self.fresh('a')}, w={E()})"
        if k == "like_namedtuple":
            return r.choice([f"row_to_namedtuple({E()})", f"{v}.as_namedtuple({E()}, {E()})"])
        raise AssertionError(k)

    def target(self, d=0):
        """An assignment / for / with target."""
        r = self.r
        k = r.random()
        v = self.var()
        if k < 0.45:
            n = self.fresh("loc")
            self.locals.append(n)
            return n
        if k < 0.7:
            return f"{v}.{self.fresh('s')}"
        if k < 0.78:
            return f"{v}[{self.atom()}]"
        if k < 0.82:
            return f"{v}.{self.fresh('s')}[{self.atom()}][{self.atom()}]"
        if k < 0.9 and d < 1:
            return f"({self.target(d + 1)}, {self.target(d + 1)})"
        if k < 0.95 and d < 1:
            return f"[{self.target(d + 1)}, *{self.target(d + 1)}]"
        if r.random() < self.hostile * 5:
            return f"({self.atom()} + {self.atom()}).{self.fresh('s')}"      # crash shape K4
        return f"{v}.{self.fresh('s')}.{self.fresh('s')}"

    # ---------------------------------------------------------------- statements
    def block(self, d, n=None):
        n = n or self.r.randint(1, 2)
        out = []
        for _ in range(n):
            out.extend(self.stmt(d))
        return out

    def stmt(self, d=0):
        """Returns a list of source lines (relative indentation with 4 spaces)."""
        r = self.r
        E = self.expr
        ind = lambda lines: ["    " + l for l in lines]  # noqa: E731
        kinds = ["expr"] * 5 + ["assign"] * 3 + ["multiassign", "augassign", "annassign", "annonly", "delete", "delname",
                 "del_container", "shadow_global_del", "use_global",
                 "return", "assert", "raise", "pass", "clsassign", "lamassign", "ntassign", "retcls"]
        if d < 2:
            kinds += ["for", "while", "if", "with", "try", "match", "def", "class", "asyncfor", "asyncwith", "forelse"]
        if r.random() < self.hostile:
            kinds = ["global", "import", "nonlocal", "importfrom", "multi_lambda", "multi_cls"]
        k = r.choice(kinds)
        if k == "expr":
            return [E()]
        if k == "assign":
            return [f"{self.target()} = {E()}"]
        if k == "multiassign":
            return [f"{self.target()} = {self.target()} = {E()}"]
        if k == "augassign":
            t = r.choice([self.var(), f"{self.var()}.{self.fresh('s')}", f"{self.var()}[{self.atom()}]"])
            return [f"{t} {r.choice(['+=', '-=', '|='])} {E()}"]
        if k == "annassign":
            return [f"{r.choice([self.fresh('loc'), self.var() + '.' + self.fresh('s')])}: {self.atom()} = {E()}"]
        if k == "annonly":
            return [f"{self.fresh('loc')}: {self.atom()}"]
        if k == "delete":
            return [f"del {self.var()}.{self.fresh('d')}, {self.var()}[{self.atom()}]"]
        if k == "delname":
            v = r.choice(self.params + self.locals) if (self.params + self.locals) else "a"
            return [f"del {v}", f"{v}.{self.fresh('afterdel')}"]
        if k == "del_container":
            x, y = self.fresh("loc"), self.fresh("loc")
            self.locals.extend([x, y])
            return [f"{x} = {self.atom()}", f"{y} = {self.atom()}",
                    r.choice([f"del ({x}, {y})", f"del [{x}]", f"del {y}, ({x},)"]), f"{x}.{self.fresh('afterdel')}"]
        if k == "shadow_global_del":
            g = r.choice(["glob", "other_glob", "max", "len"])
            return [f"{g} = {self.atom()}", f"del {g}"]
        if k == "use_global":
            return [r.choice([f"glob.{self.fresh('a')}", f"max({E()}, {E()})", f"len(other_glob)", f"other_glob[{self.atom()}]"])]
        if k == "return":
            return [r.choice([f"return {E()}", "return", f"return {E()}, {E()}"])]
        if k == "retcls":
            return [r.choice([f"return Cls({E()}, {E()})", f"return [Cls({E()}), Bare()]",
                              f"return {{'k': Cls({E()}, k={E()})}}", f"return (NT({E()}, {E()}), {E()})"])]
        if k == "assert":
            return [f"assert {E()}, {E()}"]
        if k == "raise":
            return [f"raise {self.atom()} from {self.atom()}"]
        if k == "pass":
            return [r.choice(["pass", "...", "'docstring'"])]
        if k == "clsassign":
            t = r.choice([self.fresh("inst"), f"{self.var()}.{self.fresh('inst')}"])
            if "." not in t:
                self.locals.append(t)
            v = self.var()
            return [r.choice([f"{t} = Cls({E()}, {E()})", f"{t} = Bare()", f"{t}: int = Cls({E()}, k={E()})",
                              f"{t} = NT({E()}, {E()})", f"{t} = Cls(*{self.atom()})",
                              f"{v} = Cls({v}, {E()})", f"{v}.{t} = NT({E()}, {v}.{t})",
                              f"{t} = {v}.as_namedtuple({E()})", f"{t} = row_to_namedtuple({E()}, {E()})"])]
        if k == "lamassign":
            g = self.fresh("g")
            w = self.fresh("w")
            self.locals.append(g)
            return [f"{g} = lambda {w}: {w}.{self.fresh('a')}", f"{g}({E()})"]
        if k == "ntassign":
            p = self.fresh("P")
            self.locals.append(p)
            return [r.choice([f"{p} = namedtuple('{p}', ['x', 'y'])", f"{p} = collections.namedtuple('{p}', 'x y')",
                              f"{p} = namedtuple('{p}', {self.atom()})"]), f"{self.fresh('inst')} = {p}({E()}, {E()})"]
        if k == "for":
            return [f"for {self.target()} in {E()}:"] + ind(self.block(d + 1))
        if k == "forelse":
            return [f"for {self.target()} in {E()}:"] + ind(self.block(d + 1)) + ["else:"] + ind(self.block(d + 1, 1))
        if k == "asyncfor":
            return [f"async for {self.target()} in {E()}:"] + ind(self.block(d + 1))
        if k == "while":
            return [f"while {E()}:"] + ind(self.block(d + 1) + [r.choice(["break", "continue", "pass"])])
        if k == "if":
            return [f"if {E()}:"] + ind(self.block(d + 1)) + [f"elif {E()}:"] + ind(self.block(d + 1, 1)) + ["else:"] + ind(self.block(d + 1, 1))
        if k == "with":
            return [r.choice([f"with {E()} as {self.target()}:", f"with {E()}:", f"with {E()} as {self.target()}, {E()}:"])] + ind(self.block(d + 1))
        if k == "asyncwith":
            return [r.choice([f"async with {E()} as {self.target()}:", f"async with {E()}:", f"async with {E()}, {E()}:",
                              f"async with {E()} as {self.target()}, {E()}:"])] + ind(self.block(d + 1))
        if k == "try":
            e = self.fresh("exc")
            return (["try:"] + ind(self.block(d + 1)) + [f"except {self.atom()} as {e}:"] + ind([f"{e}.{self.fresh('a')}"] + self.block(d + 1, 1))
                    + ["except Exception:"] + ind(self.block(d + 1, 1)) + ["else:"] + ind(self.block(d + 1, 1)) + ["finally:"] + ind(self.block(d + 1, 1)))
        if k == "match":
            u, w, q = self.fresh("cap"), self.fresh("cap"), self.fresh("cap")
            return ([f"match {E()}:"] + ind([f"case [{u}, *{w}]:"] + ind([f"{u}.{self.fresh('a')}"])
                    + [f"case {{'k': {q}}}:"] + ind([f"{q}.{self.fresh('a')}"])
                    + [f"case Cls(x={u}) if {E()}:"] + ind(self.block(d + 1, 1))
                    + [f"case {self.var()}.{self.fresh('a')}:"] + ind(["pass"])
                    + ["case _:"] + ind(["pass"])))
        if k == "def":
            f = self.fresh("inner")
            w = self.fresh("w")
            self.locals.append(f)
            return [f"def {f}({w}, dflt={self.atom()}):"] + ind([f"{w}.{self.fresh('a')}", f"return {self.atom()}"]) + [f"{f}({E()})"]
        if k == "class":
            return [f"class {self.fresh('K')}:"] + ind([f"attr = {self.atom()}"])
        if k == "global":
            return [f"global {self.fresh('gg')}"]
        if k == "nonlocal":
            return ["pass"]
        if k == "import":
            return ["import json"]
        if k == "importfrom":
            return ["from os import sep"]
        if k == "multi_lambda":
            return [f"{self.fresh('g')}, {self.fresh('g')} = lambda: 1, lambda: 2"]
        if k == "multi_cls":
            return [f"{self.fresh('i')} = {self.fresh('i')} = Cls(1)"]
        raise AssertionError(k)

    def function(self, name, is_async=None):
        r = self.r
        self.locals = []
        n = r.randint(1, 4)
        self.params = PARAM_POOL[:n]
        sig = list(self.params)
        style = r.random()
        if style < 0.15 and n >= 2:
            sig = [sig[0], "/"] + sig[1:]
        elif style < 0.3 and n >= 2:
            sig = sig[:-1] + ["*", sig[-1]]
        if r.random() < 0.15:
            sig.append("*va")
            self.params.append("va")
        if r.random() < 0.15:
            sig.append("**kw")
            self.params.append("kw")
        body = []
        for _ in range(r.randint(1, 5)):
            body.extend(self.stmt(0))
        src = "\n".join(body)
        if is_async is None:
            is_async = "await " in src or "async " in src
        hdr = f"{'async ' if is_async else ''}def {name}({', '.join(sig)}):"
        return "\n".join([hdr] + ["    " + l for l in body]) + "\n"


def gen_class(g: BodyGen, name):
    """A class with an __init__ and a static method whose bodies come from the same generator."""
    r = g.r
    g.locals = []
    g.params = ["self", "a", "b"]
    init = []
    for _ in range(r.randint(1, 3)):
        init.extend(g.stmt(0))
    g.locals = []
    g.params = ["v", "w"]
    sm = []
    for _ in range(r.randint(1, 3)):
        sm.extend(g.stmt(0))
    lines = [f"class {name}:", f"    attr_{name} = 1", "    def __init__(self, a, b=0):"] + ["        " + l for l in init]
    lines += ["    @staticmethod", "    def sm(v, w):"] + ["        " + l for l in sm]
    return "\n".join(lines) + "\n"


def gen_lambda(g: BodyGen, name):
    g.locals = []
    g.params = ["a", "b"]
    return f"{name} = lambda a, b: {g.expr(1)}\n"


def gen_module(rng: random.Random, n_funcs=6, hostile=0.04, with_classes=False):
    """A module: preamble + n functions. Returns (source, [function names])."""
    g = BodyGen(rng, hostile=hostile)
    names, parts = [], [PREAMBLE]
    for i in range(n_funcs):
        for _ in range(20):
            name = f"fn{i}"
            src = g.function(name)
            try:
                compile(src, '<gen>', 'exec')
            except SyntaxError:
                continue
            parts.append(src)
            names.append(name)
            break
    if with_classes:
        for i in range(2):
            for _ in range(20):
                src = gen_class(g, f"Gen{i}") if i == 0 else gen_lambda(g, f"genlam{i}")
                if "await " in src or "yield" in src or "async " in src:
                    continue
                try:
                    compile(src, '<gen>', 'exec')
                except SyntaxError:
                    continue
                parts.append(src)
                break
    return "\n".join(parts), names

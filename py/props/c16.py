"""C16 — diagnostic verbosity and path formatting never change the analysis.

Tie B. Each generated project lives under a deep path inside a fake $HOME (target outside the
project root, import in a deep package) so that -H / -T really change the rendering. The same
program is run under all 4 x 2 x 2 settings of -w / -H / -T (x one strict / threshold setting)
through the real CLI (stdout bytes, exit status, stderr lines, `-o stats` table) and in-process with
the pre-filter diagnostic tap (event list, buckets, printed lines with their place).

Property oracle (on real outputs only): stdout bytes, exit status, badness buckets and the tapped
event list are identical across the 16 settings; the stderr line sequence (path field masked) at a
lower -w is a subsequence of the one at a higher -w and identical across -H / -T; error and fatal
lines are present at every level. Correspondence: `Diag.run` predicts the printed (level, place)
sequence, buckets, exit and output of every setting from the dry-run event list; `Diag.render`
predicts every rendered path field from the unformatted one.
"""
from __future__ import annotations

import itertools
import json
import random
from pathlib import Path

import common
import impl  # noqa: F401
import diag_common as dc
from props import c15 as c15mod

PID = "C16"
TABLES = ["C15", "C16"]

SETTINGS = [dict(warn=w, H=h, T=t) for w in dc.WARN for h in (False, True) for t in (False, True)]
RANK = {w: i for i, w in enumerate(dc.WARN)}


def skey(s):
    return f"-w {s['warn']}{' -H' if s['H'] else ''}{' -T' if s['T'] else ''}"


def differing_flags(values):
    """values: list parallel to SETTINGS. Flags f such that two settings differing only in f have
    different values; falls back to 'combination' when only multi-flag changes differ."""
    flags = set()
    for (i, a), (j, b) in itertools.combinations(enumerate(SETTINGS), 2):
        d = [k for k in ("warn", "H", "T") if a[k] != b[k]]
        if len(d) == 1 and values[i] != values[j]:
            flags.add({"warn": "-w", "H": "-H", "T": "-T"}[d[0]])
    if not flags and any(v != values[0] for v in values):
        flags.add("combination")
    return "".join(sorted(flags))


def masked(lines):
    return [(l["level"], l["line"], l["col"], l["msg"]) for l in lines if l["level"] != "rattr"]


def path_parts(p: str):
    pp = Path(p)
    parts = list(pp.parts)
    if pp.is_absolute():
        return {"abs": True, "comps": parts[1:]}
    return {"abs": False, "comps": parts}


def analysis_cfgs(total, rng, tier):
    cands = [dict(strict=False, threshold=0), dict(strict=False, threshold=total),
             dict(strict=False, threshold=max(total - 1, 0)), dict(strict=True, threshold=0)]
    if tier == "quick":
        r = rng.random()
        if total > 0 and r < 0.45:
            return [rng.choice(cands[1:3])]
        return [cands[3] if r < 0.7 else cands[0]]
    return [cands[0], rng.choice(cands[1:3]), cands[3]]


def full_cfg(a, s):
    return dict(strict=a["strict"], threshold=a["threshold"], warn=s["warn"], H=s["H"], T=s["T"], via_toml=False)


def prepare(res, project, prog, rng, tier):
    dry_cfg = dict(strict=False, threshold=0, warn="all", H=False, T=False)
    dry = dc.run_inprocess(project, dc.argv_for(dry_cfg, project.target_arg, "results"))
    if dry["crash"] is not None:
        # no event list for the model; the 16 settings are still compared on exit / stdout / crash
        res.count("dry-run-crash:" + str(dry["crash"][1]))
        a = rng.choice([dict(strict=False, threshold=0), dict(strict=True, threshold=0)])
        return [{"project": project, "prog": prog, "evs": None, "a": a,
                 "stats_ix": [4 * i + rng.randrange(4) for i in range(4)], "dry_events": []}]
    if any(e["stage"] not in ("analysis", "simplification") or e["where"] is None for e in dry["events"]):
        res.skipped_outside_fragment += 1
        res.count("skipped:diagnostic-outside-analysis-stages")
        return []
    evs = dc.model_events(dry["events"])
    total = dry["buckets"][0] + dry["buckets"][2]
    recs = []
    cfgs = analysis_cfgs(total, rng, tier)
    if getattr(project, "force_threshold_total", False) and total > 0:
        cfgs = [dict(strict=False, threshold=total)] + (cfgs if tier != "quick" else [])
    for a in cfgs:
        stats_ix = [4 * i + rng.randrange(4) for i in range(4)]   # one -o stats run per warning level
        recs.append({"project": project, "prog": prog, "evs": evs, "a": a, "stats_ix": stats_ix,
                     "dry_events": dry["events"]})
    return recs


def crashed(r):
    return any(l.startswith("Traceback") for l in r["junk"])


def crash_type(r):
    last = r["junk"][-1] if r["junk"] else ""
    return last.split(":")[0].strip() or "unknown"


def jobs_of(rec):
    p = rec["project"]
    j = [(p, dc.argv_for(full_cfg(rec["a"], s), p.target_arg, "results")) for s in SETTINGS]
    j += [(p, dc.argv_for(full_cfg(rec["a"], SETTINGS[i]), p.target_arg, "stats")) for i in rec["stats_ix"]]
    return j


def judge(res, model, rec, cli):
    project, prog, evs, a = rec["project"], rec["prog"], rec["evs"], rec["a"]
    case = {"program": prog, "layout": project.layout, "analysis_cfg": a, "events": evs}
    runs, stats_runs = cli[:16], cli[16:]
    res.evaluations += 16
    if evs:
        res.nontrivial.add(common.digest({"p": prog, "a": a, "l": project.layout}))
    res.count(f"layout:{project.layout}")

    def viol(sig, **kw):
        res.violations.append({"signature": sig, "case": case, **kw})

    # ---------------- property oracle, on real outputs only (1): outcome of the 16 runs
    crashes = [crashed(r) for r in runs]
    f = differing_flags(crashes)
    if f:
        kinds = sorted({crash_type(r) for r in runs if crashed(r)})
        viol(f"traceback-depends-on:{f}:{'+'.join(kinds)}",
             outcome={skey(s): ("traceback " + crash_type(r)) if crashed(r) else f"exit {r['exit']}" for s, r in zip(SETTINGS, runs)})
    stdouts = [r["stdout"] for r in runs]
    f = differing_flags(stdouts)
    if f:
        viol(f"stdout-depends-on:{f}", stdout_digests={skey(s): common.digest(o) for s, o in zip(SETTINGS, stdouts)})
    f = differing_flags([r["exit"] for r in runs])
    if f:
        viol(f"exit-status-depends-on:{f}", exits={skey(s): r["exit"] for s, r in zip(SETTINGS, runs)})
    if any(crashed(r) for r in cli):
        # a traceback is C07's business when it happens at every setting; either way nothing below applies
        res.skipped_outside_fragment += 1
        res.count("skipped:traceback-at-" + ("every-setting" if all(crashes) else "some-settings"))
        return
    if evs is None:
        res.internal_errors.append({"what": "in-process dry run crashed but no CLI run did", "case": case})
        return
    ips = [dc.run_inprocess(project, dc.argv_for(full_cfg(a, s), project.target_arg, "results")) for s in SETTINGS]
    if any(ip["crash"] is not None for ip in ips):
        res.internal_errors.append({"what": "in-process run crashed but no CLI run did", "case": case,
                                    "crash": [ip["crash"] for ip in ips if ip["crash"] is not None][:1]})
        return
    res.count(f"analysis:{'strict' if a['strict'] else 'lax'}:thr={a['threshold']}")
    res.count(f"exit:{runs[0]['exit']}")

    # ---------------- property oracle (2)
    f = differing_flags([ip["exit"] for ip in ips])
    if f and not differing_flags([r["exit"] for r in runs]):
        viol(f"exit-status-depends-on:{f}:in-process", exits={skey(s): ip["exit"] for s, ip in zip(SETTINGS, ips)})
    buckets = [ip["buckets"] for ip in ips]
    f = differing_flags(buckets)
    if f:
        lo = [skey(s) for s, b in zip(SETTINGS, buckets) if sum(b) < max(sum(x) for x in buckets)]
        viol(f"badness-depends-on:{f}", buckets={skey(s): b for s, b in zip(SETTINGS, buckets)}, lower_at=lo)
    tables = []
    for i, r in zip(rec["stats_ix"], stats_runs):
        st = dc.parse_stats(r["stdout"]) if r["exit"] == 0 else None
        tables.append(None if st is None else [st["target"], st["import"], st["simpl"]])
        if r["exit"] != runs[i]["exit"]:
            viol("exit-status-depends-on:-o", exits={"results": runs[i]["exit"], "stats": r["exit"]}, setting=skey(SETTINGS[i]))
        if st is not None and tables[-1] != ips[i]["buckets"]:
            viol("stats-table-differs-from-state", table=tables[-1], state=ips[i]["buckets"], setting=skey(SETTINGS[i]))
    got = [t for t in tables if t is not None]
    if got and any(t != got[0] for t in got):
        viol("badness-depends-on:stats-table", tables=dict(zip([skey(SETTINGS[i]) for i in rec["stats_ix"]], tables)))
    streams = [[(e["level"], e["badness"], e["where"], e["message"]) for e in ip["events"]] for ip in ips]
    f = differing_flags(streams)
    if f:
        viol(f"diagnostic-events-depend-on:{f}", n_events={skey(s): len(x) for s, x in zip(SETTINGS, streams)})
    seqs = [masked(r["lines"]) for r in runs]
    for (i, s1), (j, s2) in itertools.permutations(list(enumerate(SETTINGS)), 2):
        if RANK[s1["warn"]] <= RANK[s2["warn"]] and not dc.is_subsequence(seqs[i], seqs[j]):
            if s1["warn"] == s2["warn"]:
                which = "".join(sorted({"-H" if s1["H"] != s2["H"] else "", "-T" if s1["T"] != s2["T"] else ""}))
                viol(f"stderr-lines-depend-on:{which}", a=skey(s1), b=skey(s2), lines_a=seqs[i], lines_b=seqs[j])
            else:
                viol(f"stderr-not-subsequence:-w-{s1['warn']}-vs-{s2['warn']}", a=skey(s1), b=skey(s2),
                     lines_a=seqs[i], lines_b=seqs[j])
            break
    allix = SETTINGS.index(dict(warn="all", H=False, T=False))
    errs_all = [x for x in seqs[allix] if x[0] in ("error", "fatal")]
    for s, q in zip(SETTINGS, seqs):
        errs = [x for x in q if x[0] in ("error", "fatal")]
        if errs != errs_all:
            missing = [x[0] for x in errs_all if x not in errs]
            viol(f"error-or-fatal-line-missing-at:-w-{s['warn']}:{'+'.join(sorted(set(missing))) or 'reordered'}",
                 setting=skey(s), lines=errs, lines_at_all=errs_all)
            break
    n_errfatal = sum(1 for e in ips[allix]["events"] if e["level"] in ("error", "fatal"))
    if len(errs_all) != n_errfatal:
        viol("error-or-fatal-diagnostic-not-printed-at:-w-all", printed=len(errs_all), raised=n_errfatal)

    # ---------------- correspondence: Lean model vs each setting
    reqs = [("diag_run", {"cfg": c15mod.model_cfg(full_cfg(a, s)), "events": evs}) for s in SETTINGS]
    # rendering: unformatted path of line k at (w, H=F, T=F) -> rendered at (w, H, T)
    rreqs, rmeta = [], []
    root = path_parts(str(project.root.resolve()))
    home = path_parts(str(project.home.resolve()))
    for wi, w in enumerate(dc.WARN):
        plain = [l for l in runs[4 * wi]["lines"] if l["level"] != "rattr"]
        for k in range(1, 4):
            s = SETTINGS[4 * wi + k]
            cur = [l for l in runs[4 * wi + k]["lines"] if l["level"] != "rattr"]
            if len(cur) != len(plain):
                continue  # already reported by the oracle above
            for l0, l1 in zip(plain, cur):
                full = l0["file"] if l0["file"].startswith("/") else str(project.root.resolve() / l0["file"])
                rreqs.append(("diag_render", {"H": s["H"], "T": s["T"], "root": root, "home": home, "path": path_parts(full)}))
                rmeta.append((skey(s), l0["file"], l1["file"]))
    outs = model.batch(reqs + rreqs)
    mouts, routs = outs[:16], outs[16:]
    for s, mo, ip, r in zip(SETTINGS, mouts, ips, runs):
        if "__error__" in mo:
            res.disagreements.append({"case": case, "setting": skey(s), "model": mo})
            continue
        ip_printed = [[p["level"], ip["events"][p["event"]]["where"] if p["event"] is not None else None]
                      for p in ip["printed"] if p["level"] != "rattr"]
        mm = {"exit": mo["exit"], "output": mo["output"], "buckets": mo["buckets"], "printed": mo["printed"],
              "levels": [p[0] for p in mo["printed"]], "cli_exit": mo["exit"], "cli_output": mo["output"]}
        ii = {"exit": ip["exit"], "output": bool(ip["stdout"].strip()), "buckets": ip["buckets"], "printed": ip_printed,
              "levels": [l["level"] for l in r["lines"] if l["level"] != "rattr"], "cli_exit": r["exit"],
              "cli_output": bool(r["stdout"].strip())}
        diffs = [k for k in mm if mm[k] != ii[k]]
        if r["junk"]:
            diffs.append("cli-unparsed-stderr")
        if diffs:
            res.disagreements.append({"case": case, "setting": skey(s), "fields": diffs, "impl": ii, "model": mm})
        # the contract's error lines (Spec.errorLines on the real events) vs what was really printed
        real_err = [p for p in ip_printed if p[0] in ("error", "fatal")]
        if real_err != mo["spec"]["errorLines"]:
            viol(f"error-or-fatal-lines-differ-from-contract:-w-{s['warn']}", setting=skey(s), printed=real_err,
                 contract=mo["spec"]["errorLines"])
        res.count(f"printed-lines:{min(len(ip_printed), 6)}{'+' if len(ip_printed) > 6 else ''}")
    for (sk, plain, real), out in zip(rmeta, routs):
        res.count("rendered:" + ("changed" if plain != real else "same"))
        if out != real:
            res.disagreements.append({"case": case, "setting": sk, "fields": ["render"], "impl": real, "model": out,
                                      "unformatted": plain})
    res.sample({"case": {"program": prog, "analysis_cfg": a},
                "impl": {"exit": runs[0]["exit"], "buckets": buckets[0],
                         "stderr": {skey(s): [f"{l['level']}: {l['file']}" for l in r["lines"]][:4] for s, r in list(zip(SETTINGS, runs))[12:16]}}})


def run(tier, seed, build):
    res = common.Result(PID)
    res.rule = ("generated projects under a deep path inside a fake $HOME (target outside the project root, import in a deep "
                "package) x all 16 settings of -w/-H/-T x strict/threshold settings drawn from {permissive, threshold=total, "
                "threshold=total-1, strict}; non-trivial = distinct (program, strict/threshold) whose dry run emits >= 1 diagnostic")
    rng = random.Random(seed)
    n = 16 if tier == "quick" else 150
    fixed = [p for p in c15mod.fixed_programs() if p["fatal"] or len(p["target"]) + len(p["import"]) + len(p["simpl"]) > 1]
    progs = [(p, "deep") for p in fixed]
    # every path shape gets: diagnostics without any error (so -w decides whether anything is printed),
    # import-only badness (so a mis-attributed bucket shows), a mix, and random programs
    shaped = [
        {"target": ["undefined_name", "method_call"], "import": ["undefined_name", "class_not_stored"], "simpl": ["stdlib_call"], "fatal": None},
        {"target": ["plain"], "import": ["undefined_name", "undefined_name", "nested_def"], "simpl": ["call_ok"], "fatal": None},
        {"target": ["nested_def", "undefined_name"], "import": ["method_call"], "simpl": ["call_ignored"], "fatal": None},
    ]
    shapes = [l for l in dc.LAYOUTS if l not in ("flat", "deep")]
    for lay in shapes:
        progs += [(p, lay) for p in shaped]
    for k in range(n):
        lay = (["deep"] + shapes)[k % (1 + len(shapes))] if k % 2 else "deep"
        progs.append((dc.gen_program(rng, fatal_rate=0.08, empty_rate=0.02), lay))
    model = common.Model()
    with dc.scratch_dir("rattr-c16-") as base:
        base = base.resolve()
        recs = []
        for i, (prog, lay) in enumerate(progs):
            project = dc.Project(base / f"p{i}", prog, layout=lay)
            project.force_threshold_total = lay != "deep" and prog is shaped[0]
            try:
                recs += prepare(res, project, prog, rng, tier)
            except Exception as exc:
                res.internal_errors.append({"what": f"harness exception {type(exc).__name__}: {exc}", "program": prog})
        jobs = [j for r in recs for j in jobs_of(r)]
        cli = dc.run_cli_many(jobs)
        k = 0
        for r in recs:
            try:
                judge(res, model, r, cli[k:k + 20])
            except Exception as exc:
                res.internal_errors.append({"what": f"harness exception {type(exc).__name__}: {exc}", "program": r["prog"]})
            k += 20
    res.extra["programs_generated"] = len(progs)
    res.assumptions = [
        "static non-interference (theorem C16_readers over the regenerated verbosityReaders table) carries 'the analysis does not "
        "read these options'; the 16-settings runs sample it",
        "[interp] 'the lines printed' are compared with the path field masked (level, line, column, message)",
        "Diag.render fragment: the home directory occurs in a path only as a whole-component prefix",
    ]
    return res


def replay(path):
    j = json.load(open(path))
    print(json.dumps({k: j[k] for k in j if k not in ("impl", "spec")}, indent=1)[:6000])
    case = j.get("case") or {}
    prog, a = case.get("program"), case.get("analysis_cfg")
    if not prog or not a:
        return 0
    with dc.scratch_dir("rattr-c16-replay-") as base:
        project = dc.Project(base.resolve() / "p", prog, layout=case.get("layout", "deep"))
        print("TARGET:\n" + project.target_path.read_text())
        print("IMPORT (padding stripped):\n" + project.helper_path.read_text().lstrip("\n"))
        for s in SETTINGS:
            r = dc.run_cli(project, dc.argv_for(full_cfg(a, s), project.target_arg, "results"))
            print(skey(s), ("TRACEBACK " + crash_type(r)) if crashed(r) else "", "exit", r["exit"], "stdout", common.digest(r["stdout"]),
                  "stderr", [f"{l['level']}:{l['file']}:{l['line']}" for l in r["lines"]])
    return 0

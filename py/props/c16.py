"""C16 — diagnostic verbosity and path formatting never change the analysis.

Tie B. Each generated project lives under a deep path inside a fake $HOME (target outside the
project root, import in a deep package) so that -H / -T really change the rendering. The same
program is run under all 4 x 2 x 2 settings of -w / -H / -T (x one strict / threshold setting)
through the real CLI (stdout bytes, exit status, stderr lines, `-o stats` table) and in-process with
the pre-filter diagnostic tap (event list, buckets, printed lines with their place).

Property oracle (on real outputs only): stdout bytes, exit status, badness buckets and the tapped
event list are identical across the 16 settings; the stderr line sequence (path field masked) at a
lower -w is a subsequence of the one at a higher -w and identical across -H / -T; error and fatal
lines are present at every level. Correspondence: `Diag.run` predicts the printed (level, place)
sequence, buckets, exit and output of every setting from the dry-run event list; `Diag.render`
predicts every rendered path field from the unformatted one.

Site-directed stage (props/c16sites.py): a corpus of constructs, one or more per diagnostic call
site of rattr (the sites are enumerated from the source, Tie A `Generated.C16.diagSites`, classified
in `DiagSites.classOf`; coverage reached/total is reported in the evidence), each placed in the
target AND in a followed import six components below the project root that itself imports a deeper
module (calls into siblings, classes, the next import level, stdlib, ignored / excluded / missing
callees). Whole-corpus programs go through the CLI oracle above; single-construct programs (strict
mode: only the first weighted error is visible) and every fatal construct are judged in-process and
re-judged through the CLI when they deviate. When the reader table has a NEW entry (a function that
newly reads a verbosity option), every construct is traced (sys.setprofile) and those that execute
that function are searched exhaustively (alone, both places, both project shapes, strict and
threshold settings); a failing whole-corpus program is shrunk to the constructs that show it.

Whole-main stage (props/c16main.py): the Lean model `MainRun` (= `Pipeline` ∘ `Diag`) predicts, from
a module's AST alone, stdout / exit / buckets / printed lines of `main` under every setting — for every
output mode (`MainRun.mainOut`: the IR document's "filename" / context file / symbol files, the cacheable
document's "filepath", the stats rows) and three spellings of the target.

Output-mode x spelling stage (props/c16out.py): one program, its target spelled in eight ways (short /
deep relative, through `..`, absolute inside the root, below $HOME, elsewhere), x -o ir / cacheable /
results / stats / silent and the cache file, x the settings: stdout bytes, exit status and cache-file
bytes identical; every document field that names the target is the target as given. The whole-corpus
site programs run under the path-bearing output modes too.
"""
from __future__ import annotations

import itertools
import json
import random
from pathlib import Path

import common
import impl  # noqa: F401
import diag_common as dc
from props import c15 as c15mod
from props import c16sites as cs

PID = "C16"
TABLES = ["C15", "C16"]

SETTINGS = [dict(warn=w, H=h, T=t) for w in dc.WARN for h in (False, True) for t in (False, True)]
RANK = {w: i for i, w in enumerate(dc.WARN)}


class InprocPool:
    """Forked worker processes for the in-process runs of the real `main` (each run is independent:
    fresh Config, caches cleared). Created before any thread exists."""

    def __init__(self, n=8):
        import multiprocessing as mp
        self.pool = mp.get_context("fork").Pool(n)

    def run(self, jobs):
        return self.pool.map_async(_inproc_job, jobs, chunksize=1).get(timeout=3000)

    def close(self):
        self.pool.terminate()


def _inproc_job(job):
    project, argv, record_sites = job
    return dc.run_inprocess(project, argv, record_sites=record_sites)


INPROC = None


def inproc_many(jobs):
    """jobs: [(project, argv, record_sites)] -> results of dc.run_inprocess, in order."""
    if INPROC is None or len(jobs) < 2:
        return [_inproc_job(j) for j in jobs]
    return INPROC.run(jobs)


def inproc_map(fn, jobs):
    """fn (a module-level function) over jobs in the forked workers, in order."""
    if INPROC is None or len(jobs) < 2:
        return [fn(j) for j in jobs]
    return INPROC.pool.map_async(fn, jobs, chunksize=2).get(timeout=3000)


def argv_of(project, cfg, output="results"):
    """argv of one run: the project's own fixed options (site projects: -x / -f) + the setting."""
    return list(getattr(project, "argv_pre", [])) + dc.argv_for(cfg, project.target_arg, output)


def describe(project, prog):
    return project.describe() if hasattr(project, "describe") else prog


DUP_RESULTS_RE = None


def has_duplicated_rattr_results(project):
    """Syntactic: some def in the target / helper carries two `@rattr_results(...)` decorators."""
    import re
    global DUP_RESULTS_RE
    if DUP_RESULTS_RE is None:
        DUP_RESULTS_RE = re.compile(r"(?:^@rattr_results\([^\n]*\)\n){2,}(?:async\s+)?def ", re.M)
    return any(DUP_RESULTS_RE.search(f.read_text()) for f in (project.target_path, project.helper_path))


def stdout_is_only_diagnostic_lines(stdouts):
    """Every stdout consists of diagnostic lines only and they agree up to the path field."""
    seen = set()
    for o in stdouts:
        lines, junk = dc.parse_stderr(o)
        if junk or not lines:
            return False
        seen.add(tuple(masked(lines)))
    return len(seen) == 1


def refine(sig, project, stdouts):
    """Known-finding classes are named from syntactic conditions of the INPUT; the shape of the
    output only narrows them (so that another defect on such an input keeps its own signature)."""
    if has_duplicated_rattr_results(project):
        if sig in ("stdout-depends-on:-H", "stdout-depends-on:-T", "stdout-depends-on:-H-T", "stdout-depends-on:combination") \
                and stdout_is_only_diagnostic_lines(stdouts):
            return "diagnostic-on-stdout:duplicated-rattr_results-annotation:stdout-depends-on-path-format"
        if sig == "error-or-fatal-diagnostic-not-printed-at:-w-all" and stdout_is_only_diagnostic_lines(stdouts):
            return "diagnostic-on-stdout:duplicated-rattr_results-annotation:fatal-not-on-stderr"
    return sig


class SiteCoverage:
    """Which diagnostic call sites the runs of this check really reached (from the tap's call-site
    record), by place; and the model's class table (`DiagSites.classOf`) checked on every event."""

    def __init__(self, model):
        self.tables = model.batch([("c16_tables", {})])[0]
        self.index = cs.site_index()
        self.cls = {}
        for row in self.tables.get("sites", []):
            f, fn, lvl, k = row["site"]
            self.cls[f"{f}::{fn}::{lvl}#{k}"] = row
        self.reached = {}          # site id -> set of places
        self.by_construct = {}     # site id -> set of construct ids (single-construct programs only)
        self.bad = []

    def note(self, events, construct=None):
        for e in events:
            site = e.get("site")
            if site is None:
                continue
            sid = self.index.get((site[0], site[1]))
            if sid is None:
                if "/rattr/" in site[0] and not site[0].endswith("rattr/error/error.py"):
                    self.bad.append({"what": "diagnostic from a call site the scan does not know", "site": list(site)})
                continue
            self.reached.setdefault(sid, set()).add(e["where"] or "none")
            if construct is not None:
                self.by_construct.setdefault(sid, set()).add(construct)
            row = self.cls.get(sid)
            if row is not None and row["class"] is not None and (e["where"] or "simplification") not in row["wheres"]:
                self.bad.append({"what": "place of a diagnostic outside its site class", "site": sid, "class": row["class"],
                                 "where": e["where"], "message": e["message"][:120]})

    def report(self):
        reach = [r for r in self.tables.get("sites", []) if r["programReachable"]]
        ids = [f"{r['site'][0]}::{r['site'][1]}::{r['site'][2]}#{r['site'][3]}" for r in reach]
        got = [i for i in ids if i in self.reached]
        ana = [i for i, r in zip(ids, reach) if r["class"] == "analysis"]
        return {
            "call_sites_in_source": len(self.tables.get("sites", [])),
            "by_class": {c: sum(1 for r in self.tables.get("sites", []) if r["class"] == c)
                         for c in sorted({str(r["class"]) for r in self.tables.get("sites", [])})},
            "program_reachable": len(ids),
            "reached": len(got),
            "analysis_sites_reached_in_target": sum(1 for i in ana if "target" in self.reached.get(i, ())),
            "analysis_sites_reached_in_followed_import": sum(1 for i in ana if "import" in self.reached.get(i, ())),
            "analysis_sites": len(ana),
            "unreached": [i for i in ids if i not in self.reached],
        }


def skey(s):
    return f"-w {s['warn']}{' -H' if s['H'] else ''}{' -T' if s['T'] else ''}"


def differing_flags(values, settings=None):
    """values: list parallel to SETTINGS (or to `settings`). Flags f such that two settings differing
    only in f have different values; falls back to 'combination' when only multi-flag changes differ."""
    flags = set()
    for (i, a), (j, b) in itertools.combinations(enumerate(SETTINGS if settings is None else settings), 2):
        d = [k for k in ("warn", "H", "T") if a[k] != b[k]]
        if len(d) == 1 and values[i] != values[j]:
            flags.add({"warn": "-w", "H": "-H", "T": "-T"}[d[0]])
    if not flags and any(v != values[0] for v in values):
        flags.add("combination")
    return "".join(sorted(flags))


def masked(lines):
    return [(l["level"], l["line"], l["col"], l["msg"]) for l in lines if l["level"] != "rattr"]


def path_parts(p: str):
    pp = Path(p)
    parts = list(pp.parts)
    if pp.is_absolute():
        return {"abs": True, "comps": parts[1:]}
    return {"abs": False, "comps": parts}


def analysis_cfgs(total, rng, tier):
    cands = [dict(strict=False, threshold=0), dict(strict=False, threshold=total),
             dict(strict=False, threshold=max(total - 1, 0)), dict(strict=True, threshold=0)]
    if tier == "quick":
        r = rng.random()
        if total > 0 and r < 0.45:
            return [rng.choice(cands[1:3])]
        return [cands[3] if r < 0.7 else cands[0]]
    return [cands[0], rng.choice(cands[1:3]), cands[3]]


def full_cfg(a, s):
    return dict(strict=a["strict"], threshold=a["threshold"], warn=s["warn"], H=s["H"], T=s["T"], via_toml=False)


def replaced_fatals(events):
    """Indices of fatal events that are immediately followed by another fatal raised at the same
    place: the first one's SystemExit was caught by its caller, its line went to a captured stream
    and is dropped, and the caller raises its own fatal instead (rattr_results parsing: 'unable to
    evaluate …' -> 'you are likely missing a comma'). Weight 0, never visible, the run still ends
    with a fatal at that place: for `Diag.run` the pair is the second fatal alone."""
    return {i for i in range(len(events) - 1)
            if events[i]["level"] == "fatal" and events[i + 1]["level"] == "fatal"
            and events[i]["where"] == events[i + 1]["where"] and events[i]["badness"] == 0}


def visible(events):
    drop = replaced_fatals(events)
    return [e for i, e in enumerate(events) if i not in drop]


def printed_of(ip):
    """(level, place) of the lines the run handed to `__log`, minus those of replaced fatals."""
    drop = replaced_fatals(ip["events"])
    return [[p["level"], ip["events"][p["event"]]["where"] if p["event"] is not None else None]
            for p in ip["printed"] if p["level"] != "rattr" and p["event"] not in drop]


DRY_CFG = dict(strict=False, threshold=0, warn="all", H=False, T=False)


def dry_runs(projects, record_sites=True):
    return inproc_many([(p, argv_of(p, DRY_CFG, "results"), record_sites) for p in projects])


def prepare(res, project, prog, rng, tier, cfgs=None, cov=None, construct=None, dry=None):
    if dry is None:
        dry = dc.run_inprocess(project, argv_of(project, DRY_CFG, "results"), record_sites=cov is not None)
    if cov is not None:
        cov.note(dry["events"], construct)
    if dry["crash"] is not None:
        # no event list for the model; the 16 settings are still compared on exit / stdout / crash
        res.count("dry-run-crash:" + str(dry["crash"][1]))
        a = rng.choice([dict(strict=False, threshold=0), dict(strict=True, threshold=0)])
        return [{"project": project, "prog": prog, "evs": None, "a": a,
                 "stats_ix": [4 * i + rng.randrange(4) for i in range(4)], "dry_events": []}]
    if any(e["stage"] not in ("analysis", "simplification") or e["where"] is None for e in dry["events"]):
        res.skipped_outside_fragment += 1
        res.count("skipped:diagnostic-outside-analysis-stages")
        return []
    evs = dc.model_events(visible(dry["events"]))
    if len(evs) != len(dc.model_events(dry["events"])):
        res.count("fatal-replaced-by-its-caller (modelled as the second fatal alone)")
    # any OTHER diagnostic after a fatal (a SystemExit caught by a caller that then goes on) is not
    # something `Diag.run` describes: judged by the oracle only
    caught_exit = any(e["level"] == "fatal" for e in visible(dry["events"])[:-1])
    if caught_exit:
        res.count("model-skipped:diagnostics-after-a-caught-fatal")
    no_model = caught_exit
    total = dry["buckets"][0] + dry["buckets"][2]
    recs = []
    if cfgs is not None:
        cfgs = [dict(strict=False, threshold=max(total + c["rel"], 0)) if "rel" in c else c for c in cfgs]
        cfgs = [c for i, c in enumerate(cfgs) if c not in cfgs[:i]]
    else:
        cfgs = analysis_cfgs(total, rng, tier)
    if getattr(project, "force_threshold_total", False) and total > 0:
        cfgs = [dict(strict=False, threshold=total)] + (cfgs if tier != "quick" else [])
    for a in cfgs:
        stats_ix = [4 * i + rng.randrange(4) for i in range(4)]   # one -o stats run per warning level
        if tier == "quick":
            stats_ix = sorted(rng.sample(stats_ix, 2))            # (quick: two of the four levels)
        recs.append({"project": project, "prog": prog, "evs": evs, "a": a, "stats_ix": stats_ix,
                     "dry_events": dry["events"], "caught_exit": caught_exit, "no_model": no_model})
    return recs


def crashed(r):
    return any(l.startswith("Traceback") for l in r["junk"])


def crash_type(r):
    last = r["junk"][-1] if r["junk"] else ""
    return last.split(":")[0].strip() or "unknown"


def jobs_of(rec):
    p = rec["project"]
    j = [(p, argv_of(p, full_cfg(rec["a"], s), "results")) for s in SETTINGS]
    j += [(p, argv_of(p, full_cfg(rec["a"], SETTINGS[i]), "stats")) for i in rec["stats_ix"]]
    return j


def judge(res, model, rec, cli, cov=None):
    project, prog, evs, a = rec["project"], rec["prog"], rec["evs"], rec["a"]
    case = {"program": describe(project, prog), "layout": project.layout, "analysis_cfg": a, "events": evs}
    runs, stats_runs = cli[:16], cli[16:]
    res.evaluations += 16
    if evs:
        res.nontrivial.add(common.digest({"p": describe(project, prog), "a": a, "l": project.layout}))
    res.count(f"layout:{project.layout}")

    def viol(sig, **kw):
        res.violations.append({"signature": refine(sig, project, [r["stdout"] for r in runs]), "case": case, **kw})

    # ---------------- property oracle, on real outputs only (1): outcome of the 16 runs
    crashes = [crashed(r) for r in runs]
    f = differing_flags(crashes)
    if f:
        kinds = sorted({crash_type(r) for r in runs if crashed(r)})
        viol(f"traceback-depends-on:{f}:{'+'.join(kinds)}",
             outcome={skey(s): ("traceback " + crash_type(r)) if crashed(r) else f"exit {r['exit']}" for s, r in zip(SETTINGS, runs)})
    stdouts = [r["stdout"] for r in runs]
    f = differing_flags(stdouts)
    if f:
        viol(f"stdout-depends-on:{f}", stdout_digests={skey(s): common.digest(o) for s, o in zip(SETTINGS, stdouts)})
    f = differing_flags([r["exit"] for r in runs])
    if f:
        viol(f"exit-status-depends-on:{f}", exits={skey(s): r["exit"] for s, r in zip(SETTINGS, runs)})
    if any(crashed(r) for r in cli):
        # a traceback is C07's business when it happens at every setting; either way nothing below applies
        res.skipped_outside_fragment += 1
        res.count("skipped:traceback-at-" + ("every-setting" if all(crashes) else "some-settings"))
        return
    if evs is None:
        res.internal_errors.append({"what": "in-process dry run crashed but no CLI run did", "case": case})
        return
    ips = inproc_many([(project, argv_of(project, full_cfg(a, s), "results"), cov is not None) for s in SETTINGS])
    if cov is not None:
        for ip in ips:
            cov.note(ip["events"])
    if any(ip["crash"] is not None for ip in ips):
        res.internal_errors.append({"what": "in-process run crashed but no CLI run did", "case": case,
                                    "crash": [ip["crash"] for ip in ips if ip["crash"] is not None][:1]})
        return
    res.count(f"analysis:{'strict' if a['strict'] else 'lax'}:thr={a['threshold']}")
    res.count(f"exit:{runs[0]['exit']}")

    # ---------------- property oracle (2)
    f = differing_flags([ip["exit"] for ip in ips])
    if f and not differing_flags([r["exit"] for r in runs]):
        viol(f"exit-status-depends-on:{f}:in-process", exits={skey(s): ip["exit"] for s, ip in zip(SETTINGS, ips)})
    buckets = [ip["buckets"] for ip in ips]
    f = differing_flags(buckets)
    if f:
        lo = [skey(s) for s, b in zip(SETTINGS, buckets) if sum(b) < max(sum(x) for x in buckets)]
        viol(f"badness-depends-on:{f}", buckets={skey(s): b for s, b in zip(SETTINGS, buckets)}, lower_at=lo)
    tables = []
    for i, r in zip(rec["stats_ix"], stats_runs):
        st = dc.parse_stats(r["stdout"]) if r["exit"] == 0 else None
        tables.append(None if st is None else [st["target"], st["import"], st["simpl"]])
        if r["exit"] != runs[i]["exit"]:
            viol("exit-status-depends-on:-o", exits={"results": runs[i]["exit"], "stats": r["exit"]}, setting=skey(SETTINGS[i]))
        if st is not None and tables[-1] != ips[i]["buckets"]:
            viol("stats-table-differs-from-state", table=tables[-1], state=ips[i]["buckets"], setting=skey(SETTINGS[i]))
    got = [t for t in tables if t is not None]
    if got and any(t != got[0] for t in got):
        viol("badness-depends-on:stats-table", tables=dict(zip([skey(SETTINGS[i]) for i in rec["stats_ix"]], tables)))
    streams = [[(e["level"], e["badness"], e["where"], e["message"]) for e in ip["events"]] for ip in ips]
    f = differing_flags(streams)
    if f:
        viol(f"diagnostic-events-depend-on:{f}", n_events={skey(s): len(x) for s, x in zip(SETTINGS, streams)})
    seqs = [masked(r["lines"]) for r in runs]
    for (i, s1), (j, s2) in itertools.permutations(list(enumerate(SETTINGS)), 2):
        if RANK[s1["warn"]] <= RANK[s2["warn"]] and not dc.is_subsequence(seqs[i], seqs[j]):
            if s1["warn"] == s2["warn"]:
                which = "".join(sorted({"-H" if s1["H"] != s2["H"] else "", "-T" if s1["T"] != s2["T"] else ""}))
                viol(f"stderr-lines-depend-on:{which}", a=skey(s1), b=skey(s2), lines_a=seqs[i], lines_b=seqs[j])
            else:
                viol(f"stderr-not-subsequence:-w-{s1['warn']}-vs-{s2['warn']}", a=skey(s1), b=skey(s2),
                     lines_a=seqs[i], lines_b=seqs[j])
            break
    allix = SETTINGS.index(dict(warn="all", H=False, T=False))
    errs_all = [x for x in seqs[allix] if x[0] in ("error", "fatal")]
    for s, q in zip(SETTINGS, seqs):
        errs = [x for x in q if x[0] in ("error", "fatal")]
        if errs != errs_all:
            missing = [x[0] for x in errs_all if x not in errs]
            viol(f"error-or-fatal-line-missing-at:-w-{s['warn']}:{'+'.join(sorted(set(missing))) or 'reordered'}",
                 setting=skey(s), lines=errs, lines_at_all=errs_all)
            break
    n_errfatal = sum(1 for e in visible(ips[allix]["events"]) if e["level"] in ("error", "fatal"))
    if len(errs_all) != n_errfatal and not rec.get("caught_exit"):
        viol("error-or-fatal-diagnostic-not-printed-at:-w-all", printed=len(errs_all), raised=n_errfatal)
    if rec.get("no_model"):
        res.skipped_outside_fragment += 1
        return

    # ---------------- correspondence: Lean model vs each setting
    reqs = [("diag_run", {"cfg": c15mod.model_cfg(full_cfg(a, s)), "events": evs}) for s in SETTINGS]
    # rendering: unformatted path of line k at (w, H=F, T=F) -> rendered at (w, H, T)
    rreqs, rmeta = [], []
    root = path_parts(str(project.root.resolve()))
    home = path_parts(str(project.home.resolve()))
    for wi, w in enumerate(dc.WARN):
        plain = [l for l in runs[4 * wi]["lines"] if l["level"] != "rattr"]
        for k in range(1, 4):
            s = SETTINGS[4 * wi + k]
            cur = [l for l in runs[4 * wi + k]["lines"] if l["level"] != "rattr"]
            if len(cur) != len(plain):
                continue  # already reported by the oracle above
            for l0, l1 in zip(plain, cur):
                full = l0["file"] if l0["file"].startswith("/") else str(project.root.resolve() / l0["file"])
                rreqs.append(("diag_render", {"H": s["H"], "T": s["T"], "root": root, "home": home, "path": path_parts(full)}))
                rmeta.append((skey(s), l0["file"], l1["file"]))
    outs = model.batch(reqs + rreqs)
    mouts, routs = outs[:16], outs[16:]
    for s, mo, ip, r in zip(SETTINGS, mouts, ips, runs):
        if "__error__" in mo:
            res.disagreements.append({"case": case, "setting": skey(s), "model": mo})
            continue
        ip_printed = printed_of(ip)
        mm = {"exit": mo["exit"], "output": mo["output"], "buckets": mo["buckets"], "printed": mo["printed"],
              "levels": [p[0] for p in mo["printed"]], "cli_exit": mo["exit"], "cli_output": mo["output"]}
        ii = {"exit": ip["exit"], "output": bool(ip["stdout"].strip()), "buckets": ip["buckets"], "printed": ip_printed,
              "levels": [l["level"] for l in r["lines"] if l["level"] != "rattr"], "cli_exit": r["exit"],
              "cli_output": bool(r["stdout"].strip())}
        diffs = [k for k in mm if mm[k] != ii[k]]
        if r["junk"]:
            diffs.append("cli-unparsed-stderr")
        if diffs:
            res.disagreements.append({"case": case, "setting": skey(s), "fields": diffs, "impl": ii, "model": mm})
        # the contract's error lines (Spec.errorLines on the real events) vs what was really printed
        real_err = [p for p in ip_printed if p[0] in ("error", "fatal")]
        if real_err != mo["spec"]["errorLines"]:
            viol(f"error-or-fatal-lines-differ-from-contract:-w-{s['warn']}", setting=skey(s), printed=real_err,
                 contract=mo["spec"]["errorLines"])
        res.count(f"printed-lines:{min(len(ip_printed), 6)}{'+' if len(ip_printed) > 6 else ''}")
    for (sk, plain, real), out in zip(rmeta, routs):
        res.count("rendered:" + ("changed" if plain != real else "same"))
        if out != real:
            res.disagreements.append({"case": case, "setting": sk, "fields": ["render"], "impl": real, "model": out,
                                      "unformatted": plain})
    res.sample({"case": {"program": prog if prog is not None else getattr(project, "tag", "site program"), "analysis_cfg": a},
                "impl": {"exit": runs[0]["exit"], "buckets": buckets[0],
                         "stderr": {skey(s): [f"{l['level']}: {l['file']}" for l in r["lines"]][:4] for s, r in list(zip(SETTINGS, runs))[12:16]}}})


# ------------------------------------------------------------------------------------------------
# in-process judge (no subprocess): the same oracle on the tapped runs of the real `main`
# ------------------------------------------------------------------------------------------------

def judge_light(res, model, rec, cov=None, collect=None, settings=None):
    """All 16 settings in-process: exit status, stdout, buckets, event stream, printed lines
    (captured stderr), error / fatal lines; `Diag.run` vs every setting. Violations go to `collect`
    (default res.violations) with the SAME signatures as the CLI judge (the property aspects are the
    same); the caller confirms them through the real CLI."""
    project, prog, evs, a = rec["project"], rec["prog"], rec["evs"], rec["a"]
    case = {"program": describe(project, prog), "layout": project.layout, "analysis_cfg": a, "events": evs}
    out = res.violations if collect is None else collect
    SET = SETTINGS if settings is None else settings
    differing = lambda values: differing_flags(values, SET)  # noqa: E731

    ips = inproc_many([(project, argv_of(project, full_cfg(a, s), "results"), cov is not None) for s in SET])

    def viol(sig, **kw):
        out.append({"signature": refine(sig, project, [ip["stdout"] for ip in ips]), "case": case, "observed": "in-process", **kw})

    res.evaluations += len(SET)
    if cov is not None:
        for ip in ips:
            cov.note(ip["events"])
    crashes = [ip["crash"] is not None for ip in ips]
    f = differing(crashes)
    if f:
        kinds = sorted({ip["crash"][1] for ip in ips if ip["crash"] is not None})
        viol(f"traceback-depends-on:{f}:{'+'.join(kinds)}",
             outcome={skey(s): ("traceback " + ip["crash"][1]) if ip["crash"] else f"exit {ip['exit']}" for s, ip in zip(SET, ips)})
    f = differing([ip["stdout"] for ip in ips])
    if f:
        viol(f"stdout-depends-on:{f}", stdout_digests={skey(s): common.digest(ip["stdout"]) for s, ip in zip(SET, ips)})
    f = differing([ip["exit"] for ip in ips])
    if f:
        viol(f"exit-status-depends-on:{f}", exits={skey(s): ip["exit"] for s, ip in zip(SET, ips)})
    if any(crashes):
        res.skipped_outside_fragment += 1
        res.count("skipped:traceback-at-" + ("every-setting" if all(crashes) else "some-settings"))
        return ips
    if evs is None:
        res.internal_errors.append({"what": "in-process dry run crashed but the 16 runs did not", "case": case})
        return ips
    buckets = [ip["buckets"] for ip in ips]
    f = differing(buckets)
    if f:
        lo = [skey(s) for s, b in zip(SET, buckets) if sum(b) < max(sum(x) for x in buckets)]
        viol(f"badness-depends-on:{f}", buckets={skey(s): b for s, b in zip(SET, buckets)}, lower_at=lo)
    streams = [[(e["level"], e["badness"], e["where"], e["message"]) for e in ip["events"]] for ip in ips]
    f = differing(streams)
    if f:
        viol(f"diagnostic-events-depend-on:{f}", n_events={skey(s): len(x) for s, x in zip(SET, streams)})
    seqs = [masked(ip["lines"]) for ip in ips]
    for (i, s1), (j, s2) in itertools.permutations(list(enumerate(SET)), 2):
        if RANK[s1["warn"]] <= RANK[s2["warn"]] and not dc.is_subsequence(seqs[i], seqs[j]):
            if s1["warn"] == s2["warn"]:
                which = "".join(sorted({"-H" if s1["H"] != s2["H"] else "", "-T" if s1["T"] != s2["T"] else ""}))
                viol(f"stderr-lines-depend-on:{which}", a=skey(s1), b=skey(s2), lines_a=seqs[i][:12], lines_b=seqs[j][:12])
            else:
                viol(f"stderr-not-subsequence:-w-{s1['warn']}-vs-{s2['warn']}", a=skey(s1), b=skey(s2),
                     lines_a=seqs[i][:12], lines_b=seqs[j][:12])
            break
    allix = SET.index(dict(warn="all", H=False, T=False))
    errs_all = [x for x in seqs[allix] if x[0] in ("error", "fatal")]
    for s, q in zip(SET, seqs):
        errs = [x for x in q if x[0] in ("error", "fatal")]
        if errs != errs_all:
            missing = [x[0] for x in errs_all if x not in errs]
            viol(f"error-or-fatal-line-missing-at:-w-{s['warn']}:{'+'.join(sorted(set(missing))) or 'reordered'}",
                 setting=skey(s), lines=errs[:12], lines_at_all=errs_all[:12])
            break
    n_errfatal = sum(1 for e in visible(ips[allix]["events"]) if e["level"] in ("error", "fatal"))
    if len(errs_all) != n_errfatal and not rec.get("caught_exit"):
        viol("error-or-fatal-diagnostic-not-printed-at:-w-all", printed=len(errs_all), raised=n_errfatal)
    if rec.get("no_model"):
        res.skipped_outside_fragment += 1
        return ips
    # correspondence: Diag.run on the dry-run events vs every setting
    mouts = model.batch([("diag_run", {"cfg": c15mod.model_cfg(full_cfg(a, s)), "events": evs}) for s in SET])
    for s, mo, ip in zip(SET, mouts, ips):
        if "__error__" in mo:
            res.disagreements.append({"case": case, "setting": skey(s), "model": mo})
            continue
        ip_printed = printed_of(ip)
        mm = {"exit": mo["exit"], "output": mo["output"], "buckets": mo["buckets"], "printed": mo["printed"]}
        ii = {"exit": ip["exit"], "output": bool(ip["stdout"].strip()), "buckets": ip["buckets"], "printed": ip_printed}
        diffs = [k for k in mm if mm[k] != ii[k]]
        if diffs:
            res.disagreements.append({"case": case, "setting": skey(s), "fields": diffs, "observed": "in-process",
                                      "impl": {k: ii[k] for k in diffs}, "model": {k: mm[k] for k in diffs}})
        real_err = [p for p in ip_printed if p[0] in ("error", "fatal")]
        if real_err != mo["spec"]["errorLines"]:
            viol(f"error-or-fatal-lines-differ-from-contract:-w-{s['warn']}", setting=skey(s), printed=real_err[:12],
                 contract=mo["spec"]["errorLines"][:12])
    res.count(f"light:analysis:{'strict' if a['strict'] else 'lax'}:thr={'0' if not a['threshold'] else 'n'}")
    return ips


# ------------------------------------------------------------------------------------------------
# site-directed stage
# ------------------------------------------------------------------------------------------------

SINK_CFGS = [dict(rel=-1), dict(rel=0)]          # threshold = total - 1 (flips if badness drops), total (flips if it grows)
SINGLE_CFGS = [dict(strict=True, threshold=0), dict(rel=-1), dict(rel=0)]


class CliPool:
    """CLI runs in background threads (the subprocesses run while this process does the in-process
    runs)."""

    def __init__(self, workers=16):
        from concurrent.futures import ThreadPoolExecutor
        self.ex = ThreadPoolExecutor(max_workers=workers)

    def submit(self, recs):
        return [self.ex.submit(dc.run_cli, *j) for r in recs for j in jobs_of(r)]

    def close(self):
        self.ex.shutdown(wait=False, cancel_futures=True)


def full_judge(res, model, recs, cov=None, futures=None):
    cli = [f.result() for f in futures] if futures is not None else dc.run_cli_many([j for r in recs for j in jobs_of(r)])
    k = 0
    for r in recs:
        n = 16 + len(r["stats_ix"])
        try:
            judge(res, model, r, cli[k:k + n], cov=cov)
        except Exception as exc:
            res.internal_errors.append({"what": f"harness exception {type(exc).__name__}: {exc}", "program": describe(r["project"], r["prog"])})
        k += n


FEW = [dict(warn="none", H=True, T=True), dict(warn="local", H=False, T=True), dict(warn="default", H=True, T=False),
       dict(warn="all", H=False, T=False)]


def light_judge_all(res, model, recs, cov=None):
    """In-process judge of every rec -> [(rec, its violations)] for those that have any."""
    suspicious = []
    for r in recs:
        mine = []
        try:
            judge_light(res, model, r, cov=cov, collect=mine, settings=r.get("settings"))
        except Exception as exc:
            res.internal_errors.append({"what": f"harness exception {type(exc).__name__}: {exc}", "program": describe(r["project"], r["prog"])})
            continue
        if mine:
            suspicious.append((r, mine))
    return suspicious


def confirm(res, model, suspicious, cov=None, max_confirm=4):
    """What the in-process judge reported is re-judged through the real CLI (at most `max_confirm`
    programs; the CLI judge's violations are the ones reported). An in-process violation of a kind
    no CLI run confirmed is kept, marked."""
    if suspicious:
        # known-finding inputs first (their signature must be the CLI's at every seed), then small programs
        suspicious.sort(key=lambda rm: (not has_duplicated_rattr_results(rm[0]["project"]),
                                        len(describe(rm[0]["project"], rm[0]["prog"]).get("site_items", ()))))
        confirmed_kinds = set()
        for r, mine in suspicious[:max_confirm]:
            before = len(res.violations)
            full_judge(res, model, [r], cov=cov)
            got = res.violations[before:]
            if got:
                confirmed_kinds |= {v["signature"].split(":")[0] for v in got}
            else:
                res.violations.extend({**v, "signature": v["signature"] + ":in-process-only"} for v in mine)
        for r, mine in suspicious[max_confirm:]:
            # not re-run (bounded work): reported as observed, with the in-process signature
            res.violations.extend(v if v["signature"].split(":")[0] in confirmed_kinds
                                  else {**v, "signature": v["signature"] + ":in-process-only"} for v in mine)
    return bool(suspicious)


def shrink(res, model, base, tag, project, a_kind, signatures, rng):
    """Halve the construct list of a failing site program while some construct subset still shows
    one of `signatures` (in-process); -> smallest item list found."""
    items = list(project.items)
    n = 0

    def fails(sub):
        nonlocal n
        n += 1
        p = cs.SiteProject(base / f"{tag}-s{n}", sub, target_in_root=project.target_in_root,
                           call_style=project.call_style, follow=project.follow)
        scratch = common.Result(PID)
        recs = prepare(scratch, p, None, rng, "quick", cfgs=[a_kind])
        got = []
        for r in recs:
            judge_light(scratch, model, r, collect=got)
        return any(v["signature"] in signatures for v in got)

    while len(items) > 1 and n < 40:
        half = len(items) // 2
        first, second = items[:half], items[half:]
        if fails(first):
            items = first
        elif fails(second):
            items = second
        else:
            break
    return items


def site_prepare(res, base, rng, tier, cov, new_readers):
    """Programs from the construct corpus (props/c16sites.py): -> (heavy recs, light recs, #programs)."""
    quick = tier == "quick"
    programs = []      # (tag, kwargs of SiteProject, cfg kinds, heavy)

    def add(tag, items, cfgs, heavy, **kw):
        programs.append((tag, items, cfgs, heavy, kw))

    # (1) everything at once, in the target / in the deep followed import / mixed with the sibling
    #     project shape (target inside the root, module-qualified calls, imports not followed)
    add("sink-target", cs.sink_items(lambda c: "target"), SINK_CFGS, True)
    add("sink-import", cs.sink_items(lambda c: "import"), SINK_CFGS, True)
    mixed_kw = dict(target_in_root=True, call_style=rng.choice(["name", "module"]))
    add("sink-mixed", cs.sink_items(lambda c: rng.choice(["target", "import"]), target_in_root=True),
        [rng.choice(SINK_CFGS)], True, **mixed_kw)
    add("sink-nofollow", cs.sink_items(lambda c: rng.choice(["target", "import"])), [dict(rel=0)], False, follow=0)
    # (2) one construct per program (strict: the first weighted error ends the run, so a swallowed
    #     error is only visible when it is the first); fatal constructs always alone
    singles = [c for c in cs.CORPUS if not c["fatal"] and not c["site"].startswith("(no diagnostic")]
    fatals = [c for c in cs.CORPUS if c["fatal"]]
    rng.shuffle(singles)
    rng.shuffle(fatals)
    n_single, n_fatal = (6, 5) if quick else (len(singles), len(fatals))
    for c in singles[:n_single]:
        for place in (["target", "import"] if not quick else [rng.choice(["target", "import"])]):
            in_root = c["only"] == "target_in_root" or rng.random() < 0.3
            if cs.usable(c, place, in_root):
                add(f"single-{c['id']}-{place}", [("plain", place), (c["id"], place)],
                    [rng.choice(SINGLE_CFGS)] if quick else SINGLE_CFGS, False, target_in_root=in_root)
    for k, c in enumerate(fatals):
        for place in (["target", "import"] if not quick else [rng.choice(["target", "import"])]):
            in_root = c["only"] == "target_in_root" or rng.random() < 0.3
            if not cs.usable(c, place, in_root):
                place = "target"
            pre = [(x["id"], place) for x in rng.sample(singles, 2) if cs.usable(x, place, in_root)]
            add(f"fatal{'' if k < n_fatal else 'few'}-{c['id']}-{place}", pre + [(c["id"], place)], [dict(strict=False, threshold=0)], False, target_in_root=in_root)
    # (3) directed: a function that newly reads a verbosity option -> every construct that executes it
    directed = directed_programs(res, base, new_readers, rng) if new_readers else []
    for tag, items, kw in directed:
        add(tag, items, SINGLE_CFGS[:2], False, **kw)

    heavy, light, built = [], [], []
    for i, (tag, items, cfgs, is_heavy, kw) in enumerate(programs):
        try:
            project = cs.SiteProject(base / f"s{i}", items, **kw)
            project.tag = tag
            built.append((project, tag, items, cfgs, is_heavy))
        except Exception as exc:
            res.internal_errors.append({"what": f"harness exception {type(exc).__name__}: {exc}", "program": tag})
    for (project, tag, items, cfgs, is_heavy), dry in zip(built, dry_runs([b[0] for b in built])):
        try:
            construct = items[-1][0] if tag.startswith(("single-", "fatal", "directed-")) else None
            recs = prepare(res, project, None, rng, tier, cfgs=cfgs, cov=cov, construct=construct, dry=dry)
        except Exception as exc:
            res.internal_errors.append({"what": f"harness exception {type(exc).__name__}: {exc}", "program": tag})
            continue
        res.count("site-program:" + tag.split("-")[0])
        if tag.startswith("fatalfew-"):
            for r in recs:
                r["settings"] = FEW      # every fatal construct in every run, a sample of them under all 16 settings
        (heavy if is_heavy else light).extend(recs)
    return heavy, light, len(programs)


def site_judge(res, model, base, rng, tier, cov, heavy, heavy_futures, light_done):
    n0 = len(res.violations)
    full_judge(res, model, heavy, cov=cov, futures=heavy_futures)
    failing = {}
    for v in res.violations[n0:]:
        failing.setdefault(id(v["case"]), (v["case"], set()))[1].add(v["signature"])
    light_done()
    # a failing sink is shrunk to the construct(s) that show it: the small program is reported first
    if failing:
        small = []
        for case, sigs in list(failing.values())[:2]:
            try:
                d = case["program"]
                a = case["analysis_cfg"]
                proj = cs.SiteProject.from_description(base / f"shr{len(small)}", d)
                # recover the relative threshold from the dry-run total of the failing program
                total = sum(e["badness"] for e in case["events"] if e["where"] != "import")
                kind = a if (a["strict"] or not a["threshold"]) else dict(rel=a["threshold"] - total)
                items = shrink(res, model, base, f"shr{len(small)}", proj, kind, sigs, rng)
                if len(items) < len(proj.items):
                    p2 = cs.SiteProject(base / f"shrunk{len(small)}", items, target_in_root=proj.target_in_root,
                                        call_style=proj.call_style, follow=proj.follow)
                    small += prepare(res, p2, None, rng, tier, cfgs=[kind])
            except Exception as exc:
                res.internal_errors.append({"what": f"shrinking failed: {type(exc).__name__}: {exc}"})
        if small:
            n1 = len(res.violations)
            full_judge(res, model, small)
            shrunk = res.violations[n1:]
            for v in shrunk:
                v["shrunk_from"] = "a whole-corpus program"
            res.violations[:] = shrunk + res.violations[:n1]


class _SiteView:
    """A site project seen as one (spelling, output mode) group of the output stage."""

    def __init__(self, project):
        self.project = project
        self.prog = project.describe()
        self.layout = project.layout
        self.spelling = "site:" + ("relative-deep-in-root" if project.target_in_root else "absolute-under-home")
        self.target_arg, self.base = project.target_arg, project.base


def site_output_stage(res, recs, k):
    """The whole-corpus site programs (every construct, in the target / in the deep import / mixed; target
    absolute below $HOME or relative six parts deep) under the path-bearing output modes: the four -H / -T
    combinations at one warning level, in-process, permissive; oracle = the output stage's."""
    from props import c16out
    a = dict(strict=False, threshold=0)
    projects = []
    for r in recs:
        if all(r["project"] is not p for p in projects):
            projects.append(r["project"])
    jobs, meta = [], []
    for pi, p in enumerate(projects):
        for mi, mode in enumerate(c16out.PATH_MODES):
            if mode != "ir" and (pi + k) % len(projects) != 0:
                continue        # `-o ir` for every program, `-o cacheable` for one of them (rotating with the seed)
            st = c16out.quad(dc.WARN[(k + pi + mi) % 4])
            jobs += [(p, argv_of(p, full_cfg(a, s), mode), False) for s in st]
            meta.append((p, mode, st))
    outs = inproc_many(jobs)
    for i, (p, mode, st) in enumerate(meta):
        runs = [{"exit": o["exit"], "stdout": o["stdout"], "crash": o["crash"]} for o in outs[4 * i:4 * i + 4]]
        try:
            c16out.judge_group(res, differing_flags, _SiteView(p), a, mode, st, runs, "in-process")
        except Exception as exc:
            res.internal_errors.append({"what": f"site output stage: {type(exc).__name__}: {exc}", "program": getattr(p, "tag", "site program")})


def directed_programs(res, base, new_readers, rng):
    """new_readers: [(file, qualified function)] not in `DiagSites.allowedReaders`. Trace every
    construct alone (sys.setprofile) and return the programs that execute one of these functions:
    the construct alone, in the target and in the deep import, both project shapes."""
    want = {(f, fn) for f, fn in new_readers}
    reaching = []
    dry_cfg = dict(strict=False, threshold=0, warn="none", H=True, T=True)
    for i, c in enumerate(cs.CORPUS):
        in_root = c["only"] == "target_in_root"
        try:
            p = cs.SiteProject(base / f"trace{i}", [(c["id"], "target")], target_in_root=in_root)
            seen = cs.traced_functions(p, argv_of(p, dry_cfg, "results"))
        except Exception as exc:
            res.internal_errors.append({"what": f"tracing failed: {type(exc).__name__}: {exc}", "construct": c["id"]})
            continue
        hit = {(f, fn.replace(".<locals>", "")) for f, fn in seen} & want
        if hit:
            reaching.append((c, sorted(hit)))
    res.extra["directed_search"] = {
        "new_readers": [list(r) for r in new_readers],
        "constructs_reaching_them": {c["id"]: [f"{f}::{fn}" for f, fn in hit] for c, hit in reaching},
        "corpus_size": len(cs.CORPUS),
    }
    out = []
    if len(reaching) > 16:
        res.extra["directed_search"]["note"] = f"{len(reaching)} constructs reach the new readers: 16 of them searched alone (the whole-corpus programs hold all)"
        reaching = rng.sample(reaching, 16)
    for c, _ in reaching:
        for place in ("target", "import"):
            for in_root in ((True,) if c["only"] == "target_in_root" else (False, True)):
                if cs.usable(c, place, in_root):
                    out.append((f"directed-{c['id']}-{place}{'-inroot' if in_root else ''}", [(c["id"], place)], dict(target_in_root=in_root)))
    return out


def run(tier, seed, build):
    res = common.Result(PID)
    res.rule = ("generated projects under a deep path inside a fake $HOME (target outside the project root, import in a deep "
                "package) x all 16 settings of -w/-H/-T x strict/threshold settings drawn from {permissive, threshold=total, "
                "threshold=total-1, strict}; plus programs from a corpus of constructs written per diagnostic call site of rattr "
                "(whole corpus in the target / in an import six components below the root that imports a deeper module / mixed; "
                "single constructs under strict; fatal constructs), judged in-process and re-judged through the CLI; "
                "plus one fixed and one generated program whose target is spelled in eight ways (short / deep relative, through '..', "
                "absolute inside the root / below $HOME / elsewhere) x -o ir|cacheable|results|stats|silent|cache file x the settings "
                "(all 16 for the documents of the fixed program); plus the repeat stage: projects in which one diagnostic (same message, file, "
                "line) is emitted more than once in a run (star-imported module compiled twice, target imported back) x the four -w levels x "
                "-o stats|results x gates around the observed total, judged on the CLI output; "
                "non-trivial = distinct (program, strict/threshold) whose dry run emits >= 1 diagnostic")
    rng = random.Random(seed)
    n = 8 if tier == "quick" else 150
    fixed = [p for p in c15mod.fixed_programs() if p["fatal"] or len(p["target"]) + len(p["import"]) + len(p["simpl"]) > 1]
    progs = [(p, "deep") for p in fixed]
    # every path shape gets: diagnostics without any error (so -w decides whether anything is printed),
    # import-only badness (so a mis-attributed bucket shows), a mix, and random programs
    shaped = [
        {"target": ["undefined_name", "method_call"], "import": ["undefined_name", "class_not_stored"], "simpl": ["stdlib_call"], "fatal": None},
        {"target": ["plain"], "import": ["undefined_name", "undefined_name", "nested_def"], "simpl": ["call_ok"], "fatal": None},
        {"target": ["nested_def", "undefined_name"], "import": ["method_call"], "simpl": ["call_ignored"], "fatal": None},
    ]
    shapes = [l for l in dc.LAYOUTS if l not in ("flat", "deep")]
    for lay in shapes:
        progs += [(p, lay) for p in shaped]
    for k in range(n):
        lay = (["deep"] + shapes)[k % (1 + len(shapes))] if k % 2 else "deep"
        progs.append((dc.gen_program(rng, fatal_rate=0.08, empty_rate=0.02), lay))
    global INPROC
    INPROC = InprocPool()           # forked before any thread is started
    try:
        return _run(res, tier, seed, rng, progs, shaped)
    finally:
        INPROC.close()
        INPROC = None
        dc.CLI_ENV_EXTRA = {}


def output_programs(rng, tier, shaped):
    """Programs of the output-mode x spelling stage: one fixed program (diagnostics of every -w class in
    the target and in the deep import, no error: exit 0 and a document at every setting) on every
    spelling x every mode; a generated one on the path-bearing modes (quick: three spellings)."""
    from props import c16out
    permissive = dict(strict=False, threshold=0)
    progs = [(shaped[0], permissive, None, None)]
    g = dc.gen_program(rng, fatal_rate=0.0, empty_rate=0.0)
    names = ["rel_deep", "rel_updir", "abs_in_root", "abs_home", "abs_home_deep", "abs_elsewhere"]
    progs.append((g, permissive, None if tier != "quick" else set(rng.sample(names, 3)), set(c16out.PATH_MODES)))
    return progs


def warm_bytecode_cache(base):
    """The repo under test is read-only and has no __pycache__: every CLI run would compile rattr
    from source again (~40% of its time). One run fills a private bytecode cache (PYTHONPYCACHEPREFIX,
    inside the scratch directory); all later CLI runs read it (they still never write)."""
    import os
    import subprocess
    import sys
    pyc = base / "pyc"
    proj = dc.Project(base / "warm", {"target": ["undefined_name"], "import": ["plain"], "simpl": ["call_ok", "stdlib_call"], "fatal": None}, layout="flat")
    env = {k: v for k, v in dc.cli_env(proj).items() if k != "PYTHONDONTWRITEBYTECODE"}
    env["PYTHONPYCACHEPREFIX"] = str(pyc)
    try:
        subprocess.run([sys.executable, "-m", "rattr", "-o", "stats", proj.target_arg], cwd=str(proj.cwd), env=env,
                       capture_output=True, text=True, timeout=120)
        dc.CLI_ENV_EXTRA = {"PYTHONPYCACHEPREFIX": str(pyc)}
    except Exception:  # noqa
        dc.CLI_ENV_EXTRA = {}


def _run(res, tier, seed, rng, progs, shaped):
    model = common.Model()
    cov = SiteCoverage(model)
    if "__error__" in cov.tables:
        res.internal_errors.append({"what": "op c16_tables failed", "detail": cov.tables})
        return res
    new_readers = [tuple(r) for r in cov.tables["newReaders"]]
    with dc.scratch_dir("rattr-c16-") as base:
        base = base.resolve()
        warm_bytecode_cache(base)
        recs, projects = [], []
        for i, (prog, lay) in enumerate(progs):
            project = dc.Project(base / f"p{i}", prog, layout=lay)
            project.force_threshold_total = lay != "deep" and prog is shaped[0]
            projects.append(project)
        for project, (prog, lay), dry in zip(projects, progs, dry_runs(projects)):
            try:
                recs += prepare(res, project, prog, rng, tier, cov=cov, dry=dry)
            except Exception as exc:
                res.internal_errors.append({"what": f"harness exception {type(exc).__name__}: {exc}", "program": prog})
        srng = random.Random(seed * 7919 + 17)
        heavy, light, n_site = site_prepare(res, base, srng, tier, cov, new_readers)
        pool = CliPool()
        try:
            fut_a, fut_h = pool.submit(recs), pool.submit(heavy)
            # every output mode x every spelling of the target (props/c16out.py): in-process now, its CLI part queued
            from props import c16out
            orng = random.Random(seed * 15485863 + 3)
            out_finish = lambda: None  # noqa: E731
            import time as _time
            _t = _time.time()
            try:
                out_finish = c16out.run_output_stage(res, model, base / "out", output_programs(orng, tier, shaped), differing_flags,
                                                     inproc_map, lambda jobs: [pool.ex.submit(dc.run_cli, *j) for j in jobs], rot=seed)
            except Exception as exc:
                res.internal_errors.append({"what": f"output stage: {type(exc).__name__}: {exc}"})
            try:
                site_output_stage(res, heavy, seed)
            except Exception as exc:
                res.internal_errors.append({"what": f"site output stage: {type(exc).__name__}: {exc}"})
            res.extra.setdefault("stage_wall_s", {})["output-in-process"] = round(_time.time() - _t, 1)
            # a cache file in play (props/c16cache.py): every state of the cache path x -r x the settings
            from props import c16cache
            _t = _time.time()
            cache_finish = lambda: None  # noqa: E731
            try:
                cache_finish = c16cache.run_cache_stage(res, model, base / "cachestage", random.Random(seed * 32452843 + 11), tier, seed,
                                                        differing_flags, inproc_map, lambda fn, *a: pool.ex.submit(fn, *a), cov=cov)
            except Exception as exc:
                res.internal_errors.append({"what": f"cache stage: {type(exc).__name__}: {exc}"})
            res.extra["stage_wall_s"]["cache-in-process"] = round(_time.time() - _t, 1)
            _t = _time.time()
            suspicious = light_judge_all(res, model, light, cov=cov)      # in-process, while the CLI runs proceed
            res.extra["stage_wall_s"]["site-light"] = round(_time.time() - _t, 1)
            _t = _time.time()
            full_judge(res, model, recs, cov=cov, futures=fut_a)
            res.extra["stage_wall_s"]["generated-cli"] = round(_time.time() - _t, 1)
            _t = _time.time()
            site_judge(res, model, base, srng, tier, cov, heavy, fut_h, lambda: confirm(res, model, suspicious, cov=cov))
            res.extra["stage_wall_s"]["site-heavy"] = round(_time.time() - _t, 1)
            _t = _time.time()
            try:
                out_finish()
                res.extra["stage_wall_s"]["output-cli"] = round(_time.time() - _t, 1)
            except Exception as exc:
                res.internal_errors.append({"what": f"output stage (cli): {type(exc).__name__}: {exc}"})
            _t = _time.time()
            try:
                cache_finish()
                res.extra["stage_wall_s"]["cache-cli"] = round(_time.time() - _t, 1)
            except Exception as exc:
                res.internal_errors.append({"what": f"cache stage (cli): {type(exc).__name__}: {exc}"})
        finally:
            pool.close()
    # the whole `main` as ONE Lean model (Pipeline ∘ Diag) against the real one, per setting
    from props import c16main
    import time as _time
    _t = _time.time()
    try:
        c16main.run_main_stage(res, model, random.Random(seed * 104729 + 5), 3 if tier == "quick" else 60, tier, inproc=inproc_many)
    except Exception as exc:
        res.internal_errors.append({"what": f"main-model stage: {type(exc).__name__}: {exc}"})
    res.extra.setdefault("stage_wall_s", {})["whole-main"] = round(_time.time() - _t, 1)
    res.extra["programs_generated"] = len(progs) + n_site
    res.extra["diagnostic_call_sites"] = cov.report()
    for b in cov.bad[:5]:
        res.disagreements.append({"fields": ["site-class"], **b})
    res.assumptions = [
        "static non-interference (theorem C16_readers over the regenerated verbosityReaders table) carries 'the analysis does not "
        "read these options'; the 16-settings runs sample it",
        "[interp] 'the lines printed' are compared with the path field masked (level, line, column, message)",
        "Diag.render fragment: the home directory occurs in a path only as a whole-component prefix",
        "coverage of diagnostic call sites is measured on the call sites the tap saw (caller frame of the level function), "
        "denominator = sites whose DiagSites class is program-reachable (analysis / simplification / gate)",
        "whole-main stage (MainRun = Pipeline ∘ Diag): follow-imports 0, the pipeline model's fragment; the model gets the module's "
        "AST encoding and location facts only, never an event list of the implementation",
        "output-mode x spelling stage: `-o stats` is compared on its deterministic rows (imports, lines, badness, threshold), not on "
        "the timings; the in-process stdout capture stands for the real process' stdout (checked byte for byte on the CLI sample); "
        "MainRun.mainOut fragment as MainRun (follow-imports 0: `import_irs` empty); the `imports` list and the hashes of the "
        "cacheable document are compared across settings but not modelled",
        "a construct whose unresolved relative import is an uncaught exception (imported module, target outside the search "
        "path) is left to C07; site programs avoid it",
        "repeat stage (props/c16repeat.py): judged by the property oracle on the CLI's real output only (no model prediction); a run that "
        "ends in a traceback is C07's subject and is not judged",
    ]
    from props import c16repeat
    c16repeat.stage(res, random.Random(seed + 1605), tier)
    return res


def replay(path):
    j = json.load(open(path))
    print(json.dumps({k: j[k] for k in j if k not in ("impl", "spec")}, indent=1)[:6000])
    case = j.get("case") or {}
    if case.get("stage") == "repeat":
        from props import c16repeat
        with dc.scratch_dir("rattr-c16-replay-") as base:
            cwd, home = base / "proj", base / "home"
            cwd.mkdir(); home.mkdir()
            for rel, text in case["files"].items():
                (cwd / rel).write_text(text)
            fam = case["argv_family"]
            for w in case["levels"]:
                o = c16repeat.run(cwd, home, ["-w", w] + fam[2:])
                print(f"-w {w}: exit {o['exit']}\n{o['stdout'][-500:]}\n{len(o['lines'])} diagnostic lines")
        return 0
    prog, a = case.get("program"), case.get("analysis_cfg")
    if not prog or not a:
        return 0
    if "cache_state" in case:
        from props import c16cache
        with dc.scratch_dir("rattr-c16-replay-") as base:
            return c16cache.replay_case(case, base.resolve())
    if "spelling" in case and "site_items" not in prog:
        from props import c16out
        with dc.scratch_dir("rattr-c16-replay-") as base:
            return c16out.replay_case(case, base.resolve())
    if "single_file" in prog:
        from props import c16main
        with dc.scratch_dir("rattr-c16-replay-") as base:
            return c16main.replay_case(case, base.resolve())
    with dc.scratch_dir("rattr-c16-replay-") as base:
        if "site_items" in prog:
            project = cs.SiteProject.from_description(base.resolve() / "p", prog)
            print("fixed options:", project.argv_pre, " target argument:", project.target_arg)
        else:
            project = dc.Project(base.resolve() / "p", prog, layout=case.get("layout", "deep"))
        print("TARGET:\n" + project.target_path.read_text())
        print("IMPORT " + str(project.helper_path.relative_to(project.root)) + " (padding stripped):\n" + project.helper_path.read_text().lstrip("\n"))
        if hasattr(project, "deeper_path"):
            print("IMPORT " + str(project.deeper_path.relative_to(project.root)) + " (padding stripped):\n" + project.deeper_path.read_text().lstrip("\n"))
        output = case.get("output", "results")
        for s in SETTINGS:
            r = dc.run_cli(project, argv_of(project, full_cfg(a, s), output))
            extra = []
            if output != "results":
                from props import c16out
                extra = ["-o", output, "first path field:", (c16out.target_fields(output, r["stdout"]) or [None])[0]]
            print(skey(s), ("TRACEBACK " + crash_type(r)) if crashed(r) else "", "exit", r["exit"], "stdout", common.digest(r["stdout"]), *extra,
                  "stderr", [f"{l['level']}:{l['file']}:{l['line']}" for l in r["lines"]])
    return 0

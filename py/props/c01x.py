"""C01, whole-callable side: WHICH callables must have an IR, and returned displays.

Three things the per-function harness of c01.py does not reach on its own:

* `RetGen` — BodyGen plus the whole family of *displays* (`visit_ReturnValue` has its own traversal
  for a returned tuple / list / set / dict, everything else goes through `generic_visit`): tuple,
  list, set and dict literals with `*E` elements, `k: v` pairs and `**E` spreads, nested in one
  another, holding class-instance calls / getattr-family calls / ordinary calls / plain
  expressions, as the operand of `return` / `yield` / `await`, as an assigned value, a call
  argument, a subscript base, a loop iterable, a `with` header.

* `callables_of(tree)` — the syntactic specification of the callables "that rattr analyses"
  (property text: function, named lambda, class initialiser, static method), written from the
  README, not from `FileAnalyser` / `ClassAnalyser`. `judge_entries` then demands, for each of them,
  that the per-file IR has an entry under its documented name and that every access of ITS body
  (accessspec walk) is in that entry — whatever else the class derives from. (The hook-based
  `visitlib.run_file_batch` can only judge the bodies `FunctionAnalyser` was actually started on, so
  a callable that is silently replaced by something else never reaches its oracle.)

* stages that run this on whole files: in-process (`run_unit_stage`: real S2+S4 vs. the Lean model
  `analyse_file`, then the oracle on the real FileIr) and through the real CLI on a project with a
  followed import (`run_cli_stage`: `python -m rattr -o ir` gives the IR of the target AND of every
  followed module; `-o results` is the property's first observation point).
"""
from __future__ import annotations

import ast
import json
import os
import re
import shutil
import subprocess
import sys
import tempfile
from collections import Counter
from pathlib import Path

import common
from props import accessspec as spec
from props.bodygen import BodyGen

# ------------------------------------------------------------------ generator: displays everywhere


class RetGen(BodyGen):
    """BodyGen + displays (see module docstring). `p_stmt` / `p_expr`: how often a statement /
    sub-expression is taken from the display family instead of BodyGen's own kinds."""

    def __init__(self, rng, hostile=0.0, max_depth=3, p_stmt=0.3, p_expr=0.07):
        super().__init__(rng, hostile=hostile, max_depth=max_depth)
        self.p_stmt = p_stmt
        self.p_expr = p_expr

    # one element of a tuple / list / set display
    def elt(self, d):
        r = self.r
        k = r.random()
        v = self.var()
        if k < 0.22:
            return self.atom()
        if k < 0.34:
            return f"*{self.atom()}"
        if k < 0.40:
            return f"*{self.leaf(d)}"
        if k < 0.52 and d < self.max_depth:
            return self.display(d + 1)
        if k < 0.64:
            return r.choice([f"Cls({self.leaf(d)}, {self.atom()})", f"NT({self.atom()}, {self.leaf(d)})", "Bare()",
                             f"Cls({self.atom()}, k={self.leaf(d)})", f"Cls(*{self.atom()})", f"Cls(**{self.atom()})",
                             f"Cls({self.atom()}, **{self.dict_display(d + 1)})", f"NT(*{self.atom()}, **{self.atom()})"])
        if k < 0.70:
            return f"getattr({v}, '{self.fresh('lit')}')"
        if k < 0.78:
            return r.choice([f"helper({self.leaf(d)})", f"{v}.{self.fresh('m')}({self.leaf(d)})", f"lam({self.atom()})",
                             f"WithStatic.sm({self.atom()})"])
        return self.leaf(d)

    def leaf(self, d):
        return BodyGen.expr(self, min(d + 1, self.max_depth))

    # one entry of a dict display
    def entry(self, d):
        r = self.r
        k = r.random()
        v = self.var()
        if k < 0.30:
            return f"**{self.atom()}"
        if k < 0.38:
            return f"**{v}.{self.fresh('m')}({self.atom()})"
        if k < 0.44:
            return f"**{self.leaf(d)}"
        if k < 0.50 and d < self.max_depth:
            return f"**{self.dict_display(d + 1)}"
        if k < 0.55:
            return r.choice([f"**Cls({self.atom()})", f"**helper({self.atom()})", f"**getattr({v}, '{self.fresh('lit')}')"])
        key = r.choice([repr(self.fresh("k")), self.atom(), self.atom(), f"({self.atom()}, {self.atom()})"])
        val = self.elt(d)
        return f"{key}: {val[1:] if val.startswith('*') else val}"

    def dict_display(self, d=0):
        n = self.r.choice([1, 1, 2, 2, 3])
        return "{" + ", ".join(self.entry(d) for _ in range(n)) + "}"

    def display(self, d=0):
        r = self.r
        k = r.choice(["tuple", "list", "set", "dict", "dict", "dict"])
        if k == "dict":
            return self.dict_display(d)
        n = r.choice([1, 2, 2, 3])
        elts = [self.elt(d) for _ in range(n)]
        if k == "tuple":
            return "(" + ", ".join(elts) + ("," if n == 1 else "") + ")"
        if k == "list":
            return "[" + ", ".join(elts) + "]"
        return "{" + ", ".join(elts) + "}"

    def expr(self, d=0):
        if d < self.max_depth and self.r.random() < self.p_expr:
            return self.display(d + 1)
        return super().expr(d)

    def stmt(self, d=0):
        r = self.r
        if r.random() >= self.p_stmt:
            return super().stmt(d)
        D = self.display
        ind = lambda lines: ["    " + l for l in lines]  # noqa: E731
        k = r.choice(["return"] * 6 + ["return_pair", "return_cond", "yield", "assign", "arg", "kwarg", "subscript", "for", "with",
                                       "expr", "return_comp", "aug", "return_call_on_display", "multi_star_call", "multi_gen",
                                       "return_bool", "yield_from", "match_mapping"])
        if k == "return":
            return [f"return {D()}"]
        if k == "return_pair":
            return [f"return {D(1)}, {self.atom()}"]
        if k == "return_cond":
            return [f"return {D(1)} if {self.atom()} else {D(1)}"]
        if k == "return_comp":
            t = self.fresh("t")
            return [r.choice([f"return [{self.dict_display(1)} for {t} in {self.atom()}]",
                              f"return {{**{self.atom()}, 'c': [{t}.{self.fresh('a')} for {t} in {self.atom()}]}}"])]
        if k == "return_call_on_display":
            return [r.choice([f"return {self.dict_display(1)}.get({self.atom()})", f"return dict({self.dict_display(1)}, **{self.atom()})",
                              f"return {self.dict_display(1)}[{self.atom()}]"])]
        if k == "multi_star_call":
            return [r.choice([f"helper(*{self.atom()}, *{self.atom()})", f"unknown_fn(**{self.atom()}, **{self.atom()})",
                              f"print(*{self.atom()}, sep={self.atom()})",
                              f"return {self.var()}.{self.fresh('m')}(*{self.atom()}, **{self.dict_display(1)})"])]
        if k == "multi_gen":
            t, u = self.fresh("t"), self.fresh("t")
            return [r.choice([
                f"return [{u}.{self.fresh('a')} for {t} in {self.atom()} for {u} in {t}.{self.fresh('a')} if {u}.{self.fresh('a')} if {self.atom()}]",
                f"return {{{t}: {{**{u}.{self.fresh('a')}}} for {t}, {u} in {self.atom()}}}",
                f"{self.target()} = ({t}.{self.fresh('a')} for {t} in {self.atom()} if {self.atom()})"])]
        if k == "return_bool":
            return [r.choice([f"return {self.atom()} or {D(1)}", f"return not {D(1)}", f"return ({self.atom()}, {D(1)})[{self.atom()}]"])]
        if k == "yield_from":
            return [f"yield from {D(1)}"]
        if k == "match_mapping":
            q, w = self.fresh("cap"), self.fresh("cap")
            return [f"match {D(1)}:"] + ind([f"case {{'k': {q}, **{w}}}:"] + ind([f"return {{**{w}, 'q': {q}.{self.fresh('a')}}}"])
                                            + ["case _:"] + ind(["return"]))
        if k == "yield":
            return [r.choice([f"yield {D()}", f"{self.target()} = yield {D(1)}"])]
        if k == "assign":
            return [f"{self.target()} = {D()}"]
        if k == "aug":
            return [f"{self.var()} |= {self.dict_display()}"]
        if k == "arg":
            return [f"{r.choice(['helper', 'print', 'unknown_fn', 'Cls'])}({D(1)})"]
        if k == "kwarg":
            return [f"helper({self.atom()}, **{self.dict_display(1)})"]
        if k == "subscript":
            return [f"{self.dict_display(1)}[{self.atom()}].{self.fresh('a')}"]
        if k == "for":
            return [f"for {self.target()} in {D(1)}:"] + ind(self.block(d + 1, 1))
        if k == "with":
            return [f"with {self.atom()} as {self.target()}:"] + ind([f"return {D(1)}"])
        if k == "expr":
            return [D()]
        raise AssertionError(k)


def gen_ret_module(rng, n_funcs=5):
    """bodygen.PREAMBLE + `n_funcs` functions from RetGen. Returns (source, names)."""
    from props.bodygen import PREAMBLE

    g = RetGen(rng)
    names, parts = [], [PREAMBLE]
    for i in range(n_funcs):
        for _ in range(20):
            name = f"rf{i}"
            src = g.function(name)
            try:
                compile(src, "<gen>", "exec")
            except SyntaxError:
                continue
            parts.append(src)
            names.append(name)
            break
    return "\n".join(parts), names


RET_WITNESSES = '''
def r_spread(base, extra, k, v):
    return {**base.defaults, k.name: v.value, **extra.overrides()}
def r_spread_only(a):
    return {**a.only}
def r_nested(a, b):
    return [{**a.in_list}, ({**b.in_tuple},), {'k': {**a.in_value}}]
def r_spread_of_dict(a, b):
    return {**{**a.inner, 'q': b.val}}
def r_starred(a, b):
    return [*a.items, (*b.more, a.last)], {*a.members}
def r_cls_in_spread(a):
    return {**Cls(a.arg), 'n': NT(a.u, a.v)}
def r_getattr_elt(a):
    return (getattr(a, 'ga'), {**getattr(a, 'gb')})
def y_spread(a):
    yield {**a.yielded}
def a_spread(a, b):
    b.tgt = {**a.assigned, 'k': [*a.star]}
'''

# ------------------------------------------------------------------ specification: the callables of a module

HEURISTIC_BASES = ("Enum", "NamedTuple")
BLOCKS = (ast.If, ast.For, ast.AsyncFor, ast.While, ast.With, ast.AsyncWith, ast.Try, ast.Match) + \
    ((ast.TryStar,) if hasattr(ast, "TryStar") else ())


def base_family(cls: ast.ClassDef) -> str:
    """`plain` | `enum-like` | `namedtuple-like` | `enum-and-namedtuple-like`, from how the bases
    are SPELLED (last dotted component ends in `Enum` / `NamedTuple`)."""
    last = []
    for b in cls.bases:
        n = b
        while isinstance(n, (ast.Subscript, ast.Call)):
            n = n.value if isinstance(n, ast.Subscript) else n.func
        if isinstance(n, ast.Attribute):
            last.append(n.attr)
        elif isinstance(n, ast.Name):
            last.append(n.id)
    e = any(x.endswith("Enum") for x in last)
    n = any(x.endswith("NamedTuple") for x in last)
    return "enum-and-namedtuple-like" if e and n else "enum-like" if e else "namedtuple-like" if n else "plain"


def binding_counts(tree: ast.Module) -> Counter:
    """How often each identifier is bound / unbound anywhere in the module (defs, classes, stores,
    deletes, import aliases). A callable whose name has count 1 has exactly one possible meaning."""
    c = Counter()
    for n in ast.walk(tree):
        if isinstance(n, (ast.FunctionDef, ast.AsyncFunctionDef, ast.ClassDef)):
            c[n.name] += 1
        elif isinstance(n, ast.Name) and isinstance(n.ctx, (ast.Store, ast.Del)):
            c[n.id] += 1
        elif isinstance(n, ast.alias):
            c[(n.asname or n.name).split(".")[0]] += 1
        elif isinstance(n, (ast.Global, ast.Nonlocal)):
            for x in n.names:
                c[x] += 2
    return c


RESERVED = set(dir(__import__("builtins"))) | {"__name__", "__file__", "__doc__", "__package__", "__spec__", "__loader__",
                                               "__cached__", "__builtins__", "__annotations__"}


class Callable:
    __slots__ = ("key", "ckind", "node", "must", "why_not")

    def __init__(self, key, ckind, node, must, why_not=""):
        self.key, self.ckind, self.node, self.must, self.why_not = key, ckind, node, must, why_not


def _is_staticmethod_only(fn):
    return len(fn.decorator_list) == 1 and isinstance(fn.decorator_list[0], ast.Name) and fn.decorator_list[0].id == "staticmethod"


def callables_of(tree: ast.Module, excluded_patterns=()):
    """The callables of a module the property speaks about. `must` = its shape is unambiguous (direct
    child of the module, the only binding of its name, undecorated, not excluded): the IR MUST have
    an entry for it. Otherwise it is only judged if rattr has an entry under its name.
    Returns (callables, skipped Counter)."""
    counts = binding_counts(tree)
    out, skipped = [], Counter()

    def excluded(name):
        # a definition that re-uses a builtin's / module dunder's name is rejected with an error
        # ("… is not defined in the current context"): diagnosed, not analysed
        return any(re.fullmatch(p, name) for p in excluded_patterns) or name in RESERVED

    def walk(stmts, depth):
        for st in stmts:
            if isinstance(st, (ast.FunctionDef, ast.AsyncFunctionDef)):
                if st.decorator_list:
                    skipped["decorated-def"] += 1
                elif excluded(st.name):
                    skipped["excluded-def"] += 1
                elif counts[st.name] != 1:
                    skipped["ambiguous-def"] += 1
                else:
                    out.append(Callable(st.name, "async-function" if isinstance(st, ast.AsyncFunctionDef) else "function",
                                        st, depth == 0))
            elif isinstance(st, ast.ClassDef):
                if st.decorator_list:
                    skipped["decorated-class"] += 1
                elif excluded(st.name):
                    skipped["excluded-class"] += 1
                elif counts[st.name] != 1:
                    skipped["ambiguous-class"] += 1
                else:
                    klass(st, depth)
            elif isinstance(st, ast.Assign) and isinstance(st.value, ast.Lambda):
                if len(st.targets) == 1 and isinstance(st.targets[0], ast.Name) and counts[st.targets[0].id] == 1 \
                        and not excluded(st.targets[0].id):
                    out.append(Callable(st.targets[0].id, "named-lambda", st.value, depth == 0))
                else:
                    skipped["lambda-not-one-name"] += 1
            elif isinstance(st, BLOCKS):
                for field in ("body", "orelse", "finalbody"):
                    walk(getattr(st, field, []) or [], depth + 1)
                for h in getattr(st, "handlers", []) or []:
                    walk(h.body, depth + 1)
                for c in getattr(st, "cases", []) or []:
                    walk(c.body, depth + 1)

    def klass(cls, depth):
        fam = base_family(cls)
        suffix = "" if fam == "plain" else "-of-" + fam + "-class"
        methods = [m for m in cls.body if isinstance(m, (ast.FunctionDef, ast.AsyncFunctionDef))]
        inits = [m for m in methods if m.name == "__init__"]
        stored = Counter(n.id for s in cls.body if not isinstance(s, (ast.FunctionDef, ast.AsyncFunctionDef))
                         for n in ast.walk(s) if isinstance(n, ast.Name) and isinstance(n.ctx, (ast.Store, ast.Del)))
        if len(inits) == 1 and isinstance(inits[0], ast.FunctionDef) and not inits[0].decorator_list:
            out.append(Callable(cls.name, "initialiser" + suffix, inits[0], depth == 0))
        elif inits:
            skipped["initialiser-not-single-plain"] += 1
        per_name = Counter(m.name for m in methods)
        for m in methods:
            if m.name == "__init__" or not m.decorator_list:
                continue
            if not _is_staticmethod_only(m):
                skipped["method-with-other-decorators"] += 1
            elif per_name[m.name] != 1 or stored[m.name]:
                skipped["ambiguous-static-method"] += 1
            else:
                out.append(Callable(f"{cls.name}.{m.name}", "static-method" + suffix, m, depth == 0))

    walk(tree.body, 0)
    return out, skipped


def module_class_names(tree: ast.Module):
    """Every name that may denote a class in the module (over-approximation; it only selects the tag
    of an access that is ALREADY missing)."""
    names = set()
    for n in ast.walk(tree):
        if isinstance(n, ast.ClassDef):
            names.add(n.name)
        elif isinstance(n, ast.alias):
            names.add((n.asname or n.name).split(".")[0])
        elif isinstance(n, ast.Assign) and isinstance(n.value, ast.Call):
            f = spec.wcb(spec.spell(n.value.func))
            if f == "namedtuple" or f.endswith(".namedtuple"):
                names.update(t.id for t in n.targets if isinstance(t, ast.Name))
    return names


# ------------------------------------------------------------------ oracle on a per-file IR


def entry_sets(ir, form):
    """{get,set,del,call} -> set of reported names, from one IR entry in one of the three forms."""
    if form == "filelib":       # filelib.ir_json: [[name, basename], …] / call dicts
        have = {k: {n[0] for n in ir[k + "s"]} for k in ("get", "set", "del")}
        have["call"] = {c["name"] for c in ir["calls"]}
    elif form == "cli-ir":      # `-o ir`: symbol dicts
        have = {k: {n["name"] for n in ir[k + "s"]} for k in ("get", "set", "del")}
        have["call"] = {c["name"] for c in ir["calls"]}
    else:                       # `-o results`: plain strings, calls spelled with their brackets
        have = {k: set(ir[k + "s"]) for k in ("get", "set", "del")}
        have["call"] = {spec.wcb(c) for c in ir["calls"]}
    return have


def judge_entries(res, tree, entries, form, case, stage, excluded_patterns=(), min_nontrivial=3):
    """`entries`: name -> IR entry, or None for a name with several entries (ambiguous). Appends
    violations to `res`; returns the number of callables judged."""
    calls, skipped = callables_of(tree, excluded_patterns)
    for k, v in skipped.items():
        res.count(f"{stage}:callable-skipped:{k}", v)
    classes = module_class_names(tree)
    judged = 0
    for c in calls:
        if c.key not in entries:
            if c.must:
                sig = "callable-not-analysed:" + c.ckind
                res.count("verdict:" + sig)
                res.violations.append({"signature": sig, "case": case, "callable": c.key, "stage": stage,
                                       "detail": "no IR entry under this name; entries: " + ", ".join(sorted(map(str, entries)))[:400]})
            else:
                res.count(f"{stage}:no-entry-for-nested:{c.ckind}")
            continue
        if entries[c.key] is None:
            res.count(f"{stage}:callable-skipped:several-entries")
            continue
        have = entry_sets(entries[c.key], form)
        accs = spec.accesses(c.node, classes | spec.local_class_names(c.node, ()))
        judged += 1
        res.count(f"{stage}:judged:{c.ckind}")
        if len(accs) >= min_nontrivial:
            res.nontrivial.add(common.digest([stage, c.ckind, ast.unparse(c.node)]))
        for a in accs:
            res.count("position:" + (a.tags[0] if a.tags else "plain"))
            xs = xattr_signature(a)
            if xs is not None and not a.tags:
                res.count(f"{stage}:demanded:{xs}")
            if a.name in have[a.kind]:
                continue
            mp = match_position(a.path)
            if a.tags:
                sig = "missed-access:" + a.tags[0]
            elif mp is not None:
                sig = "missed-access:" + mp + ("" if c.ckind in ("function", "async-function") else ":in:" + c.ckind)
            elif xs is not None:
                sig = "missed-access:" + xs + ("" if c.ckind in ("function", "async-function") else ":in:" + c.ckind)
            elif c.ckind in ("function", "async-function"):
                sig = "missed-access:other:" + "/".join(a.path[-2:])
            else:
                sig = "missed-access:other:" + c.ckind + ":" + "/".join(a.path[-2:])
            res.count("verdict:" + sig)
            res.violations.append({"signature": sig, "case": case, "callable": c.key, "callable_kind": c.ckind, "stage": stage,
                                   "callable_source": ast.unparse(c.node)[:1500],
                                   "missing": {"kind": a.kind, "name": a.name, "line": a.node.lineno, "col": a.node.col_offset,
                                               "path": list(a.path), "tags": list(a.tags)},
                                   "reported": {k: sorted(v)[:40] for k, v in have.items()}})
    return judged


def xattr_signature(a):
    """`getattr-family-literal-name:<builtin>` for an (untagged) access that IS a direct getattr-family call
    with a literal name (the sentence of the property about getattr / hasattr / setattr / delattr) — purely
    syntactic: computed from the node of the access — else None."""
    n = a.node
    if spec.direct_xattr(n) and spec.is_str_const(n.args[1]):
        return "getattr-family-literal-name:" + n.func.id
    return None


def match_position(path):
    """`match-pattern:<load>:under:<pattern classes above it>` for an access that is an expression a case
    pattern evaluates (value pattern / class of a class pattern / mapping key), else None. Purely
    syntactic: computed from the access's position in the source."""
    idx = max((i for i, p in enumerate(path) if p == "match_case.pattern"), default=None)
    if idx is None or idx + 1 >= len(path):
        return None
    inner = [p.split(".")[0] for p in path[idx + 1:]]
    if not all(x.startswith("Match") for x in inner):
        return None
    wrappers = sorted({x[5:].lower() for x in inner[:-1]})
    last = re.sub(r"\[\d+\]$", "", path[-1])
    return f"match-pattern:{last}:under:{'+'.join(wrappers) or 'top'}"


def entries_by_name(pairs):
    """[(name, ir)] -> {name: ir or None when the name occurs more than once}."""
    out = {}
    for name, ir in pairs:
        out[name] = None if name in out else ir
    return out


# ------------------------------------------------------------------ generator: modules dense in callables

UNIT_HEADER = '''import collections
import enum
import os
import typing
from collections import defaultdict, namedtuple
from enum import Enum, IntEnum
from typing import NamedTuple

class Cls:
    def __init__(self, a, b=0, *rest, k=None):
        self.x = a
        self.y = b.q

class Bare:
    pass

class WithStatic:
    @staticmethod
    def sm(v):
        return v.sm_attr

def helper(z, w=0):
    return z.secret

lam = lambda q: q.in_lam
NT = namedtuple("NT", ["u", "v"])
glob = 1
other_glob = [1, 2]
'''

BASES = [[], [], ["Bare"], ["object"], ["Enum"], ["Enum"], ["enum.Enum"], ["IntEnum"], ["enum.IntEnum"], ["NamedTuple"],
         ["typing.NamedTuple"], ["NamedTuple"], ["Enum", "NamedTuple"], ["Bare", "enum.Enum"], ["my.pkg.Enum"],
         ["collections.abc.Sized"], ["typing.Generic[int]", "Enum"], ["NotAnEnumAtAll"]]


class UnitGen:
    """Modules made of callables only: functions (RetGen bodies), classes of every base family with
    an initialiser / static methods / ordinary methods / members, named lambdas. Nothing hostile:
    the whole file is meant to analyse successfully."""

    def __init__(self, rng, prefix=""):
        self.r = rng
        self.g = RetGen(rng, hostile=0.0, max_depth=2, p_stmt=0.25, p_expr=0.05)
        self.prefix = prefix
        self.n = 0
        self.exported = []

    def fresh(self, p):
        self.n += 1
        return f"{self.prefix}{p}{self.n}"

    def body(self, params, lo=1, hi=3):
        g = self.g
        for _ in range(20):
            g.locals = []
            g.params = list(params)
            lines = []
            for _ in range(self.r.randint(lo, hi)):
                lines.extend(g.stmt(1))
            src = "\n".join(lines)
            if "await " in src or "async " in src or "yield" in src:
                continue
            try:
                compile("def f():\n" + "\n".join("    " + l for l in lines), "<gen>", "exec")
            except SyntaxError:
                continue
            return lines
        return [f"return {params[0]}.{self.g.fresh('a')}"]

    def function(self):
        name = self.fresh("uf")
        for _ in range(20):
            src = self.g.function(name)
            try:
                compile(src, "<gen>", "exec")
            except SyntaxError:
                continue
            self.exported.append(name)
            return src.rstrip("\n").split("\n")
        return [f"def {name}(a):", "    return a.x"]

    def klass(self):
        r = self.r
        name = self.fresh("UK")
        bases = r.choice(BASES)
        fam = "enum" if any(b.endswith("Enum") for b in bases) else "nt" if any(b.endswith("NamedTuple") for b in bases) else ""
        body = []
        parts = []
        for _ in range(r.randint(0, 3)):
            parts.append("member")
        has_init = r.random() < 0.8
        if has_init:
            parts.append("init")
        for _ in range(r.choice([0, 1, 1, 2])):
            parts.append("static")
        if r.random() < 0.3:
            parts.append("method")
        if fam != "enum":
            r.shuffle(parts)
        for p in parts:
            if p == "member":
                m = self.fresh("M" if fam == "enum" else "f")
                body += [r.choice([f"{m} = {r.choice(['1', repr('v'), '(1, 2)', 'glob'])}", f"{m}: int", f"{m}: int = 0"])]
            elif p == "init":
                sig = r.choice([["self", "a", "b=0"], ["self", "spec"], ["self", "a", "/", "b", "*", "k"], ["self", "*args", "**kw"],
                                ["self"]])
                params = [p.strip("*").split("=")[0] for p in sig if p not in ("/", "*")]
                body += [f"def __init__({', '.join(sig)}):"] + ["    " + l for l in self.body(params)]
            elif p == "static":
                sig = r.choice([["v", "w"], ["v"], ["v", "*", "k=None"]])
                params = [p.strip("*").split("=")[0] for p in sig if p not in ("/", "*")]
                body += ["@staticmethod", f"def {self.fresh('sm')}({', '.join(sig)}):"] + ["    " + l for l in self.body(params)]
            elif p == "method":
                body += [f"def {self.fresh('meth')}(self, o):"] + ["    " + l for l in self.body(["self", "o"], 1, 1)]
        if not body:
            body = ["pass"]
        self.exported.append(name)
        hdr = f"class {name}({', '.join(bases)}):" if bases else f"class {name}:"
        return [hdr] + ["    " + l for l in body]

    def named_lambda(self):
        g = self.g
        name = self.fresh("ulam")
        for _ in range(20):
            g.locals = []
            g.params = ["a", "b"]
            src = f"{name} = lambda a, b: {g.expr(1)}"
            if "await " in src or "yield" in src:
                continue
            try:
                compile(src, "<gen>", "exec")
            except SyntaxError:
                continue
            self.exported.append(name)
            return [src]
        return [f"{name} = lambda a, b: a.x"]

    def module(self, extra_header=(), n_units=None):
        r = self.r
        lines = UNIT_HEADER.split("\n") + list(extra_header)
        kinds = ["class", "class", "function"] + [r.choice(["class", "class", "function", "lambda"]) for _ in range(n_units or r.randint(2, 4))]
        r.shuffle(kinds)
        for k in kinds:
            unit = self.klass() if k == "class" else self.function() if k == "function" else self.named_lambda()
            if r.random() < 0.12:
                unit = [r.choice(["if glob:", "try:", "for _i in other_glob:", "with helper(1):"])] + ["    " + l for l in unit]
                if unit[0] == "try:":
                    unit += ["except Exception:", "    pass"]
            lines += unit
        return "\n".join(lines) + "\n"


UNIT_CURATED = [
    # the `enum` documentation's Planet example: an Enum with an explicit initialiser
    "from enum import Enum\nclass Planet(Enum):\n    EARTH = (5.97e+24, 6.37e6)\n    MARS = (6.42e+23, 3.39e6)\n"
    "    def __init__(self, spec):\n        self.mass = spec.mass\n        self.radius = spec.size.radius\n"
    "        spec.register(self.mass)\n        del spec.scratch\n",
    "from typing import NamedTuple\nclass Pt(NamedTuple):\n    x: int\n    y: int = 0\n    def __init__(self, src):\n        src.seen = self.x\n"
    "    @staticmethod\n    def origin(o):\n        return {**o.defaults, 'x': o.x0}\n",
    "import enum\nclass Both(enum.Enum, typing.NamedTuple):\n    A = 1\n    def __init__(self, q):\n        self.q = q.val\n        q.log(self.q)\n",
    "class E2(Enum):\n    A = 1\n    B = 2\nclass E3(E2):\n    def __init__(self, w):\n        self.w = w.weight\n",
    "def merged(base, extra, k, v):\n    return {**base.defaults, k.name: v.value, **extra.overrides()}\n"
    "pick = lambda a, b: {**a.opts, 'b': [*b.items]}\n",
    "class Plain:\n    M = 1\n    def __init__(self, spec):\n        self.mass = spec.mass\n        return {**spec.extra}\n"
    "    @staticmethod\n    def make(v):\n        return Plain({**v.spec})\n",
]


# ------------------------------------------------------------------ in-process stage (real S2+S4 vs model, then the oracle)


def run_unit_stage(res, rng, n, model, stage="unit", unit_gen=None, curated=None):
    """`unit_gen`: the UnitGen (sub)class the modules come from; `curated`: hand-written modules run first."""
    from props import filegen, filelib

    unit_gen = unit_gen or UnitGen
    curated = UNIT_CURATED if curated is None else curated

    project = filelib.make_project()
    cases = []
    try:
        work = [("target.py", s) for s in curated]
        for i in range(n):
            target = rng.choice(["target.py", "target.py", "lp/mod_u.py"])
            work.append((target, unit_gen(rng).module()))
        for target, src in work:
            try:
                c = filelib.run_case(project, target, src, excluded=filegen.EXCLUDE_PATTERNS)
            except SyntaxError:
                res.internal_errors.append({"what": "unit module does not parse", "module": src[:400]})
                continue
            finally:
                if target not in filelib.LOCAL_PACKAGE:
                    try:
                        (project / target).unlink()
                    except OSError:
                        pass
            cases.append(c)
    finally:
        filelib.drop_project(project)
    live = [c for c in cases if c.skipped is None]
    for c in cases:
        if c.skipped is not None:
            res.skipped_outside_fragment += 1
            res.count(f"{stage}:skipped:" + c.skipped[:40])
    reqs = []
    for c in live:
        reqs.append(("root_context", c.payload))
        reqs.append(("analyse_file", c.payload))
    outs = model.batch(reqs)
    for i, c in enumerate(live):
        c.root_mo, c.file_mo = outs[2 * i], outs[2 * i + 1]
        res.evaluations += 1
        d = filelib.compare_root(c.root_im, c.root_mo)
        res.count(f"{stage}:root:" + c.root_im["outcome"])
        if d is None and c.file_im is not None:
            res.count(f"{stage}:file:" + c.file_im["outcome"] + (":" + c.file_im["exc"] if c.file_im["outcome"] != "ok" else ""))
            d = filelib.compare_file(c.file_im, c.file_mo)
        if d is not None:
            res.disagreements.append({"case": {"stage": stage + " (root-context/file-analyser)", "target": c.target, "module": c.src},
                                      "diff": d[:2000]})
        judge_file_case(res, c, stage)
    return cases


def judge_file_case(res, c, stage):
    """The oracle on one filelib.FileCase (real FileIr)."""
    from props import filegen

    if c.file_im is None or c.file_im.get("outcome") != "ok" or "keys" not in c.file_im:
        return 0
    entries = entries_by_name((k["sym"]["name"], k["ir"]) for k in c.file_im["keys"])
    return judge_entries(res, c.tree, entries, "filelib", {"stage": stage, "target": c.target, "module": c.src}, stage,
                         excluded_patterns=filegen.EXCLUDE_PATTERNS)


# ------------------------------------------------------------------ CLI stage: target + followed import


def _cli(project, args, hashseed=0):
    env = dict(os.environ, PYTHONHASHSEED=str(hashseed), PYTHONDONTWRITEBYTECODE="1")
    p = subprocess.run([sys.executable, "-m", "rattr", "-w", "none", *args], cwd=str(project), env=env,
                       capture_output=True, text=True, timeout=120)
    doc = None
    if p.returncode == 0:
        try:
            doc = json.loads(p.stdout)
        except Exception:  # noqa
            doc = None
    return p.returncode, doc, p.stderr[-600:]


def gen_cli_project(rng, i, unit_gen=None):
    """(files: rel path -> source, target rel path, followed: module name -> rel path)."""
    UnitGen = unit_gen or globals()["UnitGen"]  # noqa: N806
    layout = rng.choice(["flat", "flat", "package"])
    imp_rel, imp_mod = ("c01imp.py", "c01imp") if layout == "flat" else ("c01pkg/inner.py", "c01pkg.inner")
    ig = UnitGen(rng, prefix="i")
    imp_src = ig.module()
    names = [n for n in ig.exported]
    rng.shuffle(names)
    picked = names[: max(1, len(names) // 2)]
    header = [rng.choice([f"from {imp_mod} import {', '.join(picked)}", f"import {imp_mod}", f"import {imp_mod} as imod",
                          f"from {imp_mod} import {picked[0]} as renamed"])]
    tg = UnitGen(rng, prefix="t")
    tgt_src = tg.module(extra_header=header)
    use = []
    if header[0].startswith("from") and " as " not in header[0]:
        use = ["def uses_import(a, b):"] + [f"    {p}(a.u{j}, b)" for j, p in enumerate(picked)]
    files = {"target.py": tgt_src + "\n".join(use) + ("\n" if use else ""), imp_rel: imp_src}
    if layout == "package":
        files["c01pkg/__init__.py"] = ""
    return files, "target.py", {imp_mod: imp_rel}


def _inproc(project, args):
    """`rattr.__main__.main` in this process on the same argv as `_cli` (what the CLI entry point runs)."""
    import contextlib
    import io

    import impl
    import rattr.__main__ as main_mod
    from rattr.cli import parse_arguments
    from rattr.config import Config, State
    from rattr.config._types import ConfigMetaclass

    def drop():
        ConfigMetaclass._instance = None
        try:
            Config._instance = None
        except Exception:  # noqa
            pass

    out = io.StringIO()
    with impl.in_dir(str(project)):
        drop()
        impl.clear_caches_fast()
        try:
            with impl.Tap():
                cfg = Config(arguments=parse_arguments(sys_args=["-w", "none", *args]), state=State())
            with impl.Tap(), contextlib.redirect_stdout(out):
                oc = impl.outcome_of(main_mod.main, cfg)
        finally:
            drop()
    doc = None
    if oc[0] == "ok":
        try:
            doc = json.loads(out.getvalue())
        except Exception:  # noqa
            doc = None
    return (0 if oc[0] == "ok" else 1), doc, str(oc[1])[:300] if len(oc) > 1 else ""


def _judge_project(res, files, target, followed, runner, how, stage):
    case = {"stage": stage, "how": how, "argv": "rattr -w none -o ir|results target.py", "files": files}
    trees = {rel: ast.parse(text) for rel, text in files.items()}
    rc, doc, err = runner(["-o", "ir", target])
    res.evaluations += 1
    res.count(f"{stage}:ir:exit:{rc}")
    if rc != 0 or doc is None:
        res.count(f"{stage}:ir:no-document")
        return
    tir = doc["target_ir"]["ir"]["function_irs"]
    judge_entries(res, trees[target], dict(tir), "cli-ir", dict(case, file=target), stage + ":target")
    for mod, rel in followed.items():
        if mod not in doc["import_irs"]:
            sig = "followed-import-not-analysed"
            res.count("verdict:" + sig)
            res.violations.append({"signature": sig, "case": case, "stage": stage, "detail": f"{mod} is imported by the target "
                                   f"and local, but `-o ir` has no import_irs entry for it: {sorted(doc['import_irs'])}"})
            continue
        iir = doc["import_irs"][mod]["function_irs"]
        judge_entries(res, trees[rel], dict(iir), "cli-ir", dict(case, file=rel), stage + ":import")
    rc, rdoc, err = runner(["-o", "results", target])
    res.count(f"{stage}:results:exit:{rc}")
    if rc == 0 and rdoc is not None:
        judge_entries(res, trees[target], dict(rdoc), "cli-results", dict(case, file=target), stage + ":results")


def run_project_stage(res, rng, n_inproc, n_cli, unit_gen=None, stages=("project", "cli")):
    """Two-file projects (target + followed import, flat or in a package) through the whole
    pipeline: `-o ir` (IR of the target and of each followed module) and `-o results` (the final
    per-function object); in-process for all of them, through the real CLI in a subprocess for the
    first `n_cli`."""
    for i in range(n_inproc):
        files, target, followed = gen_cli_project(rng, i, unit_gen)
        tmp = Path(tempfile.mkdtemp(prefix="rattr-c01proj-"))
        try:
            for rel, text in files.items():
                (tmp / rel).parent.mkdir(parents=True, exist_ok=True)
                (tmp / rel).write_text(text)
            _judge_project(res, files, target, followed, lambda a: _inproc(tmp, a), "in-process rattr.__main__.main", stages[0])
            if i < n_cli:
                _judge_project(res, files, target, followed, lambda a: _cli(tmp, a), "python -m rattr (subprocess)", stages[1])
        finally:
            shutil.rmtree(tmp, ignore_errors=True)

"""C02 oracle, signature side: what a definition's OWN SIGNATURE mentions (source only).

The analysed callable's signature is not part of its body: parameter defaults, keyword-only
defaults, parameter / return annotations, decorators and PEP 695 type-parameter bounds of a
module-level `def` / `async def`, a named lambda, an `__init__`, a static method are evaluated once,
at definition time, in the enclosing scope. For `__init__` / static methods the class header
(bases, keywords, class decorators) and for `name: ANN = lambda …` the annotation of the assignment
are signature-like in the same sense. None of it can justify a name of the callable's own IR
(`accessspec.justification_sets` walks the body only); this module names the PART of the signature
a phantom comes from, so that the failing class is reported precisely:

    entry:<kind>:phantom-<get|set|del|call>:only-in-own-signature:<part>

`part` in: default, kw-default, annotation, returns, decorator, type-param, class-base,
class-keyword, class-decorator, assignment-annotation.

Nested defs / lambdas INSIDE a body are a different matter: their defaults, annotations and
decorators are expressions the enclosing body evaluates, so the property admits them (the walk of
`justification_sets` includes them); the pinned rattr reports none of them (`visit_AnyFunctionDef`
reads parameter names and body only) — `nested_signature_names` lists them so the run can count how
often one is (legitimately) absent / present.
"""
from __future__ import annotations

import ast
from props import accessspec as spec

PARTS = ("default", "kw-default", "annotation", "returns", "decorator", "type-param", "class-base", "class-keyword",
         "class-decorator", "assignment-annotation")
DEFS = (ast.FunctionDef, ast.AsyncFunctionDef)


def _all_args(a: ast.arguments):
    out = list(a.posonlyargs) + list(a.args)
    if a.vararg:
        out.append(a.vararg)
    out += list(a.kwonlyargs)
    if a.kwarg:
        out.append(a.kwarg)
    return out


def own_signature_parts(node, cls=None, assign=None):
    """[(part, expr)] of the definition `node` (FunctionDef / AsyncFunctionDef / Lambda)."""
    out = []
    if isinstance(node, DEFS):
        out += [("decorator", d) for d in node.decorator_list]
    a = node.args
    out += [("default", d) for d in a.defaults]
    out += [("kw-default", d) for d in a.kw_defaults if d is not None]
    if isinstance(node, DEFS):
        out += [("annotation", x.annotation) for x in _all_args(a) if x.annotation is not None]
        if node.returns is not None:
            out.append(("returns", node.returns))
        for tp in getattr(node, "type_params", []) or []:
            for f in ("bound", "default_value"):
                e = getattr(tp, f, None)
                if e is not None:
                    out.append(("type-param", e))
    if cls is not None:
        out += [("class-decorator", d) for d in cls.decorator_list]
        out += [("class-base", b) for b in cls.bases]
        out += [("class-keyword", k.value) for k in cls.keywords]
    if isinstance(assign, ast.AnnAssign):
        out.append(("assignment-annotation", assign.annotation))
    return out


def justification_of_exprs(exprs):
    """`accessspec.justification_sets` of a list of expressions taken as if they were body code."""
    return spec.justification_sets(None, nodes=[n for e in exprs for n in ast.walk(e)])


def only_in_signature(node, kind, name, cls=None, assign=None):
    """the part(s) of the own signature that mention (kind, name), joined by '+', or None.
    `kind` in get / set / del / call. Source only."""
    hits = []
    for part in PARTS:
        exprs = [e for p, e in own_signature_parts(node, cls, assign) if p == part]
        if exprs and name in justification_of_exprs(exprs)[kind]:
            hits.append(part)
    return "+".join(hits) if hits else None


def signature_names(node, cls=None, assign=None):
    """{(kind, name)} everything the own signature would justify."""
    j = justification_of_exprs([e for _p, e in own_signature_parts(node, cls, assign)])
    return {(k, n) for k in j for n in j[k]}


def model_sig_json(node, enc):
    """payload of op `analyse_callable`: the signature expressions by part (`enc` = visitlib.enc)."""
    parts = own_signature_parts(node)
    by = lambda p: [enc(e) for q, e in parts if q == p]  # noqa: E731
    return {"decorators": by("decorator"), "defaults": by("default"), "kw_defaults": by("kw-default"),
            "annotations": by("annotation"), "returns": by("returns"), "type_params": by("type-param")}


def nested_definitions(fn):
    body = fn.body if not isinstance(fn, ast.Lambda) else [fn.body]
    for s in body:
        for n in ast.walk(s):
            if isinstance(n, DEFS + (ast.Lambda,)):
                yield n


def nested_signature_names(fn):
    """{(kind, name)} mentioned by the signature of a def / lambda nested in the body of `fn`
    and by nothing else of that body."""
    sig_nodes = set()
    exprs = []
    for d in nested_definitions(fn):
        for _p, e in own_signature_parts(d):
            exprs.append(e)
            sig_nodes.update(id(x) for x in ast.walk(e))
    if not exprs:
        return set()
    j = justification_of_exprs(exprs)
    mentioned = {(k, n) for k in j for n in j[k]}
    # what the body justifies with the nested signatures cut out
    jr = spec.justification_sets(None, nodes=[n for n in spec.all_nodes(fn) if id(n) not in sig_nodes])
    return {(k, n) for (k, n) in mentioned if n not in jr[k]}

"""C10, stage S — the places that CONSUME a namer's result spell names in the documented format.

The namer-level stage of py/props/c10.py calls `names_of` & co. directly; a defect at a *call site*
(e.g. the `(basename, fullname)` pair unpacked in the wrong order, the wrong one of the two handed to
`Name(...)` / `Call.from_call(..., self=...)`) is invisible there. This stage goes through the real
analyser for every syntactic slot in which rattr names an expression and reports it:

  * Tie A (every run): `c10scan.scan` enumerates all references to the namers in the source of the
    repo under test; the table the Lean model hard-codes (`Rattr.NamingSites.sites`, read through the
    driver op `naming_sites`) classifies each one — `internal` (inside the namers: the namer-level
    stage), `slots:<ids>` (probed here), `plain:<why>` / `unreached:<why>`. A site the source has and
    the table does not is reported in the evidence (`consumer_sites.uncovered`) and breaks the theorem
    `tieA_consumer_sites`. While the in-process probes run, the namers are wrapped by a recorder, so
    the evidence also says which slot families *dynamically* reached which site with a COMPOUND
    expression; a site classified `slots:…` that no probe reaches is an internal error.
  * probes: for every slot family and every compound expression E (exhaustive over the step alphabet
    {.attr, [sub], (call)} to depth 2 (quick) / 3 (thorough), plus seeded random deeper chains with
    slices, keywords, stand-in bases) one function (or module-level statement) with E in that slot.
  * channels: `ir` — the real `FunctionAnalyser` on the function in the real root context (names WITH
    their basenames, call records with argument spellings and targets); `results` — the whole file
    through the real pipeline in-process and through `python -m rattr -o results` (must print the same
    document); `results-import` — the same functions in a followed import, called from the target with
    renamed arguments (the substituted spellings of rattr/results).
  * oracle (the documented spelling = Lean `Spec.spell` / `Spec.base` through the driver, op `names`):
    every name the slot is documented to report is present (`missing-documented-name`), and every
    reported name / call / argument rooted at E's base is the documented spelling of E, of one of the
    prefixes of its spine, or one of the slot's derived names (`undocumented-name`).
  * Tie B: the Lean model of the function analyser (op `analyse_fn`) must reproduce the `ir` channel.
"""
from __future__ import annotations

import ast
import json
import os
import random
import shutil
import subprocess
import sys
import tempfile
import textwrap
from pathlib import Path
from unittest import mock

import common
import impl
from props import c10scan
from props import visitlib as vl

XATTRS = ("getattr", "setattr", "hasattr", "delattr")
FN_PARAMS = "shape, a, i, p"
RENAMED = {"shape": "s2", "a": "a2", "i": "i2", "p": "p2"}

HEADER = '''\
from collections import namedtuple, defaultdict


class Point:
    def __init__(self, x, y):
        self.x = x
        self.y = y


NT = namedtuple("NT", ["u", "v"])


def callee(p, q=None):
    return p.attr, q.qattr
'''

# ------------------------------------------------------------------ expressions

STEPS_SMALL = ["A", "S", "C"]
STEP_TEXT = {"A": [".x", ".y", ".z", ".w"], "S": ["[i]", "[0]", "[i]", "[0]"], "C": ["(p)", "()", "(p)", "()"]}
RICH_STEPS = [".x", ".corners", ".y_1", "[0]", "[i]", "[1:2]", "[i, 0]", "['k']", "[p.q]", "()", "(p)", "(p, k=i)",
              "(*p)", "(k=p.q)"]
STANDIN_BASES = ["(a + i)", "'lit'", "[1, 2]", "(not a)", "f'{a}'", "{1: 2}", "(a if i else p)", "(a.m < i)", "(-a)", "(lambda: 0)"]


# whole expressions with NO name (the README: '@' + the AST class), `{B}` = the probe's own variable; a
# safe-naming consumer must spell them (and whatever is stacked on them) without raising
STANDIN_TEMPLATES = [
    "({B}.A if {B}.c else {B}.D)", "({B}.A or {B}.D)", "({B}.A, {B}.D)[0]", "(lambda: {B}.A)()", "(lambda: {B}.A)",
    "[{B}.A][0]", "{{1: {B}.A}}[1]", "(-{B}.A)", "({B}.A + {B}.D)", "(not {B}.A)", "({B}.A < {B}.D)", "f'{{{B}}}'",
    "='lit'", "=(1)", "=None", "=...", "({B}.A for _ in {B}.D)", "[_ for _ in {B}.D][0]", "(wal := {B}.A)",
    "{{{B}.A}}", "({B}.A,)", "[{B}.A]", "{{1: {B}.A}}", "[_ for _ in {B}.D]", "{{_ for _ in {B}.D}}", "{{_: 1 for _ in {B}.D}}",
]
STANDIN_STEPS = ["", ".x", "[0]", "()", ".x.y", "[0].x"]


# always present, whatever the seed: the README's own example shape, and one chain per mechanism that
# derives a basename from the spelled string (first dotted component with brackets)
CURATED = ["shape.corners[0].anchor", "shape[i].y.z", "shape(p).y.z", "shape.origin"]


def small_exprs(depth, base="shape"):
    out = []

    def rec(prefix, kinds):
        if kinds:
            out.append((prefix, tuple(kinds)))
        if len(kinds) == depth:
            return
        for k in STEPS_SMALL:
            rec(prefix + STEP_TEXT[k][len(kinds) % 4], kinds + [k])

    rec(base, [])
    return [e for e, _ in out]


def random_expr(rng, base="shape", target=False, attr_only=False):
    n = rng.randint(3, 6)
    src = base
    for j in range(n):
        if attr_only:
            st = rng.choice([".x", ".corners", ".y_1", ".z"])
        else:
            st = rng.choice(RICH_STEPS)
            if target and j == n - 1 and st.startswith("("):
                st = rng.choice([".x", "[i]", "[1:2]"])
        src += st
    return src


def ends_in_call(node):
    return isinstance(node, ast.Call)


XATTR_SECTION = {"getattr": "gets", "hasattr": "gets", "setattr": "sets", "delattr": "dels"}


def xattr_call(node):
    """(builtin, object) when `node` is a DIRECT getattr-family call with a string-literal name (the
    README: 'spells as the equivalent dotted access'), else None."""
    if isinstance(node, ast.Call) and isinstance(node.func, ast.Name) and node.func.id in XATTRS and len(node.args) >= 2 \
            and isinstance(node.args[1], ast.Constant) and isinstance(node.args[1].value, str):
        return node.func.id, node.args[0]
    return None


def spine(node):
    """The expression and the prefixes of its func/value spine, outermost first. The spine the README
    reads: through a direct literal getattr-family call it continues in the OBJECT (the call spells as
    the dotted access `O.k`), not in the builtin's name."""
    out = []
    while True:
        out.append(node)
        xc = xattr_call(node)
        if xc is not None:
            node = xc[1]
        elif isinstance(node, ast.Call):
            node = node.func
        elif isinstance(node, (ast.Attribute, ast.Subscript, ast.Starred)):
            node = node.value
        else:
            return out


def is_attr_chain(node):
    while isinstance(node, ast.Attribute):
        node = node.value
    return isinstance(node, ast.Name)


def has_xattr(node):
    return any(isinstance(n, ast.Name) and n.id in XATTRS for n in ast.walk(node))


# ------------------------------------------------------------------ slots


class Slot:
    def __init__(self, sid, body, *, target=False, strict=False, attr_only=False, no_call_end=False, is_async=False,
                 level="fn", expect=None, standin=False, prelude="", xarg=False):
        self.id = sid
        self.body = body              # statements of the probe function, `{E}` = the expression (module level: a
                                      # tuple = variants of the statement, taken in turn)
        self.target = target          # E must be an assignment target (not ending in a call)
        self.strict = strict          # the site names with safe=False: E's base must be a variable
        self.attr_only = attr_only    # E must be a pure attribute chain
        self.no_call_end = no_call_end
        self.is_async = is_async
        self.level = level            # "fn" | "module"
        self.expect = expect
        self.standin = standin        # stand-in bases allowed (the slot names with safe=True only)
        self.prelude = prelude
        self.xarg = xarg              # E may be a DIRECT literal getattr-family call (argument / value slots)


def X(**kw):
    """An expectation: names must be present (per section), extra names allowed, call records."""
    d = {"names": {}, "extra": {}, "calls": [], "res_names": None, "res_extra": {}, "res_calls": None, "keys": [], "nodiag": [],
         "xattr_full": None}
    d.update(kw)
    return d


def _n(sec, *names):
    return {sec: list(names)}


def sl_access(sec):
    return lambda S, B, e: X(names=_n(sec, S))


def sl_call(S, B, e):
    # the slot expression is the call itself: S ends in "()" (or is a dotted access for getattr & co.)
    return X(calls=[{"name": S}], res_calls=[S])


def sl_callarg(S, B, e):
    return X(names=_n("gets", S), calls=[{"name": "callee()", "args": [S]}],
             res_names=_n("gets", S, S + ".attr"), res_extra=_n("gets", S + ".attr"))


def sl_callkw(S, B, e):
    return X(names=_n("gets", S), calls=[{"name": "callee()", "kwargs": {"q": S}}],
             res_names=_n("gets", S, S + ".qattr"), res_extra=_n("gets", S + ".qattr"))


def sl_callstar(S, B, e):
    return X(names=_n("gets", "*" + S), calls=[{"name": "callee()", "args": ["*" + S]}],
             res_names=_n("gets", "*" + S, "*" + S + ".attr"), res_extra=_n("gets", "*" + S + ".attr"))


def sl_classassign(init_attrs):
    def f(S, B, e):
        derived = [S + "." + x for x in init_attrs]
        return X(names=_n("sets", S), calls=[{"name_in": ("Point()", "NT()"), "args0": S}],
                 res_names=_n("sets", S, *derived), res_extra=_n("sets", *derived))
    return f


def sl_classarg(pos):
    def f(S, B, e):
        return X(names=_n("gets", S), calls=[{"name": "Point()", "arg_at": (pos, S)}])
    return f


def sl_classkw(S, B, e):
    return X(names=_n("gets", S), calls=[{"name": "Point()", "kwargs": {"y": S}}])


def sl_lambda(S, B, e):
    c = {"name": S + "()"}
    if is_attr_chain(e):
        c["target"] = ("Func", S)
    return X(calls=[c], res_calls=[S + "()"])


def sl_nt(S, B, e):
    c = {"name": S + "()"}
    if is_attr_chain(e):
        c["target"] = ("Class", S)
        c["args0"] = "t"
    return X(calls=[c], res_calls=[S + "()"])


def sl_xattr(sec, suffix):
    def f(S, B, e):
        full = S + suffix
        return X(names={sec: [full], **({"gets": [S]} if sec != "gets" else {"gets": [full, S]})},
                 extra={"gets": _dotted_prefixes(full), sec: [full] + (_dotted_prefixes(full) if sec == "gets" else [])},
                 xattr_full=full)
    return f


def _dotted_prefixes(full):
    parts = full.split(".")
    return [".".join(parts[:k]) for k in range(1, len(parts))]


def sl_sorted(S, B, e):
    return X(names=_n("gets", S, S + ".w"), extra=_n("gets", S + ".w"))


def sl_defaultdict(S, B, e):
    return X(calls=[{"name": S + "()"}], res_calls=[S + "()"])


FN_SLOTS = [
    Slot("load", "return {E}", standin=True, xarg=True, expect=sl_access("gets")),
    Slot("load-stmt", "{E}\n    return a", standin=True, expect=sl_access("gets")),
    Slot("walrus-value", "if (t := {E}):\n        return t", standin=True, expect=sl_access("gets")),
    Slot("store", "{E} = a.v", target=True, strict=True, expect=sl_access("sets")),
    Slot("store-tuple", "{E}, a.w = a.v", target=True, strict=True, expect=sl_access("sets")),
    Slot("store-chain", "a.w = {E} = a.v", target=True, strict=True, expect=sl_access("sets")),
    Slot("store-starred", "*{E}, a.w = a.v", target=True, strict=True, expect=lambda S, B, e: X(names=_n("sets", "*" + S))),
    Slot("aug", "{E} += a.v", target=True, strict=True, expect=sl_access("sets")),
    Slot("ann", "{E}: int = a.v", target=True, strict=True, expect=sl_access("sets")),
    Slot("ann-bare", "{E}: int", target=True, strict=True, expect=sl_access("sets")),
    Slot("del", "del {E}", target=True, strict=True, expect=sl_access("dels")),
    Slot("for", "for {E} in a.items:\n        pass", target=True, strict=True, expect=sl_access("sets")),
    Slot("async-for", "async for {E} in a.items:\n        pass", target=True, strict=True, is_async=True, expect=sl_access("sets")),
    Slot("with", "with a.cm as {E}:\n        pass", target=True, strict=True, expect=sl_access("sets")),
    Slot("async-with", "async with a.cm as {E}:\n        pass", target=True, strict=True, is_async=True, expect=sl_access("sets")),
    Slot("comp", "return [1 for {E} in a.items]", target=True, strict=True, expect=sl_access("sets")),
    Slot("genexp", "return any(1 for {E} in a.items)", target=True, strict=True, expect=sl_access("sets")),
    Slot("call", "{E}(a.v)\n    return a", standin=True, expect=None),         # expression = the call: see _slot_expr
    Slot("ret-call", "return {E}(a.v)", standin=True, expect=None),
    Slot("callarg", "callee({E})", standin=True, xarg=True, expect=sl_callarg),
    Slot("callkw", "callee(a.v, q={E})", standin=True, xarg=True, expect=sl_callkw),
    Slot("callstar", "callee(*{E})", standin=True, expect=sl_callstar),
    Slot("classassign", "{E} = Point(a.u, a.v)", target=True, strict=True, expect=sl_classassign(["x", "y"])),
    Slot("classassign-ann", "{E}: Point = Point(a.u, a.v)", target=True, strict=True, expect=sl_classassign(["x", "y"])),
    Slot("classassign-nt", "{E} = NT(a.u, a.v)", target=True, strict=True, expect=sl_classassign([])),
    Slot("classarg", "t = Point({E}, a.v)", standin=True, xarg=True, expect=sl_classarg(1)),
    Slot("classkw", "t = Point(a.u, y={E})", standin=True, xarg=True, expect=sl_classkw),
    Slot("retclass", "return Point({E}, a.v)", standin=True, xarg=True, expect=sl_classarg(1)),
    Slot("lambda-assign", "{E} = lambda z: z.w\n    return {E}(a.v)", target=True, strict=True, expect=sl_lambda),
    Slot("namedtuple-assign", "{E} = namedtuple('Q', ['m'])\n    t = {E}(a.v)", target=True, strict=True, expect=sl_nt),
    Slot("getattr", "return getattr({E}, 'k')", strict=True, no_call_end=True, expect=sl_xattr("gets", ".k")),
    Slot("hasattr", "return hasattr({E}, 'k')", strict=True, no_call_end=True, expect=sl_xattr("gets", ".k")),
    Slot("setattr", "setattr({E}, 'k', a.v)", strict=True, no_call_end=True, expect=sl_xattr("sets", ".k")),
    Slot("delattr", "delattr({E}, 'k')", strict=True, no_call_end=True, expect=sl_xattr("dels", ".k")),
    Slot("getattr-nested", "return getattr(getattr({E}, 'k'), 'm')", strict=True, no_call_end=True, expect=sl_xattr("gets", ".k.m")),
    Slot("sorted", "return sorted({E}, key=lambda e: e.w)", standin=True, expect=sl_sorted),
    Slot("defaultdict", "return defaultdict({E})", strict=True, attr_only=True, expect=sl_defaultdict),
    # the compound expression is the FUNCTION of a namedtuple declaration (`x.y.namedtuple(...)`): the
    # spelling decides whether the assignment declares a class
    Slot("namedtuple-func", "t = {E}.namedtuple('Q', ['m'])\n    w = t(a.v)", strict=True,
         expect=lambda S, B, e: X(calls=[{"name": "t()", "target": ("Class", "t"), "args0": "w"}], res_calls=["t()"])),
]
CALL_SLOTS = ("call", "ret-call")


def ml_lambda(S, B, e):
    return X(keys=[S], res_calls=[S + "()"])


def ml_quiet(S, B, e):
    # nothing rooted at E's base is reported; its base is (still) bound: no "potentially undefined"
    return X(res_calls=[], nodiag=[["warning", "undefined", B]], extra=_n("gets", B + ".q"))


def ml_key_only(S, B, e):
    return X(res_calls=[], extra=_n("gets", B + ".q"))


def ml_class(always_key, *more_keys):
    """A class statement with the expression among its bases: the class (its initialiser) is a key of the
    document when it has an `__init__` or the DOCUMENTED spelling of a base is `Enum` / `….Enum` /
    `NamedTuple` / `….NamedTuple` (the slot's body appends that attribute, or E itself is so spelled)."""
    def f(S, B, e):
        keyed = always_key or any(S == h or S.endswith("." + h) for h in ("Enum", "NamedTuple"))
        return X(res_calls=[], extra=_n("gets", B + ".q"), keys=(["K{K}"] if keyed else []) + list(more_keys))
    return f


MODULE_SLOTS = [
    Slot("module-lambda", "{E} = lambda z: z.w", target=True, strict=True, level="module", expect=ml_lambda),
    Slot("module-namedtuple", "{E} = namedtuple('Q', ['m'])", target=True, strict=True, level="module", expect=ml_lambda),
    Slot("module-walrus-lambda", "{E} = ({H} := lambda z: z.ww)", target=True, strict=True, level="module", expect=ml_lambda),
    Slot("module-namedtuple-func", "T{K} = {E}.namedtuple('Q', ['m'])", standin=True, level="module",
         expect=lambda S, B, e: X(res_calls=[], extra=_n("gets", B + ".q"), keys=["T{K}"]), prelude="use-base"),
    Slot("module-store", "{E} = 1", target=True, strict=True, level="module", expect=ml_quiet, prelude="use-base"),
    Slot("module-del", "{B} = 1\ndel {E}", target=True, strict=True, level="module", expect=ml_quiet, prelude="use-base"),
    # the spelling of a base only feeds the Enum / NamedTuple heuristics of classes without __init__;
    # `base_names` names with safe=True: EVERY expression is admissible as a base, also the unnameable ones
    Slot("class-base", ("class K{K}({E}):\n    RED = 1", "class K{K}({E}):\n    pass"), standin=True, level="module",
         expect=ml_class(False), prelude="use-base"),
    Slot("class-base-enum", "class K{K}({E}.Enum):\n    RED = 1", standin=True, level="module",
         expect=ml_class(True), prelude="use-base"),
    Slot("class-base-nt", "class K{K}({E}.NamedTuple):\n    u: int\n    v: int", standin=True, level="module",
         expect=ml_class(True), prelude="use-base"),
    Slot("class-base-second", ("class K{K}(object, {E}):\n    RED = 1", "class K{K}({E}, metaclass=type):\n    level = 1",
                               "class K{K}({E}, object):\n    pass"),
         standin=True, level="module", expect=ml_class(False), prelude="use-base"),
    Slot("class-base-starred", "class K{K}(*{E}):\n    RED = 1", standin=True, level="module", expect=ml_class(False),
         prelude="use-base"),
    Slot("class-base-static", "class K{K}({E}):\n    @staticmethod\n    def sm(a):\n        return a.k", standin=True,
         level="module", expect=ml_class(False, "K{K}.sm"), prelude="use-base"),
    # the sibling: a class WITH an initialiser (the heuristics are not consulted; the class is reported)
    Slot("class-base-init", "class K{K}({E}):\n    def __init__(self, a):\n        self.a = a.k", standin=True, level="module",
         expect=ml_class(True), prelude="use-base"),
    Slot("class-body-assign", "class K{K}:\n    {E} = 1\n    def __init__(self, a):\n        self.a = a.k", target=True, strict=True,
         level="module", expect=ml_key_only, prelude="use-base"),
    # get_attrname accepts Name / Attribute / Call only (anything else: TypeError, a C07 known finding)
    Slot("decorator", "@{E}\ndef g{K}(a):\n    return a.k", strict=True, attr_only=True, level="module", expect=ml_key_only,
         prelude="use-base"),
]

# which consumer sites (c10scan keys, without the statement text) each slot is meant to reach is
# recorded by the Lean table `NamingSites.sites`; the dynamic recorder below reports what is reached.


# ------------------------------------------------------------------ probes


class Probe:
    __slots__ = ("slot", "expr", "name", "src_fn", "slot_expr", "S", "B", "pairs", "want", "node", "base_var", "steps", "variant")


def _slot_expr(slot, expr):
    """Source of the expression whose documented spelling the slot reports."""
    return f"{expr}(a.v)" if slot.id in CALL_SLOTS else expr


def admissible(slot, expr):
    try:
        node = ast.parse(expr, mode="eval").body
    except SyntaxError:
        return None
    sp = spine(node)
    variable_based = isinstance(sp[-1], ast.Name)
    if slot.target and (isinstance(node, ast.Call) or not isinstance(node, (ast.Attribute, ast.Subscript, ast.Name))):
        return None
    if slot.no_call_end and isinstance(node, ast.Call):
        return None
    if slot.attr_only and not is_attr_chain(node):
        return None
    if (slot.strict or not slot.standin) and not variable_based:
        return None
    if has_xattr(node) and not (slot.xarg and xarg_ok(node)):
        return None
    return node


def xarg_ok(node):
    """A direct literal getattr-family call whose object is a variable-based getattr-family-free chain
    that does not end in a call, or (recursively) such a call of the SAME builtin; the remaining
    arguments are getattr-family-free. (An object that is a call result / an unnameable expression ends
    the analysis: C10 safe-fatal:xattr-object-is-call / safe-raises:xattr-object-unnameable, and the C09
    findings about the call record; those classes belong to the namer-level stage.)"""
    xc = xattr_call(node)
    if xc is None or node.keywords or any(has_xattr(a) for a in node.args[1:]):
        return False
    fn, obj = xc
    inner = xattr_call(obj)
    if inner is not None:
        return inner[0] == fn and xarg_ok(obj)
    if has_xattr(obj) or isinstance(obj, ast.Call) or not isinstance(obj, (ast.Name, ast.Attribute, ast.Subscript)):
        return False
    return isinstance(spine(obj)[-1], ast.Name)


XARG_FIXED = [
    "getattr(shape, 'k')", "hasattr(shape, 'k')", "setattr(shape, 'k', a.v)", "delattr(shape, 'k')",
    "getattr(getattr(shape, 'j'), 'k')", "getattr(shape.x, 'k')", "getattr(shape[i], 'k')", "getattr(shape(p).y, 'k')",
    "getattr(shape, 'k', None)", "hasattr(hasattr(shape.x, 'j'), 'k')", "setattr(shape[i].y, 'k', a.v)",
    "delattr(delattr(shape, 'j'), 'k')",
]


def random_xarg(rng):
    fn = rng.choice(XATTRS)
    obj = random_expr(rng, target=True)
    for _ in range(rng.choice((0, 0, 1, 2))):
        obj = f"{fn}({obj}, '{rng.choice('jmn')}'" + (", a.v)" if fn == "setattr" else ")")
    return f"{fn}({obj}, 'k'" + (", a.v)" if fn == "setattr" else rng.choice((")", ")", ", None)") if fn == "getattr" else ")"))


def fn_probe(slot, expr, k):
    p = Probe()
    p.slot, p.expr = slot, expr
    p.steps = None
    p.variant = 0
    p.name = f"f{k}_{slot.id.replace('-', '_')}"
    body = slot.body.replace("{E}", expr)
    p.src_fn = f"{'async ' if slot.is_async else ''}def {p.name}({FN_PARAMS}):\n    {body}\n"
    p.slot_expr = _slot_expr(slot, expr)
    p.node = ast.parse(p.slot_expr, mode="eval").body
    p.base_var = "shape"
    return p


def module_expr(base, steps):
    """`steps` is either a suffix for the probe's variable (`.x[0]`) or a whole template with `{B}`
    for it (an unnameable expression, possibly with steps stacked on it; a template without the
    variable starts with '=')."""
    if "{B}" in steps or steps.startswith("="):
        return steps.lstrip("=").replace("{B}", base)
    return base + steps


def module_probe(slot, expr_steps, k, variant=None):
    p = Probe()
    base = f"ns{k}"
    expr = module_expr(base, expr_steps)
    p.steps = expr_steps
    p.slot, p.expr = slot, expr
    p.name = f"use{k}_{slot.id.replace('-', '_')}"
    bodies = slot.body if isinstance(slot.body, tuple) else (slot.body,)
    p.variant = (k if variant is None else variant) % len(bodies)
    stmt = bodies[p.variant].replace("{E}", expr).replace("{H}", f"h{k}").replace("{B}", base).replace("{K}", str(k))
    use = f"{base}.q" if slot.prelude == "use-base" else f"{expr}(a.v)"
    p.src_fn = f"{stmt}\n\n\ndef {p.name}(a):\n    return {use}\n"
    p.slot_expr = expr
    p.node = ast.parse(expr, mode="eval").body
    p.base_var = base
    return p


def generate(tier, rng):
    depth = 2 if tier == "quick" else 3
    n_rand = 4 if tier == "quick" else 16
    small = small_exprs(depth)
    probes = []
    k = 0
    for slot in FN_SLOTS:
        exprs = [e for e in small if admissible(slot, e) is not None]
        tries = 0
        got = 0
        while got < n_rand and tries < 200:
            tries += 1
            base = "shape"
            if slot.standin and not slot.strict and rng.random() < 0.3:
                base = rng.choice(STANDIN_BASES)
            e = random_expr(rng, base=base, target=slot.target, attr_only=slot.attr_only)
            if admissible(slot, e) is not None and e not in exprs:
                exprs.append(e)
                got += 1
        if slot.standin and not slot.strict:
            for b in STANDIN_BASES[:3]:          # always a few stand-in bases, one step each
                for st in (".x", "[i]"):
                    if admissible(slot, b + st) is not None:
                        exprs.append(b + st)
        for e in CURATED:
            if admissible(slot, e) is not None and e not in exprs:
                exprs.append(e)
        if slot.xarg:
            # the value in the slot is a DIRECT getattr-family call (README: the dotted access), for
            # positional and keyword slots alike
            cand = list(XARG_FIXED) + [random_xarg(rng) for _ in range(max(2, n_rand // 2))]
            for e in cand:
                if admissible(slot, e) is not None and e not in exprs:
                    exprs.append(e)
        for e in exprs:
            k += 1
            probes.append(fn_probe(slot, e, k))
    msteps = [s[len("shape"):] for s in small_exprs(depth)]
    for slot in MODULE_SLOTS:
        ex = list(msteps)
        for _ in range(n_rand):
            ex.append(random_expr(rng, base="", target=slot.target, attr_only=slot.attr_only))
        if slot.standin and not slot.strict:
            # every unnameable expression class, bare and below each kind of step; a seeded sample deeper
            pool = [t + st for t in STANDIN_TEMPLATES for st in STANDIN_STEPS]
            off = rng.randrange(3)
            core = [t for t in STANDIN_TEMPLATES] + [t + rng.choice(STANDIN_STEPS[1:]) for t in STANDIN_TEMPLATES[off::3]]
            ex += core if tier == "quick" else pool
            for _ in range(n_rand if tier != "quick" else 2):
                ex.append(random_expr(rng, base=rng.choice(STANDIN_TEMPLATES), attr_only=slot.attr_only))
        for st in dict.fromkeys(ex):
            if not st or admissible(slot, module_expr("ns", st)) is None:
                continue
            k += 1
            probes.append(module_probe(slot, st, k))
    return probes


# ------------------------------------------------------------------ documented spellings (Lean Spec, through the driver)


def attach_spec(probes, model, res):
    from props import c10 as namer_stage

    reqs, index = [], []
    for p in probes:
        for j, n in enumerate(spine(p.node)):
            reqs.append(("names", {"expr": namer_stage.encode(n)}))
            index.append((p, j, n))
    outs = model.batch(reqs)
    for p in probes:
        p.pairs = []
    for (p, j, n), mo in zip(index, outs):
        if "__error__" in mo:
            res.internal_errors.append({"what": "driver op names failed on a probe expression", "expr": p.slot_expr, "err": mo})
            p.pairs = None
            continue
        flags = set()
        want = list(namer_stage.readme(n, flags))
        if mo["spec"] != want:
            res.internal_errors.append({"what": "Lean Spec.spell/base disagrees with the Python README oracle",
                                        "expr": ast.unparse(n), "lean": mo["spec"], "python": want})
        if p.pairs is not None:
            p.pairs.append((mo["spec"][1], mo["spec"][0]))        # (spelling, base)
    ok = []
    for p in probes:
        if not p.pairs:
            continue
        S, B = p.pairs[0]
        if p.slot.id in CALL_SLOTS:
            p.want = sl_call(S, B, p.node)
        else:
            p.want = p.slot.expect(S, B, p.node)
        p.S, p.B = S, B
        xc = xattr_call(p.node)
        if xc is not None and p.slot.id not in CALL_SLOTS:
            _xattrify(p.want, S, XATTR_SECTION[xc[0]])
        elif isinstance(p.node, ast.Call) and p.slot.id not in CALL_SLOTS:
            _callify(p.want, S)
        ok.append(p)
    return ok


def _xattrify(w, S, sec):
    """E is a direct literal getattr-family call: rattr reports it as the ACCESS `O.k` in the section
    of the builtin (getattr / hasattr: gets, setattr: sets, delattr: dels), its object's dotted prefixes
    as gets; where the slot spells E as an argument the spelling is the same dotted name."""
    w["xattr_full"] = S
    for d in (w["names"], w["res_names"]):
        if d is None:
            continue
        for n in (S, "*" + S):
            if sec != "gets" and n in d.get("gets", []):
                d["gets"] = [x for x in d["gets"] if x != n]
                d.setdefault(sec, []).append(S)
    w["extra"] = {k: list(v) for k, v in w["extra"].items()}
    w["extra"].setdefault("gets", []).extend(_dotted_prefixes(S))


def _callify(w, S):
    """E itself is a call: rattr reports it as a call record (`calls`), not as an access."""
    if w["res_names"] is None:
        w["res_names"] = {k: list(v) for k, v in w["names"].items()}
    if w["res_calls"] is None:
        w["res_calls"] = [c["name"] for c in w["calls"] if "name" in c]
    for sec in list(w["names"]):
        if S in w["names"][sec]:
            w["names"][sec] = [n for n in w["names"][sec] if n != S]
            if not any(c.get("name") == S for c in w["calls"]):
                w["calls"].append({"name": S})
    for sec in list(w["res_names"]):
        if S in w["res_names"][sec]:
            w["res_names"][sec] = [n for n in w["res_names"][sec] if n != S]
            if S not in w["res_calls"]:
                w["res_calls"].append(S)


# ------------------------------------------------------------------ oracle


def root_of(name):
    n = name.lstrip("*")
    for j, ch in enumerate(n):
        if ch in ".[(":
            return n[:j]
    return n


def strip_call(n):
    return n[:-2] if n.endswith("()") else n


XATTR_SLOTS = ("getattr", "hasattr", "setattr", "delattr", "getattr-nested")


def first_component_bracketed(p):
    """The documented spelling's first dotted component is not the bare base: the spine has a
    subscript / call step below its first attribute step (`shape[i].k`, `shape().m`)."""
    return p.S.lstrip("*").split(".")[0] != p.B


def call_on_call(node):
    return isinstance(node, ast.Call) and isinstance(node.func, ast.Call)


def default_base(name):
    """What `Name(name)` derives as its basename when none is given, as a function of the DOCUMENTED
    name only: every trailing '()' dropped, '*' dropped, first dotted component."""
    n = name
    while n.endswith("()"):
        n = n[:-2]
    return n.replace("*", "").split(".")[0]


def xattr_role(p, n):
    """Which of the names a getattr-family slot records the documented name `n` is: 'full' — the
    accessed name O.k itself (the object's spelling plus the literal names; `get_dynamic_name` gives it
    the object's base) — or 'lhs' — one of its proper dotted prefixes (`iter_lhs_names`, reported as
    `Name(prefix)` with the default basename)."""
    full = p.want.get("xattr_full")
    if full is None:
        return None
    if n == full:
        return "full"
    if n in _dotted_prefixes(full):
        return "lhs"
    return "other"


def _basename_tag(p, n):
    """Class of a documented name whose BASE is what deviates (wrong in the IR / not substituted in a
    caller). Computed from the probe and the documented name alone. For the getattr family:
      * 'xattr-lhs'  — n is a proper dotted prefix of the accessed name AND the default basename of that
        prefix keeps brackets (`x[]`, `x[].a`, `x().m`; NOT `x()`, `x.a[]`): the pinned defect;
      * 'xattr-full' — n is the accessed name itself and its first dotted component has brackets
        (`x[].k`, `x().m.k`): correct on the pinned tree (bracket-stripping in get_dynamic_name);
      * anything else of the family (a prefix whose default basename is the variable, a first component
        without brackets) gets no tag: the per-slot signature."""
    if p.slot.id == "sorted" and n != p.S:
        return ":unbound-name-basename-is-argument-spelling"
    if p.slot.id in XATTR_SLOTS or p.want.get("xattr_full") is not None:
        role = xattr_role(p, n)
        if role == "lhs" and default_base(n) != p.B:
            return ":keeps-brackets:xattr-lhs"
        if role == "full" and first_component_bracketed(p):
            return ":keeps-brackets:xattr-full"
        return ""
    if first_component_bracketed(p):
        return ":keeps-brackets:call-receiver"
    return ""


def judge_ir(p, im):
    """Oracle on the FunctionAnalyser's IR. -> list of (kind, detail)."""
    out = []
    if im["outcome"] != "ok":
        return [("outcome:" + im["outcome"], {"exc": im["exc"], "diags": im["diags"][-3:]})]
    S, B, w = p.S, p.B, p.want
    spelled = {s for s, _ in p.pairs}
    for sec in ("gets", "sets", "dels"):
        have = {tuple(x) for x in im[sec]}
        rooted = sorted(x for x in have if root_of(x[0]) == B or root_of(x[1]) == B)
        wrong = set()
        allowed = spelled | set(w["names"].get(sec, [])) | set(w["extra"].get(sec, []))
        for n, b in rooted:
            if n not in allowed:
                out.append(("undocumented-name", {"section": sec, "got": [n, b], "documented": sorted(allowed), "base": B}))
            elif b != B:
                wrong.add(n)
                out.append(("wrong-basename" + _basename_tag(p, n), {"section": sec, "got": [n, b], "documented_base": B}))
        for n in w["names"].get(sec, []):
            if (n, B) not in have and n not in wrong:
                out.append(("missing-documented-name", {"section": sec, "want": [n, B], "have_rooted": rooted}))
    calls = im["calls"]
    for c in w["calls"]:
        def ok(ic):
            nm = ic["name"]
            if "name" in c and strip_call(nm) != strip_call(c["name"]):
                return False
            if "name_in" in c and strip_call(nm) not in {strip_call(x) for x in c["name_in"]}:
                return False
            if "args" in c and list(ic["args"]) != c["args"]:
                return False
            if "args0" in c and (not ic["args"] or ic["args"][0] != c["args0"]):
                return False
            if "arg_at" in c and (len(ic["args"]) <= c["arg_at"][0] or ic["args"][c["arg_at"][0]] != c["arg_at"][1]):
                return False
            if "kwargs" in c and any(dict(map(tuple, ic["kwargs"])).get(k) != v for k, v in c["kwargs"].items()):
                return False
            if "target" in c:
                t = ic["target"]
                if t is None or (t["kind"], t["name"]) != c["target"]:
                    return False
            return True
        if not any(ok(ic) for ic in calls):
            tag = ":call-on-call" if (c.get("name") == S and call_on_call(p.node)) else ""
            out.append(("missing-documented-name" + tag, {"section": "calls", "want": c,
                        "have": [{"name": ic["name"], "args": ic["args"], "kwargs": ic["kwargs"],
                                  "target": ic["target"] and [ic["target"]["kind"], ic["target"]["name"]]} for ic in calls]}))
    call_names = {strip_call(s) for s in spelled} | {strip_call(c["name"]) for c in w["calls"] if "name" in c}
    arg_ok = spelled | {"*" + s for s in spelled}
    for ic in calls:
        if root_of(ic["name"]) == B and strip_call(ic["name"]) not in call_names and strip_call(ic["name"]) + "()" not in call_names:
            out.append(("undocumented-name", {"section": "calls", "got": ic["name"], "documented": sorted(call_names)}))
        for a in list(ic["args"]) + [v for _, v in ic["kwargs"]]:
            if root_of(a) == B and a not in arg_ok:
                out.append(("undocumented-name", {"section": "call-arguments", "call": ic["name"], "got": a, "documented": sorted(arg_ok)}))
    return out


def judge_doc(p, ent, base_rename=None):
    """Oracle on one function's entry of the printed results document. With `base_rename` the entry is
    that of a CALLER which passes an argument spelled `base_rename` (`s2`, `s2.rows`, `s2[]`) for the
    probe's variable: every documented name is then the documented spelling of the probe's expression
    with the argument's spelling in place of the parameter (the README table is compositional)."""
    out = []
    ren = (lambda n: n) if base_rename is None else (lambda n: _rename(n, p.base_var, base_rename))
    S, B, w = p.S, p.B, p.want
    if base_rename is not None and B != p.base_var:
        return out          # a stand-in base is not an argument: nothing is substituted
    Bn = ren(B)
    root = root_of(Bn)      # the caller's own variable
    own = set() if base_rename is None else set(_own_prefixes(base_rename))     # the argument expression itself
    spelled = {ren(s) for s, _ in p.pairs}
    must = w["res_names"] if w["res_names"] is not None else w["names"]
    derived = {sec: set(v) for sec, v in must.items()}
    if base_rename is not None:
        # through a call only the names the function records itself need ONE level of substitution;
        # names derived through a further call need two (C03's subject, see its findings)
        must = w["names"]
    for sec in ("gets", "sets", "dels"):
        have = set(ent.get(sec, []))
        for n in must.get(sec, []):
            if ren(n) not in have:
                tag = _basename_tag(p, n) if base_rename is not None else ""
                kind = ("not-substituted" + tag) if tag else "missing-documented-name"
                out.append((kind, {"section": sec, "want": ren(n), "have_rooted": sorted(x for x in have if root_of(x) == root),
                                   "have_rooted_at_parameter": sorted(x for x in have if base_rename is not None and root_of(x) == p.base_var)}))
        allowed = spelled | {ren(n) for n in must.get(sec, [])} | {ren(n) for n in w["extra"].get(sec, [])} \
            | {ren(n) for n in w["res_extra"].get(sec, [])} | {ren(n) for n in derived.get(sec, ())} | (own if sec == "gets" else set())
        for n in sorted(have):
            if root_of(n) == root and n not in allowed:
                out.append(("undocumented-name", {"section": sec, "got": n, "documented": sorted(allowed)}))
    if base_rename is None:
        have = set(ent.get("calls", []))
        must_calls = w["res_calls"] if w["res_calls"] is not None else [c["name"] for c in w["calls"] if "name" in c]
        for n in must_calls:
            if strip_call(n) + "()" not in have and n not in have:
                tag = ":call-on-call" if (n == S and call_on_call(p.node)) else ""
                out.append(("missing-documented-name" + tag, {"section": "calls", "want": n, "have": sorted(have)}))
        call_names = {strip_call(s) for s in spelled} | {strip_call(n) for n in must_calls}
        for n in sorted(have):
            if root_of(n) == Bn and strip_call(n) not in call_names:
                out.append(("undocumented-name", {"section": "calls", "got": n, "documented": sorted(call_names)}))
    return out


def _own_prefixes(spelling):
    """`s2.rows` -> s2, s2.rows ; `s2[]` -> s2, s2[] (what a caller records for its own argument expression)."""
    out, cur, j = [], "", 0
    while j < len(spelling):
        if spelling[j] == "." and cur:
            out.append(cur)
        if spelling.startswith(("[]", "()"), j):
            if cur and cur not in out:
                out.append(cur)
            cur += spelling[j:j + 2]
            j += 2
            continue
        cur += spelling[j]
        j += 1
    if cur not in out:
        out.append(cur)
    return out


def _rename(name, old, new):
    stars = len(name) - len(name.lstrip("*"))
    body = name[stars:]
    if root_of(body) == old:
        body = new + body[len(old):]
    return "*" * stars + body


# ------------------------------------------------------------------ recorder (which site is reached, with what)

COMPOUND = (ast.Attribute, ast.Subscript, ast.Starred, ast.Call)


class Recorder:
    """Wraps every binding of a namer in the loaded rattr modules (and the two Context methods);
    a call is attributed to the site whose statement contains the caller's current line."""

    def __init__(self, sites):
        self.sites = sites
        self.by_file = {}
        for s in sites:
            self.by_file.setdefault(s["file"], []).append(s)
        self.hits = {}
        self._rel = {}
        self.slot = None
        self._patches = []
        self.root = str(Path(sys.modules["rattr"].__file__).resolve().parent.parent)

    def _record(self, callee, frame, args, kwargs):
        fn = frame.f_code.co_filename
        rel = self._rel.get(fn, False)
        if rel is False:
            try:
                rel = str(Path(fn).resolve().relative_to(self.root))
            except ValueError:
                rel = None
            self._rel[fn] = rel
        if rel is None or rel not in self.by_file:
            return
        line = frame.f_lineno
        node = None
        for a in list(args) + list(kwargs.values()):
            if isinstance(a, ast.keyword):
                a = a.value
            if isinstance(a, ast.AST):
                node = a
                break
        if callee in ("get_dynamic_name", "get_xattr_obj_name_pair", "get_python_attr_access_fn_obj_attr_pair") \
                and isinstance(node, ast.Call) and node.args:
            node = node.args[0]
        if isinstance(node, ast.ClassDef):
            compound = any(isinstance(b, COMPOUND) for b in node.bases)
        elif isinstance(node, (ast.Tuple, ast.List)):
            compound = any(isinstance(b, COMPOUND) for b in node.elts)
        else:
            compound = isinstance(node, COMPOUND)
        for s in self.by_file.get(rel, ()):
            if s["lineno"] <= line <= s["end_lineno"]:
                # every site of that statement: a namer passed as a value (`_get_name=fullname_of`,
                # `map(get_attrname, …)`) is called from elsewhere
                k = c10scan.key(s)[:4]
                h = self.hits.setdefault(k, {"calls": 0, "compound": 0, "slots": set()})
                h["calls"] += 1
                if compound:
                    h["compound"] += 1
                    if self.slot:
                        h["slots"].add(self.slot)

    def _wrap(self, callee, orig):
        rec = self

        def wrapper(*a, **k):
            rec._record(callee, sys._getframe(1), a, k)
            return orig(*a, **k)

        wrapper.__wrapped__ = orig
        wrapper.__name__ = getattr(orig, "__name__", callee)
        for attr in ("cache_clear", "cache_info"):
            if hasattr(orig, attr):
                setattr(wrapper, attr, getattr(orig, attr))
        return wrapper

    def __enter__(self):
        names = c10scan.NAMERS
        # every module must be loaded BEFORE the bindings are wrapped: a module imported later would
        # copy the wrappers (`from … import fullname_of`) and keep them after __exit__
        import importlib
        import pkgutil

        import rattr
        import rattr.__main__  # noqa: F401

        for m in pkgutil.walk_packages(rattr.__path__, "rattr."):
            if m.name not in sys.modules and not m.name.endswith("__main__"):
                try:
                    importlib.import_module(m.name)
                except Exception:  # noqa
                    pass
        for mname, mod in list(sys.modules.items()):
            if not (mname == "rattr" or mname.startswith("rattr.")) or mod is None:
                continue
            for attr, val in list(vars(mod).items()):
                base = attr.lstrip("_") if attr.startswith("__") else attr
                if (attr in names or "__" + base in names) and callable(val) and not isinstance(val, type):
                    p = mock.patch.dict(vars(mod), {attr: self._wrap(attr, val)})
                    p.start()
                    self._patches.append(p)
        from rattr.models.context import Context

        for m in c10scan.METHODS:
            p = mock.patch.object(Context, m, self._wrap(m, getattr(Context, m)))
            p.start()
            self._patches.append(p)
        return self

    def __exit__(self, *exc):
        for p in reversed(self._patches):
            p.stop()
        self._patches.clear()
        return False


# ------------------------------------------------------------------ channels


def module_source(probes):
    parts = [HEADER]
    for p in probes:
        parts.append("\n\n" + p.src_fn)
    return "".join(parts)


def run_ir(probes, rec):
    """Real FunctionAnalyser on every function-level probe; returns [(probe, im, model request)]."""
    import rattr.analyser.function as fmod

    out = []
    by_slot = {}
    for p in probes:
        by_slot.setdefault(p.slot.id, []).append(p)
    for sid, ps in by_slot.items():
        src = module_source(ps)
        tree, ctx = vl.prepare(src)
        n0 = len(ctx.symbol_table.symbols)
        fns = {n.name: n for n in tree.body if isinstance(n, (ast.FunctionDef, ast.AsyncFunctionDef))}
        rec.slot = sid
        for p in ps:
            fn = fns[p.name]
            req = vl.model_request(fn, ctx)
            im, _ = vl.analyse_function(fn, ctx)
            out.append((p, im, req))
            assert len(ctx.symbol_table.symbols) == n0, "root context mutated by a function analysis"
        rec.slot = None
    return out


def _doc_of(stdout):
    doc = json.loads(stdout)
    return {k: {f: sorted(v[f]) for f in ("gets", "sets", "dels", "calls")} for k, v in doc.items()}


def cli(project, target, extra=()):
    env = dict(os.environ, PYTHONDONTWRITEBYTECODE="1", PYTHONWARNINGS="ignore")
    p = subprocess.run([sys.executable, "-m", "rattr", "-o", "results", "-w", "none", *extra, target], cwd=str(project), env=env,
                       capture_output=True, text=True, timeout=300)
    r = {"exit": p.returncode, "stderr": p.stderr[-1500:], "traceback": "Traceback (most recent call last)" in p.stderr}
    if p.returncode == 0:
        try:
            r["doc"] = _doc_of(p.stdout)
        except Exception as e:  # noqa
            r["doc"] = None
            r["stderr"] = f"unparseable stdout ({type(e).__name__}): " + p.stdout[:300]
    return r


def inproc(project, target, rec, slot_label):
    """The whole pipeline in-process (`rattr.__main__.main`), the namers wrapped by the recorder."""
    import contextlib
    import io

    import rattr.__main__ as main_mod
    from rattr.cli import parse_arguments
    from rattr.config import Config, State
    from rattr.config._types import ConfigMetaclass

    def drop():
        ConfigMetaclass._instance = None
        try:
            Config._instance = None
        except Exception:  # noqa
            pass

    out = io.StringIO()
    rec.slot = slot_label
    with impl.in_dir(str(project)):
        drop()
        impl.clear_caches_fast()
        try:
            with impl.Tap():
                args = parse_arguments(sys_args=["-o", "results", "-w", "none", target])
                cfg = Config(arguments=args, state=State())
            with impl.Tap() as tap, contextlib.redirect_stdout(out):
                oc = impl.outcome_of(main_mod.main, cfg)
        finally:
            drop()
            rec.slot = None
    r = {"outcome": oc[0], "exc": oc[1] if oc[0] != "ok" else "", "diags": [vl.template_of(e) for e in tap.events]}
    if oc[0] == "ok":
        try:
            r["doc"] = _doc_of(out.getvalue())
        except Exception as e:  # noqa
            r["outcome"], r["exc"] = "crash", "unparseable-stdout:" + type(e).__name__
    return r


# how a caller hands the probe's variable over: (prefix of the caller's name, argument source, its
# documented spelling, by keyword?)
ARG_STYLES = [
    ("w", "s2", "s2", False),              # a renamed variable
    ("v", "s2.rows", "s2.rows", False),    # a compound argument: the callee's names are built on its spelling
    ("u", "s2[0]", "s2[]", False),
    ("k", "s2", "s2", True),               # the same by keyword (all four parameters by name, reordered)
]


def caller_src(p, style, callee):
    tag, argsrc, _, by_kw = style
    params = ", ".join(RENAMED[x.strip()] for x in FN_PARAMS.split(","))
    if by_kw:
        names = [x.strip() for x in FN_PARAMS.split(",")]
        rest = ", ".join(f"{x}={RENAMED[x]}" for x in names[1:])
        call = f"{callee}({rest}, {names[0]}={argsrc})"
    else:
        rest = ", ".join(RENAMED[x.strip()] for x in FN_PARAMS.split(",")[1:])
        call = f"{callee}({argsrc}, {rest})"
    return f"def {tag}_{p.name}({params}):\n    return {call}\n"


def wrappers_source(probes, style, arg_styles=None):
    """Callers of the probes: `style` = "module" / "from" (the probes live in the followed import
    `lib`) or "same" (the callers are appended to the probes' own file)."""
    arg_styles = ARG_STYLES[:1] if arg_styles is None else arg_styles
    lines = {"module": ["import lib", "", ""], "from": ["from lib import " + ", ".join(p.name for p in probes), "", ""], "same": []}[style]
    for p in probes:
        callee = f"lib.{p.name}" if style == "module" else p.name
        for st in arg_styles:
            lines += [caller_src(p, st, callee), ""]
    return "\n".join(lines)


def judge_callers(p, doc, arg_styles):
    """-> [(kind, detail, style tag, caller source)] for every caller of probe `p` in `doc`."""
    out = []
    for st in arg_styles:
        ent = doc.get(f"{st[0]}_{p.name}")
        if ent is None:
            vs = [("function-not-reported", {"function": f"{st[0]}_{p.name}"})]
        else:
            vs = judge_doc(p, ent, base_rename=st[2])
        out.append((st, ent, vs))
    return out


# ------------------------------------------------------------------ the stage


def signature(channel, slot_id, kind):
    """Stable class of WHAT fails. The three mechanisms that do not depend on the slot (they are
    string operations downstream of the namers) get a slot-independent signature; every other
    deviation is per channel and slot."""
    if kind == "missing-documented-name:call-on-call":
        return f"site:{channel}:call-record:call-on-call-brackets-collapsed"
    if kind.endswith(":keeps-brackets:xattr-full"):
        # correct on the pinned tree for every member of the family: per member (= slot)
        return f"site:{channel}:{slot_id}:{kind}"
    if ":keeps-brackets:" in kind or kind.endswith(":unbound-name-basename-is-argument-spelling"):
        return f"site:{channel}:{kind}"
    return f"site:{channel}:{slot_id}:{kind}"


def violation(channel, p, kind, detail, module=None, extra=None):
    case = {"stage": "sites", "channel": channel, "slot": p.slot.id, "expr": p.expr, "function": p.name,
            "source": p.src_fn, "documented": {"spelling": p.S, "base": p.B}}
    if p.steps is not None:
        case["expr_template"] = p.steps
        case["variant"] = p.variant
    if extra:
        case.update(extra)
    return {"signature": signature(channel, p.slot.id, kind), "case": case, "detail": detail}


def load_table(model, res):
    outs = model.batch([("naming_sites", {})])
    mo = outs[0]
    if "__error__" in mo:
        res.internal_errors.append({"what": "driver op naming_sites failed", "err": mo})
        return []
    return mo["sites"]


_T = []


def _tick(label):
    import time
    _T.append((label, time.time()))
    if os.environ.get("C10_TIMING") and len(_T) > 1:
        print(f"[timing] {label}: {_T[-1][1] - _T[-2][1]:.1f}s", file=sys.stderr)


def run_stage(res, tier, rng, model):
    _tick("start")
    repo_root = Path(sys.modules["rattr"].__file__).resolve().parent.parent
    sites = c10scan.scan(repo_root)
    table = load_table(model, res)
    tkeys = {(t["file"], t["func"], t["callee"], t["idx"], t["stmt"]): t["cover"] for t in table}
    skeys = {c10scan.key(s) for s in sites}
    uncovered = [list(k) for k in sorted(skeys - set(tkeys))]
    vanished = [list(k) for k in sorted(set(tkeys) - skeys)]

    probes = generate(tier, rng)
    probes = attach_spec(probes, model, res)
    fn_probes = [p for p in probes if p.slot.level == "fn"]
    mod_probes = [p for p in probes if p.slot.level == "module"]
    res.extra["site_probes"] = len(probes)

    rec = Recorder(sites)
    seen_sig = set()
    _tick("generate+spec")

    def add(v):
        res.violations.append(v)

    with rec:
        # ---------------- channel ir (+ Tie B with the Lean function analyser)
        ir = run_ir(fn_probes, rec)
        outs = model.batch([req for _, _, req in ir])
        for (p, im, _), mo in zip(ir, outs):
            res.evaluations += 1
            res.nontrivial.add(common.digest(["site-ir", p.slot.id, p.expr]))
            res.count("site:ir:" + p.slot.id)
            res.count("site:ir:outcome:" + im["outcome"])
            d = "model error: " + str(mo["__error__"]) if "__error__" in mo else vl.compare(im, mo)
            if d is not None:
                res.disagreements.append({"case": {"stage": "sites", "channel": "ir", "slot": p.slot.id, "expr": p.expr,
                                                   "source": p.src_fn}, "diff": d[:1500]})
            vs = judge_ir(p, im)
            if not vs:
                res.count("site:ir:verdict:holds")
                if len(res.samples) < 9 and p.slot.id in ("classassign", "callstar", "getattr"):
                    res.sample({"case": {"stage": "sites", "slot": p.slot.id, "source": p.src_fn},
                                "documented": [p.S, p.B], "ir": {k: im[k] for k in ("gets", "sets", "dels")}})
            for kind, detail in vs:
                res.count("site:ir:verdict:" + kind)
                add(violation("ir", p, kind, detail, extra={"module_header": HEADER}))

        _tick("ir")
        # ---------------- channel results: one file with every probe, in-process and through the CLI
        project = Path(tempfile.mkdtemp(prefix="rattr-c10sites-"))
        try:
            src = module_source(fn_probes + mod_probes) + "\n\n" + wrappers_source(fn_probes, "same", ARG_STYLES)
            (project / "target.py").write_text(src)
            ip = inproc(project, "target.py", rec, "results:batch")
            # module-level slot families once more, one file per family: which family reaches which site
            by_family = {}
            for p in mod_probes:
                by_family.setdefault(p.slot.id, []).append(p)
            for sid, ps in by_family.items():
                (project / "family.py").write_text(module_source(ps))
                one = inproc(project, "family.py", rec, sid)
                if one["outcome"] == "ok" and ip["outcome"] == "ok":
                    for p in ps:
                        if one["doc"].get(p.name) != ip["doc"].get(p.name):
                            res.disagreements.append({"case": {"stage": "sites", "channel": "results", "slot": sid, "source": p.src_fn},
                                                      "diff": "the entry of a probe differs between the batch file and its family's file"})
            rec_done = True
            _tick("inproc batch + families")
            cl = cli(project, "target.py")
            _tick("cli target")
            res.count("site:results:inproc:" + ip["outcome"])
            res.count("site:results:cli:exit:" + str(cl["exit"]))
            docs = []
            if ip["outcome"] == "ok":
                docs.append(("results", ip["doc"]))
            if cl["exit"] == 0 and cl.get("doc") is not None:
                docs.append(("results", cl["doc"]))
            if ip["outcome"] != "ok" or cl["exit"] != 0 or cl.get("doc") is None:
                _bisect(res, project, fn_probes + mod_probes, add)
            elif ip["doc"] != cl["doc"]:
                diff = [k for k in sorted(set(ip["doc"]) | set(cl["doc"])) if ip["doc"].get(k) != cl["doc"].get(k)]
                res.disagreements.append({"case": {"stage": "sites", "channel": "results", "module": src},
                                          "diff": f"in-process document != CLI document for {diff[:5]}"})
            if docs:
                doc = docs[-1][1]
                keys_by_root = {}
                for k in doc:
                    keys_by_root.setdefault(root_of(k), []).append(k)
                for p in fn_probes + mod_probes:
                    res.evaluations += 1
                    res.nontrivial.add(common.digest(["site-results", p.slot.id, p.expr]))
                    res.count("site:results:" + p.slot.id)
                    ent = doc.get(p.name)
                    vs = []
                    if ent is None:
                        vs.append(("function-not-reported", {"function": p.name}))
                    else:
                        vs += judge_doc(p, ent)
                    for key in [x.replace("{K}", p.name[3:p.name.index("_")]) for x in p.want["keys"]]:
                        if key not in doc:
                            vs.append(("missing-documented-name", {"section": "document keys", "want": key,
                                                                   "have_rooted": sorted(keys_by_root.get(p.B, ()))}))
                    for dg in p.want["nodiag"]:
                        if dg in ip.get("diags", []):
                            vs.append(("spurious-diagnostic", {"diag": dg}))
                    if p.slot.level == "module":
                        for k in keys_by_root.get(p.B, ()):
                            if k not in {s for s, _ in p.pairs}:
                                vs.append(("undocumented-name", {"section": "document keys", "got": k}))
                    if not vs:
                        res.count("site:results:verdict:holds")
                    for kind, detail in vs:
                        res.count("site:results:verdict:" + kind)
                        add(violation("results", p, kind, detail, extra={"module_header": HEADER, "entry": ent}))

            # ---------------- channel results-caller: every probe called from another function of the SAME file
            # (the callers are part of target.py: in-process pipeline and CLI, which printed the same document)
            def judge_channel(channel, ps, doc, arg_styles, extra):
                for p in ps:
                    for st, ent, vs in judge_callers(p, doc, arg_styles):
                        res.evaluations += 1
                        res.nontrivial.add(common.digest([channel, extra.get("import_style", ""), st[0], p.slot.id, p.expr]))
                        res.count(f"site:{channel}:arg:{st[1]}{'(keyword)' if st[3] else ''}")
                        if not vs:
                            res.count(f"site:{channel}:verdict:holds")
                            if p.slot.id in XATTR_SLOTS and first_component_bracketed(p):
                                res.count(f"site:{channel}:xattr-bracketed-object-substituted:{p.slot.id}")
                        for kind, detail in vs:
                            res.count(f"site:{channel}:verdict:" + kind)
                            callee = ("lib." if extra.get("import_style") == "module" else "") + p.name
                            add(violation(channel, p, kind, detail,
                                          extra={"module_header": HEADER, **extra, "entry": ent, "arg_style": st[0],
                                                 "caller_argument": st[1], "wrapper": caller_src(p, st, callee)}))

            _tick("judge results")
            if docs:
                judge_channel("results-caller", fn_probes, docs[-1][1], ARG_STYLES, {})
            _tick("judge callers")

            # ---------------- channel results-import: the probes live in a followed import
            (project / "lib.py").write_text(module_source(fn_probes))
            half = len(fn_probes) // 2
            for style, ps, fname in (("module", fn_probes[:half], "t_mod.py"), ("from", fn_probes[half:], "t_from.py")):
                (project / fname).write_text(wrappers_source(ps, style, ARG_STYLES))
                cl = cli(project, fname, extra=("-f", "1"))
                res.count(f"site:results-import:{style}:cli:exit:" + str(cl["exit"]))
                if cl["exit"] != 0 or cl.get("doc") is None:
                    res.violations.append({"signature": f"site:results-import:batch:outcome:exit-{cl['exit']}",
                                           "case": {"stage": "sites", "channel": "results-import", "style": style,
                                                    "lib": module_source(ps), "target": wrappers_source(ps, style, ARG_STYLES)},
                                           "detail": cl["stderr"]})
                    continue
                judge_channel("results-import", ps, cl["doc"], ARG_STYLES, {"import_style": style})

            # ---------------- module-level slot families (class statements, module assignments) in a followed import:
            # the file is only imported; one unnameable base there must not take the run down
            _tick("import channel (functions)")
            (project / "libm.py").write_text(module_source(mod_probes))
            (project / "t_libm.py").write_text(module_wrappers(mod_probes))
            cl = cli(project, "t_libm.py", extra=("-f", "1"))
            res.count("site:results-import:module-level:cli:exit:" + str(cl["exit"]))
            if cl["exit"] != 0 or cl.get("doc") is None:
                _bisect(res, project, mod_probes, add, imported=True)
            else:
                for p in mod_probes:
                    res.evaluations += 1
                    res.nontrivial.add(common.digest(["site-results-import-module", p.slot.id, p.expr]))
                    res.count("site:results-import:" + p.slot.id)
                    if cl["doc"].get("w_" + p.name) is None:
                        res.count("site:results-import:verdict:function-not-reported")
                        add(violation("results-import", p, "function-not-reported", {"function": "w_" + p.name},
                                      extra={"module_header": HEADER, "import_style": "module"}))
                    else:
                        res.count("site:results-import:verdict:holds")
        finally:
            shutil.rmtree(project, ignore_errors=True)

    _tick("import channel")
    # ---------------- coverage of the consumer sites
    report = []
    for s in sites:
        k = c10scan.key(s)
        h = rec.hits.get(k[:4], {"calls": 0, "compound": 0, "slots": set()})
        cover = tkeys.get(k)
        row = {"site": f"{s['file']}:{s['func']}:{s['callee']}#{s['idx']}", "stmt": s["stmt"][:120], "cover": cover,
               "calls": h["calls"], "compound_calls": h["compound"], "slots_reaching": sorted(h["slots"])}
        report.append(row)
        if cover is None:
            continue
        if cover.startswith("slots:"):
            declared = set(cover[len("slots:"):].split(","))
            if h["compound"] == 0:
                res.internal_errors.append({"what": "consumer site classified as probed is not reached with a compound expression", **row})
            missing = declared - set(h["slots"])
            if missing:
                res.internal_errors.append({"what": "consumer site not reached by a slot family the table names", "missing": sorted(missing), **row})
    res.extra["consumer_sites"] = {"total": len(sites), "uncovered": uncovered, "vanished_from_source": vanished,
                                   "by_class": _by_class(tkeys, skeys), "report": report}
    res.count("site:tieA:uncovered", len(uncovered))
    if uncovered or vanished:
        # the Lean theorem tieA_consumer_sites breaks as well (build stage); say which sites
        res.extra["consumer_sites"]["note"] = "the source has namer references the model's table does not list (or vice versa)"
    return probes


def _by_class(tkeys, skeys):
    out = {}
    for k, c in tkeys.items():
        if k in skeys:
            cls = c.split(":")[0]
            out[cls] = out.get(cls, 0) + 1
    return out


def module_wrappers(probes):
    """A target that only IMPORTS the file of the module-level probes and calls their `use…` functions."""
    return "import libm\n\n\n" + "".join(f"def w_{p.name}(a2):\n    return libm.{p.name}(a2)\n\n\n" for p in probes)


def _bisect(res, project, probes, add, imported=False):
    """The batch did not produce a document: find the probes that break the run, slot by slot (with
    `imported` the probes live in the followed import `libm` of the target)."""
    by_slot = {}
    for p in probes:
        by_slot.setdefault(p.slot.id, []).append(p)

    def run(ps):
        if imported:
            (project / "libm.py").write_text(module_source(ps))
            (project / "one.py").write_text(module_wrappers(ps))
            return cli(project, "one.py", extra=("-f", "1"))
        (project / "one.py").write_text(module_source(ps))
        return cli(project, "one.py")

    for sid, ps in by_slot.items():
        cl = run(ps)
        if cl["exit"] == 0 and cl.get("doc") is not None:
            continue
        bad = None
        for p in ps:
            c1 = run([p])
            if c1["exit"] != 0 or c1.get("doc") is None:
                bad = (p, c1)
                break
        if bad is None:
            bad = (ps[0], cl)
        p, c1 = bad
        tb = c1.get("traceback") or "Traceback (most recent call last)" in c1["stderr"]
        extra = {"module_header": HEADER}
        if imported:
            extra.update({"import_style": "module", "files": {"libm.py": "<header> + " + p.src_fn, "target.py": module_wrappers([p])},
                          "cmd": "python -m rattr -o results -w none -f 1 target.py"})
        add(violation("results-import" if imported else "results", p, "outcome:" + ("crash" if tb else f"exit-{c1['exit']}"),
                      {"stderr": c1["stderr"][-800:]}, extra=extra))


# ------------------------------------------------------------------ replay


def replay_case(case):
    """Re-run one probe through the channel that reported it; prints what rattr says and what the
    documented spelling is."""
    slot = next((s for s in FN_SLOTS + MODULE_SLOTS if s.id == case["slot"]), None)
    if slot is None:
        print(json.dumps(case, indent=1))
        return 0
    model = common.Model()
    res = common.Result("C10")
    if slot.level == "fn":
        p = fn_probe(slot, case["expr"], 1)
    else:
        p = module_probe(slot, case.get("expr_template") or _steps_of(case["expr"]), 1, variant=case.get("variant", 1))
    ps = attach_spec([p], model, res)
    out = {"case": {"slot": slot.id, "expr": case["expr"], "source": p.src_fn}, "documented": {"spelling": p.S, "base": p.B}}
    sites = c10scan.scan(Path(sys.modules["rattr"].__file__).resolve().parent.parent)
    with Recorder(sites) as rec:
        if slot.level == "fn":
            (p0, im, req), = run_ir(ps, rec)
            out["ir"] = {k: im[k] for k in ("outcome", "gets", "sets", "dels")}
            out["ir"]["calls"] = [{"name": c["name"], "args": c["args"], "kwargs": c["kwargs"]} for c in im["calls"]]
            out["ir_verdict"] = [k for k, _ in judge_ir(p, im)]
            mo = model.batch([req])[0]
            out["model_agrees"] = ("__error__" not in mo) and vl.compare(im, mo) is None
    project = Path(tempfile.mkdtemp(prefix="rattr-c10sites-"))
    try:
        (project / "target.py").write_text(module_source(ps))
        cl = cli(project, "target.py")
        out["cli_exit"] = cl["exit"]
        if cl["exit"] != 0:
            out["cli_stderr_tail"] = cl["stderr"][-600:]
        if cl.get("doc"):
            out["results"] = cl["doc"].get(p.name)
            out["document_keys_rooted_at_base"] = sorted(k for k in cl["doc"] if root_of(k) == p.B)
            out["results_verdict"] = [k for k, _ in judge_doc(p, cl["doc"].get(p.name) or {})]
        if slot.level == "module" and case.get("channel") == "results-import":
            (project / "libm.py").write_text(module_source(ps))
            (project / "t.py").write_text(module_wrappers(ps))
            cl = cli(project, "t.py", extra=("-f", "1"))
            out["import_files"] = {"libm.py": "<header> + " + p.src_fn, "t.py": module_wrappers(ps)}
            out["import_cli_exit"] = cl["exit"]
            out["import_cli_stderr_tail"] = cl["stderr"][-600:]
            if cl.get("doc"):
                out["import_entry"] = cl["doc"].get("w_" + p.name)
        # the probe called from another analysed function (channels results-caller / results-import)
        st = next((x for x in ARG_STYLES if x[0] == case.get("arg_style")), None)
        if slot.level == "fn" and (st is not None or case.get("channel") in ("results-caller", "results-import")):
            styles = [st] if st is not None else ARG_STYLES
            istyle = case.get("import_style")
            if case.get("channel") == "results-import" and istyle in ("module", "from"):
                (project / "lib.py").write_text(module_source(ps))
                (project / "t.py").write_text(wrappers_source(ps, istyle, styles))
                cl = cli(project, "t.py", extra=("-f", "1"))
                out["caller_files"] = {"lib.py": "<header> + " + p.src_fn, "t.py": wrappers_source(ps, istyle, styles)}
            else:
                (project / "t.py").write_text(module_source(ps) + "\n\n" + wrappers_source(ps, "same", styles))
                cl = cli(project, "t.py")
                out["caller_files"] = {"t.py": "<header> + " + p.src_fn + "\n\n" + wrappers_source(ps, "same", styles)}
            out["caller_cli_exit"] = cl["exit"]
            if cl.get("doc"):
                out["callers"] = {}
                for x, ent, vs in judge_callers(p, cl["doc"], styles):
                    out["callers"][f"{x[0]}_{p.name}"] = {"argument": x[1] + (" (by keyword)" if x[3] else ""), "entry": ent,
                                                         "documented_base": _rename(p.B, p.base_var, x[2]),
                                                         "verdict": [[k, d.get("want") or d.get("got")] for k, d in vs]}
    finally:
        shutil.rmtree(project, ignore_errors=True)
    print(json.dumps(out, indent=1))
    return 0


def _steps_of(expr):
    j = 0
    while j < len(expr) and (expr[j].isalnum() or expr[j] == "_"):
        j += 1
    return expr[j:]

"""C01 under STAR-EXPANDED root contexts (round 4).

Everywhere else in C01's check the root context a function is analysed in comes from
`compile_root_context(tree)` alone. The real pipeline runs
`compile_root_context(tree).expand_starred_imports()`: every symbol of every (transitively)
star-imported local module's root context — INCLUDING that module's own Builtin / dunder symbols and
its imports — is offered to the importing file's context as an `Import`, and it is `Context.add`'s
"never re-add a bound name" test that keeps the importer's own bindings (its builtins above all:
`getattr`, `setattr`, `hasattr`, `delattr`, `sorted`; its `defaultdict` import). The custom
analysers of the getattr family / `sorted` / `defaultdict` are found THROUGH those bindings, so the
part of the property "a getattr/hasattr/setattr/delattr call with a literal attribute name counts as
the corresponding attribute access" depends on that code path.

This module adds that whole input class at every level of the check:

* `StarBodyGen`   — RetGen whose statements / expressions are dense in the getattr family (every base
                    shape: name, attribute chain, subscript, nested getattr; in conditions, loop / with
                    headers, returns, displays, comprehensions, f-strings, arguments), `sorted(key=…)`,
                    `defaultdict(…)`, and calls to / attribute reads of names that only the star import
                    supplies;
* `gen_star_layout` — projects with local star-importable modules: a flat module, a package whose
                    `__init__` re-exports by `*` (absolute and relative, a chain of two stars), a target
                    that sits INSIDE the package and uses `from .inner import *`, a target that is the
                    `__init__` itself, two star imports in one file, a star import next to a non-local
                    one (`from math import *`); the star line before or after the target's own definitions;
                    the helper modules define the same names as the target (`helper`, `Cls`, `glob` …),
                    import `defaultdict` / `namedtuple` / `os` themselves and carry their own builtins;
* `run_function_stage` — per function: real `FunctionAnalyser` in the REAL expanded root context vs. the
                    Lean model `analyse_fn` in the same context, then the access oracle;
* `run_file_stage`  — whole files: real `compile_root_context(..).expand_starred_imports()` +
                    `FileAnalyser` vs. the Lean model `Pipeline2.rootOf` / `Pipeline2.analyseAt` (ops
                    `star_root` / `star_file`: the MODEL walks the star-imported files and applies
                    `Context.add`), then the callable oracle (`c01x.judge_entries`) on the real FileIr;
* `run_project_stage` — projects through `rattr.__main__.main` in-process and `python -m rattr` in a
                    subprocess (`-o ir` and `-o results`): the star import sits in the TARGET or in a
                    FOLLOWED import (target imports it by name / as a module).
"""
from __future__ import annotations

import ast
import shutil
import tempfile
from pathlib import Path

import common
import impl
from props import accessspec as spec
from props import c01x as cx
from props import filelib
from props import visitlib as vl
from props.bodygen import PREAMBLE

from rattr.analyser.file import FileAnalyser
from rattr.analyser.function import FunctionAnalyser
from rattr.config.state import enter_file
from rattr.models.context import compile_root_context
from rattr.module_locator.util import derive_module_name_from_path

# ------------------------------------------------------------------ generator: bodies dense in the plugin-analysed calls


class StarBodyGen(cx.RetGen):
    """`star_names`: (functions, classes, constants) only the star import binds."""

    def __init__(self, rng, star_names=((), (), ()), p_x=0.3, p_xstmt=0.45, **kw):
        kw.setdefault("hostile", 0.0)
        kw.setdefault("max_depth", 2)
        kw.setdefault("p_stmt", 0.12)
        kw.setdefault("p_expr", 0.04)
        super().__init__(rng, **kw)
        self.sfuncs, self.sclasses, self.sconsts = (list(x) for x in star_names)
        self.p_x, self.p_xstmt = p_x, p_xstmt

    def lit(self):
        return self.fresh("lit")

    def base(self, d=0, nest=False):
        """the object expression of a getattr-family call (`nest`: the call is a `getattr` — only a call to the SAME
        function may be its object, anything else is `error.fatal`: no IR to judge)"""
        r = self.r
        v = self.var()
        k = r.random()
        if k < 0.3:
            return v
        if k < 0.55:
            return f"{v}.{self.fresh('a')}"
        if k < 0.65:
            return f"{v}.{self.fresh('a')}.{self.fresh('a')}"
        if k < 0.75:
            return f"{v}[{r.choice(['0', repr('k')])}]"
        if k < 0.82:
            return f"{v}.{self.fresh('a')}[0]"
        if k < 0.93 and d < 2 and nest:
            return f"getattr({self.base(d + 1, True)}, '{self.lit()}')"
        # (a call to anything else as the object is `error.fatal`: no IR to judge)
        return f"{v}.{self.fresh('a')}"

    def xexpr(self, d=0):
        """an expression from the plugin-analysed families / the star-supplied names"""
        r = self.r
        v = self.var()
        E = lambda: cx.RetGen.expr(self, min(d + 1, self.max_depth))  # noqa: E731
        kinds = ["getattr"] * 5 + ["hasattr"] * 3 + ["setattr", "delattr", "sorted_lambda", "sorted_lambda", "sorted_attr",
                                                      "sorted_plain", "dd_lambda", "dd_attr", "dd_plain", "getattr_default",
                                                      "and_hasattr", "fstring", "comp", "ifexp", "arg", "kwarg", "star_fn",
                                                      "star_cls", "star_const", "method_on_getattr", "sub_of_getattr"]
        k = r.choice(kinds)
        if k == "getattr":
            return f"getattr({self.base(0, True)}, '{self.lit()}')"
        if k == "hasattr":
            return f"hasattr({self.base()}, '{self.lit()}')"
        if k == "setattr":
            return f"setattr({self.base()}, '{self.lit()}', {E()})"
        if k == "delattr":
            return f"delattr({self.base()}, '{self.lit()}')"
        if k == "getattr_default":
            return f"getattr({self.base(0, True)}, '{self.lit()}', {r.choice(['None', '0', repr('dflt')])})"
        if k == "sorted_lambda":
            w = self.fresh("w")
            return f"sorted({v}.{self.fresh('a')}, key=lambda {w}: {w}.{self.fresh('a')})"
        if k == "sorted_attr":
            return f"sorted({self.base()}, key={v}.{self.fresh('a')})"
        if k == "sorted_plain":
            return f"sorted(getattr({self.base(0, True)}, '{self.lit()}'))"
        if k == "dd_lambda":
            return f"defaultdict(lambda: getattr({self.base(0, True)}, '{self.lit()}'))"
        if k == "dd_attr":
            return f"defaultdict({v}.{self.fresh('a')})"
        if k == "dd_plain":
            return r.choice(["defaultdict(list)", f"defaultdict(lambda: {self.atom()})"])
        if k == "and_hasattr":
            return f"(hasattr({self.base()}, '{self.lit()}') and getattr({self.base(0, True)}, '{self.lit()}'))"
        if k == "fstring":
            return "f\"{getattr(" + self.base(0, True) + ", '" + self.lit() + "')!r} {" + self.atom() + "}\""
        if k == "comp":
            t = self.fresh("t")
            return r.choice([f"[getattr({t}, '{self.lit()}') for {t} in {self.atom()} if hasattr({t}, '{self.lit()}')]",
                             f"{{{t}: getattr({self.base(0, True)}, '{self.lit()}') for {t} in sorted({self.atom()})}}"])
        if k == "ifexp":
            return f"(getattr({self.base(0, True)}, '{self.lit()}') if hasattr({self.base()}, '{self.lit()}') else {self.atom()})"
        if k == "arg":
            return f"{r.choice(['helper', 'print', 'unknown_fn', 'len', 'Cls'] + self.sfuncs[:2])}(getattr({self.base(0, True)}, '{self.lit()}'))"
        if k == "kwarg":
            return f"helper({self.atom()}, w=getattr({self.base(0, True)}, '{self.lit()}'))"
        if k == "star_fn" and self.sfuncs:
            return f"{r.choice(self.sfuncs)}({E()})"
        if k == "star_cls" and self.sclasses:
            return f"{r.choice(self.sclasses)}({self.atom()})"
        if k == "star_const" and self.sconsts:
            return f"{r.choice(self.sconsts)}.{self.fresh('a')}"
        if k == "method_on_getattr":
            return f"getattr({self.base(0, True)}, '{self.lit()}').{self.fresh('a')}"
        if k == "sub_of_getattr":
            return f"getattr({self.base(0, True)}, '{self.lit()}')[{r.choice(['0', repr('k')])}]"
        return f"getattr({self.base(0, True)}, '{self.lit()}')"

    def expr(self, d=0):
        if self.r.random() < self.p_x:
            return self.xexpr(d)
        return super().expr(d)

    def stmt(self, d=0):
        r = self.r
        if r.random() >= self.p_xstmt:
            return super().stmt(d)
        ind = lambda lines: ["    " + l for l in lines]  # noqa: E731
        X = self.xexpr
        G = lambda: f"getattr({self.base(0, True)}, '{self.lit()}')"  # noqa: E731
        H = lambda: f"hasattr({self.base()}, '{self.lit()}')"  # noqa: E731
        kinds = ["expr", "expr", "setattr", "setattr", "delattr", "if_hasattr", "if_hasattr", "return", "return", "assign",
                 "for_sorted", "for_getattr", "with", "while", "assert", "raise", "return_display", "aug", "defaultdict_assign",
                 "sorted_assign", "del_of_getattr", "store_into_getattr", "try", "match"]
        if d >= 2:
            kinds = [k for k in kinds if k not in ("if_hasattr", "for_sorted", "for_getattr", "with", "while", "try", "match")]
        k = r.choice(kinds)
        if k == "expr":
            return [X()]
        if k == "setattr":
            return [f"setattr({self.base()}, '{self.lit()}', {r.choice([self.atom(), G(), X()])})"]
        if k == "delattr":
            return [f"delattr({self.base()}, '{self.lit()}')"]
        if k == "if_hasattr":
            return [f"if {H()}:"] + ind(self.block(d + 1, 1)) + (["else:"] + ind([f"delattr({self.base()}, '{self.lit()}')"])
                                                                 if r.random() < 0.4 else [])
        if k == "return":
            return [f"return {r.choice([G(), X(), G() + ', ' + H()])}"]
        if k == "return_display":
            return [r.choice([f"return {{'k': {G()}, **{G()}}}", f"return [{G()}, *{G()}]", f"return ({H()}, {self.atom()})"])]
        if k == "assign":
            return [f"{self.target()} = {r.choice([G(), X()])}"]
        if k == "aug":
            return [f"{self.var()}.{self.fresh('s')} += {G()}"]
        if k == "for_sorted":
            w = self.fresh("w")
            t = self.target()
            return [f"for {t} in sorted({self.var()}.{self.fresh('a')}, key=lambda {w}: {w}.{self.fresh('a')}):"] + ind(self.block(d + 1, 1))
        if k == "for_getattr":
            return [f"for {self.target()} in {G()}:"] + ind(self.block(d + 1, 1))
        if k == "with":
            return [f"with {G()} as {self.target()}:"] + ind(self.block(d + 1, 1))
        if k == "while":
            return [f"while {H()}:"] + ind(self.block(d + 1, 1) + ["break"])
        if k == "assert":
            return [f"assert {H()}, {G()}"]
        if k == "raise":
            return [f"raise {G()}"]
        if k == "defaultdict_assign":
            return [f"{self.target()} = defaultdict(lambda: {G()})"]
        if k == "sorted_assign":
            w = self.fresh("w")
            return [f"{self.target()} = sorted({G()}, key=lambda {w}: {w}.{self.fresh('a')})"]
        if k == "del_of_getattr":
            return [f"del {G()}.{self.fresh('d')}"]
        if k == "store_into_getattr":
            return [f"{G()}.{self.fresh('s')} = {self.atom()}"]
        if k == "try":
            return ["try:"] + ind([f"setattr({self.base()}, '{self.lit()}', {self.atom()})"]) + \
                   ["except Exception:"] + ind([f"delattr({self.base()}, '{self.lit()}')"]) + ["finally:"] + ind([X()])
        if k == "match":
            return [f"match {G()}:"] + ind(["case 1:"] + ind([X()]) + ["case _:"] + ind([f"return {H()}"]))
        raise AssertionError(k)


# ------------------------------------------------------------------ projects with star-importable local modules


class HelperGen(cx.UnitGen):
    """a star-importable module: the UNIT_HEADER (its own `defaultdict` / `namedtuple` / `os` imports and
    the SAME module-level names as a target: Cls, Bare, WithStatic, helper, lam, NT, glob) + fresh units."""

    def module(self, extra_header=(), n_units=None):
        src = super().module(extra_header=extra_header, n_units=n_units or self.r.randint(1, 2))
        extra = []
        r = self.r
        c = self.fresh("HCONST")
        extra.append(f"{c} = {r.choice(['1', '[1, 2]', 'Bare()'])}")
        self.consts = [c]
        if r.random() < 0.3:
            extra.append("__all__ = " + repr(self.exported[:1] + [c]))
        return src + "\n".join(extra) + "\n"


def _names_of(hg):
    """(functions, classes, constants) a HelperGen module exports"""
    return ([n for n in hg.exported if "uf" in n or "ulam" in n], [n for n in hg.exported if "UK" in n], list(hg.consts))


# (a star import with a DOTTED module name outside an `__init__.py` raises ValueError in
# `error_starred_import_outside_init` — crash class K8 of C07, no IR to judge: dotted names only in `__init__` files)
LAYOUTS = ["flat", "flat", "pkg-init-abs", "pkg-init-rel", "pkg-chain", "target-in-pkg-rel", "target-is-init", "target-is-init",
           "two-stars", "with-nonlocal-star"]


def gen_star_layout(rng, layout=None):
    """(helper files: rel -> source, star header lines, target rel path, star names, layout)"""
    layout = layout or rng.choice(LAYOUTS)
    files = {}
    funcs, classes, consts = [], [], []

    def helper(rel, prefix, extra_header=()):
        hg = HelperGen(rng, prefix=prefix)
        files[rel] = hg.module(extra_header=extra_header)
        f, c, k = _names_of(hg)
        funcs.extend(f), classes.extend(c), consts.extend(k)

    target = "target.py"
    if layout == "flat":
        helper("c01h.py", "h")
        header = ["from c01h import *"]
    elif layout in ("pkg-init-abs", "pkg-init-rel"):
        helper("c01hp/inner.py", "p")
        files["c01hp/__init__.py"] = ("from c01hp.inner import *\n" if layout == "pkg-init-abs" else "from .inner import *\n") + "PKG_LEVEL = 1\n"
        consts.append("PKG_LEVEL")
        header = ["from c01hp import *"]
    elif layout == "pkg-chain":
        helper("c01hp/deep.py", "d")
        helper("c01hp/inner.py", "p", extra_header=["from .deep import *"])
        files["c01hp/__init__.py"] = "from .inner import *\n"
        header = ["from c01hp import *"]
    elif layout == "target-in-pkg-rel":
        helper("c01hp/inner.py", "p")
        files["c01hp/__init__.py"] = ""
        target = "c01hp/tmod.py"
        header = ["from .inner import *"]
    elif layout == "target-is-init":
        helper("c01hp/inner.py", "p")
        target = "c01hp/__init__.py"
        header = [rng.choice(["from .inner import *", "from c01hp.inner import *"])]
    elif layout == "two-stars":
        helper("c01h.py", "h")
        helper("c01hp/inner.py", "p")
        files["c01hp/__init__.py"] = "from .inner import *\n"
        header = ["from c01h import *", "from c01hp import *"]
    elif layout == "with-nonlocal-star":
        helper("c01h.py", "h")
        header = [rng.choice(["from math import *", "from time import *"]), "from c01h import *"]
    else:
        raise AssertionError(layout)
    return files, header, target, (funcs, classes, consts), layout


def place_header(rng, preamble: str, header):
    """the star line(s) before everything, after the imports, or after the module's own definitions"""
    where = rng.choice(["first", "after-imports", "last"])
    lines = preamble.rstrip("\n").split("\n")
    if where == "first":
        out = list(header) + lines
    elif where == "last":
        out = lines + list(header)
    else:
        i = max((j for j, l in enumerate(lines) if l.startswith(("import ", "from "))), default=-1) + 1
        out = lines[:i] + list(header) + lines[i:]
    return "\n".join(out) + "\n\n", where


def gen_function_module(rng, n_funcs=5):
    """(files, target rel, target source, function names, layout, where)"""
    files, header, target, star_names, layout = gen_star_layout(rng)
    pre, where = place_header(rng, PREAMBLE, header)
    g = StarBodyGen(rng, star_names)
    names, parts = [], [pre]
    for i in range(n_funcs):
        for _ in range(20):
            name = f"sf{i}"
            src = g.function(name)
            try:
                compile(src, "<gen>", "exec")
            except SyntaxError:
                continue
            parts.append(src)
            names.append(name)
            break
    return files, target, "\n".join(parts), names, layout, where


STAR_WITNESSES = '''
def configure(obj, src):
    setattr(obj, "mode", src.mode)
    if hasattr(src, "extra"):
        delattr(obj.cache, "stale")
    return getattr(src.inner, "label")
def order(rows):
    return sorted(rows.items, key=lambda row: row.rank)
def nested(a):
    return getattr(getattr(a.x, "first"), "second")
def table(a):
    return defaultdict(lambda: getattr(a.conf, "default"))
def loop(a, b):
    for t in sorted(a.items, key=lambda w: w.rank):
        setattr(b, "last", t.value)
def display(a):
    return {"k": getattr(a, "ka"), **getattr(a.spread, "kb")}, [hasattr(a[0], "kc")]
'''


class StarUnitGen(cx.UnitGen):
    def __init__(self, rng, prefix="", star_names=((), (), ())):
        super().__init__(rng, prefix)
        self.g = StarBodyGen(rng, star_names)


# ------------------------------------------------------------------ running the real side


def write_files(root: Path, files):
    for rel, text in files.items():
        p = root / rel
        p.parent.mkdir(parents=True, exist_ok=True)
        p.write_text(text)


def expanded_root(project: Path, target_rel: str, tree):
    """`compile_root_context(tree).expand_starred_imports()` as `parse_and_analyse_file` runs it.
    Must be called inside `impl.in_dir(project)` + `enter_file(target)`."""
    with impl.Tap() as tap:
        out = impl.outcome_of(lambda: compile_root_context(tree).expand_starred_imports())
    return out, tap.events


def _analyse_function(fn_node, ctx, target):
    with impl.Tap() as tap, enter_file(target):
        fa = FunctionAnalyser(fn_node, ctx)
        out = impl.outcome_of(fa.analyse)
    diags = [vl.template_of(e) for e in tap.events]
    ir = fa.func_ir
    res = {"gets": vl.names_json(ir["gets"]), "sets": vl.names_json(ir["sets"]), "dels": vl.names_json(ir["dels"]),
           "calls": sorted((vl.canon_call(vl.call_json(c)) for c in ir["calls"]), key=vl.impl_json_key), "diags": diags}
    if out[0] == "ok":
        res["outcome"], res["exc"] = "ok", ""
    elif out[0] == "fatal":
        res["outcome"], res["exc"] = "fatal", (diags[-1][1] if diags else "")
    else:
        res["outcome"], res["exc"] = "crash", out[1]
    return res


xattr_signature = cx.xattr_signature


def run_function_stage(res, rng, n_modules, model, stage="star-fn"):
    cases, reqs = [], []
    wit_names = [l.split("(")[0][4:] for l in STAR_WITNESSES.splitlines() if l.startswith("def ")]
    # the minimal project first (a replay should be readable), then the witnesses under three generated layouts
    work = [({"helpers.py": "def normalise(value):\n    return value.strip\n"}, "target.py",
             "from helpers import *\nfrom collections import defaultdict\n" + STAR_WITNESSES, wit_names, "minimal", "first")]
    for lay in ("flat", "pkg-chain", "target-in-pkg-rel"):
        files, header, target, _sn, layout = gen_star_layout(rng, lay)
        pre, where = place_header(rng, PREAMBLE, header)
        work.append((files, target, pre + STAR_WITNESSES, wit_names, layout, where))
    for _ in range(n_modules):
        work.append(gen_function_module(rng))
    root = Path(tempfile.mkdtemp(prefix="rattr-c01star-")).resolve()
    try:
        for i, (files, target_rel, src, names, layout, where) in enumerate(work):
            project = root / f"f{i}"
            write_files(project, dict(files, **{target_rel: src}))
            target = Path(target_rel)
            res.count(f"{stage}:layout:{layout}")
            res.count(f"{stage}:star-line:{where}")
            with impl.in_dir(str(project)):
                for name in names:
                    impl.reset_config(target=target)
                    tree = ast.parse(src)
                    with enter_file(target):
                        out, _ev = expanded_root(project, target_rel, tree)
                        mn = derive_module_name_from_path(target) or ""
                    if out[0] != "ok":
                        res.count(f"{stage}:root:{out[0]}")
                        res.internal_errors.append({"what": "star root context of a generated module did not compile",
                                                    "outcome": str(out)[:300], "files": dict(files, **{target_rel: src})})
                        break
                    ctx = out[1]
                    fn = next(n for n in tree.body if isinstance(n, (ast.FunctionDef, ast.AsyncFunctionDef)) and n.name == name)
                    op, payload = vl.model_request(fn, ctx)
                    payload["module"] = mn
                    reqs.append((op, payload))
                    c = vl.Case()
                    c.module_src, c.name, c.fn, c.fn_src = src, name, fn, ast.unparse(fn)
                    c.events = {"files": dict(files, **{target_rel: src}), "target": target_rel, "layout": layout,
                                "imported": sum(1 for s in ctx.symbol_table.symbols if type(s).__name__ == "Import")}
                    c.im = _analyse_function(fn, ctx, target)
                    cases.append(c)
    finally:
        shutil.rmtree(root, ignore_errors=True)
    outs = model.batch(reqs)
    for c, mo in zip(cases, outs):
        c.mo = mo
        c.diff = "model error: " + str(mo["__error__"]) if "__error__" in mo else vl.compare(c.im, mo)
        res.evaluations += 1
        case = {"stage": stage, "function": c.fn_src, "target": c.events["target"], "files": c.events["files"],
                "how": "compile_root_context(ast.parse(target)).expand_starred_imports(); FunctionAnalyser(<function>, ctx).analyse()"}
        res.count(f"{stage}:outcome:" + c.im["outcome"] + (":" + c.im["exc"] if c.im["outcome"] != "ok" else ""))
        res.count(f"{stage}:symbols-from-star", c.events["imported"])
        if c.diff is not None:
            res.disagreements.append({"case": case, "diff": c.diff[:2000]})
        if c.im["outcome"] != "ok":
            continue
        classes = spec.local_class_names(c.fn, vl.MODULE_CLASSES)
        accs = spec.accesses(c.fn, classes)
        if len(accs) >= 3:
            res.nontrivial.add(common.digest([stage, c.fn_src]))
        have = {k: {n[0] for n in c.im[k + "s"]} for k in ("get", "set", "del")}
        have["call"] = {x["name"] for x in c.im["calls"]}
        for a in accs:
            res.count("position:" + (a.tags[0] if a.tags else "plain"))
            xs = xattr_signature(a)
            if xs is not None and not a.tags:
                res.count(f"{stage}:demanded:{xs}")
            if a.name in have[a.kind]:
                continue
            if a.tags:
                sig = "missed-access:" + a.tags[0]
            elif cx.match_position(a.path) is not None:
                sig = "missed-access:" + cx.match_position(a.path)
            elif xs is not None:
                sig = "missed-access:" + xs
            else:
                sig = "missed-access:other:" + "/".join(a.path[-2:])
            res.count("verdict:" + sig)
            res.violations.append({"signature": sig, "case": case, "missing": {"kind": a.kind, "name": a.name, "line": a.node.lineno,
                                   "col": a.node.col_offset, "path": list(a.path), "tags": list(a.tags)},
                                   "reported": {k: sorted(v)[:40] for k, v in have.items()}})
    return cases


# ------------------------------------------------------------------ whole files: real S2(+star expansion)+S4 vs Pipeline2.analyseAt

MAX_ROUNDS = 40


def gen_file_module(rng):
    files, header, target, star_names, layout = gen_star_layout(rng)
    ug = StarUnitGen(rng, prefix="t", star_names=star_names)
    where = rng.choice(["after-header", "after-header", "last"])
    if where == "last":
        src = ug.module() + "\n".join(header) + "\n"
    else:
        src = ug.module(extra_header=header)
    return files, target, src, layout, where


FILE_CURATED = [
    ({"helpers.py": "def normalise(value):\n    return value.strip\n"}, "target.py",
     "from helpers import *\n" + STAR_WITNESSES + "class Holder:\n    def __init__(self, spec):\n        self.kind = getattr(spec, 'kind')\n"
     "        setattr(self, 'raw', spec.raw)\n    @staticmethod\n    def probe(v):\n        return hasattr(v.inner, 'flag')\n"
     "pick = lambda a, b: getattr(a.opts, 'chosen')\n"),
]


def _real_file(project: Path, target_rel: str, src: str, cfg):
    """root_im / file_im in filelib.run_case's format, with the star expansion done."""
    tree = ast.parse(src)
    with cfg():
        out, events = expanded_root(project, target_rel, tree)
        diags = [filelib.template_of(e) for e in events]
        oc, exc = filelib._outcome(out, diags)
        root_im = {"outcome": oc, "exc": exc, "diags": filelib.canon_diags(diags)}
        file_im = None
        if out[0] == "ok":
            ctx = out[1]
            root_im["symbols"] = [filelib.canon_sym(vl.sym_json(s)) for s in ctx.symbol_table.symbols]
            fa = FileAnalyser(tree, ctx)
            with impl.Tap() as tap:
                out2 = impl.outcome_of(fa.analyse)
            diags2 = [filelib.template_of(e) for e in tap.events]
            oc2, exc2 = filelib._outcome(out2, diags2)
            file_im = {"outcome": oc2, "exc": exc2, "diags": filelib.canon_diags(diags + diags2)}
            if oc2 == "ok":
                keys = [(filelib.canon_sym(vl.sym_json(k)), filelib.ir_json(v)) for k, v in fa.file_ir._file_ir.items()]
                file_im["keys"] = [{"sym": k, "ir": v} for k, v in keys]
                file_im["symbols"] = [filelib.canon_sym(vl.sym_json(s)) for s in ctx.symbol_table.symbols]
    return tree, root_im, file_im


def _ask(cases, model, op, attr):
    """the facts protocol of props.pipeline2 for ops `star_root` / `star_file`"""
    from props import pipeline2 as p2

    live = list(cases)
    for _ in range(MAX_ROUNDS):
        if not live:
            break
        outs = model.batch([(op, c.facts.payload()) for c in live])
        nxt = []
        for c, mo in zip(live, outs):
            setattr(c, attr, mo)
            nd = p2._need(mo)
            if nd is not None:
                if c.facts.supply(nd) and c.facts.skipped is None:
                    nxt.append(c)
                elif c.facts.skipped is None:
                    setattr(c, attr, {"__error__": f"cannot supply {nd}"})
        live = nxt


class SCase:
    __slots__ = ("files", "target", "src", "layout", "where", "facts", "tree", "root_im", "file_im", "root_mo", "file_mo", "skipped")


def run_file_stage(res, rng, n, model, stage="star-file"):
    from props import pipeline2 as p2

    work = [(dict(f), t, s, "curated", "first") for f, t, s in FILE_CURATED] + [gen_file_module(rng) for _ in range(n)]
    cases = []
    root = Path(tempfile.mkdtemp(prefix="rattr-c01starfile-")).resolve()
    try:
        for i, (files, target_rel, src, layout, where) in enumerate(work):
            c = SCase()
            c.files, c.target, c.src, c.layout, c.where = dict(files, **{target_rel: src}), target_rel, src, layout, where
            c.skipped = c.root_mo = c.file_mo = None
            project = root / f"s{i}"
            write_files(project, c.files)
            try:
                for text in c.files.values():
                    ast.parse(text)
            except SyntaxError:
                res.internal_errors.append({"what": "star-file module does not parse", "files": c.files})
                continue
            c.facts = p2.Facts(project, target_rel)
            c.facts.seed()
            if c.facts.skipped is not None:
                c.skipped = c.facts.skipped
                cases.append(c)
                continue
            c.tree, c.root_im, c.file_im = _real_file(project, target_rel, src, c.facts._cfg)
            cases.append(c)
        live = [c for c in cases if c.skipped is None]
        _ask(live, model, "star_root", "root_mo")
        _ask([c for c in live if c.facts.skipped is None], model, "star_file", "file_mo")
    finally:
        shutil.rmtree(root, ignore_errors=True)
    for c in cases:
        if c.skipped is None and c.facts.skipped is not None:
            c.skipped = c.facts.skipped
        if c.skipped is not None:
            res.skipped_outside_fragment += 1
            res.count(f"{stage}:skipped:" + c.skipped[:50])
            continue
        res.evaluations += 1
        res.count(f"{stage}:layout:{c.layout}")
        res.count(f"{stage}:star-line:{c.where}")
        res.count(f"{stage}:root:" + c.root_im["outcome"])
        case = {"stage": stage, "target": c.target, "files": c.files,
                "how": "compile_root_context(ast.parse(target)).expand_starred_imports(); FileAnalyser(ast, ctx).analyse()"}
        outside = False
        for mo in (c.root_mo, c.file_mo):
            if mo is not None and "__error__" not in mo and mo.get("outcome") == "crash" and str(mo.get("exc", "")).startswith("Outside:"):
                outside = True
                res.count(f"{stage}:model-outside:" + mo["exc"])
        if not outside:
            d = filelib.compare_root(c.root_im, c.root_mo)
            if d is None and c.file_im is not None:
                res.count(f"{stage}:file:" + c.file_im["outcome"] + (":" + c.file_im["exc"] if c.file_im["outcome"] != "ok" else ""))
                d = filelib.compare_file(c.file_im, c.file_mo)
            if d is not None:
                res.disagreements.append({"case": dict(case, stage=stage + " (star-expanded root context / file analyser)"), "diff": d[:2000]})
        if c.file_im is None or c.file_im.get("outcome") != "ok" or "keys" not in c.file_im:
            continue
        entries = cx.entries_by_name((k["sym"]["name"], k["ir"]) for k in c.file_im["keys"])
        cx.judge_entries(res, c.tree, entries, "filelib", case, stage, excluded_patterns=p2.EXCLUDE)
    return cases


# ------------------------------------------------------------------ projects: the star import in the target / in a followed import


def gen_star_project(rng):
    """(files, target, followed: module -> rel, where the star import sits)"""
    files, header, target, star_names, layout = gen_star_layout(rng, rng.choice(["flat", "flat", "pkg-init-rel", "pkg-init-abs", "pkg-chain",
                                                                                     "two-stars", "with-nonlocal-star"]))
    site = rng.choice(["target", "target", "followed"])
    if site == "target":
        tg = StarUnitGen(rng, prefix="t", star_names=star_names)
        files = dict(files, **{"target.py": tg.module(extra_header=header)})
        return files, "target.py", {}, site, layout
    ig = StarUnitGen(rng, prefix="i", star_names=star_names)
    imp_src = ig.module(extra_header=header)
    picked = list(ig.exported)[:2] or ["helper"]
    how = rng.choice([f"from c01imp import {', '.join(picked)}", "import c01imp", "import c01imp as imod"])
    tg = cx.UnitGen(rng, prefix="t")
    tgt = tg.module(extra_header=[how])
    if how.startswith("from"):
        tgt += "def uses_import(a, b):\n" + "".join(f"    {p}(a.u{j}, b)\n" for j, p in enumerate(picked))
    files = dict(files, **{"target.py": tgt, "c01imp.py": imp_src})
    return files, "target.py", {"c01imp": "c01imp.py"}, site, layout


def run_project_stage(res, rng, n_inproc, n_cli, stages=("star-project", "star-cli")):
    demo = {"helpers.py": "def normalise(value):\n    return value.strip\n", "target.py": "from helpers import *\n" + STAR_WITNESSES}
    work = [(demo, "target.py", {}, "target", "curated")] + [gen_star_project(rng) for _ in range(n_inproc)]
    for i, (files, target, followed, site, layout) in enumerate(work):
        tmp = Path(tempfile.mkdtemp(prefix="rattr-c01starproj-")).resolve()
        try:
            write_files(tmp, files)
            res.count(f"{stages[0]}:star-in:{site}")
            res.count(f"{stages[0]}:layout:{layout}")
            cx._judge_project(res, files, target, followed, lambda a: cx._inproc(tmp, a), "in-process rattr.__main__.main", stages[0])
            if i <= n_cli:
                cx._judge_project(res, files, target, followed, lambda a: cx._cli(tmp, a), "python -m rattr (subprocess)", stages[1])
        finally:
            shutil.rmtree(tmp, ignore_errors=True)


def reach_summary(dist):
    """what the star stages must have reached in every run (else the run is an internal error)"""
    need = ["star-fn:demanded:getattr-family-literal-name:getattr", "star-fn:demanded:getattr-family-literal-name:setattr",
            "star-fn:demanded:getattr-family-literal-name:hasattr", "star-fn:demanded:getattr-family-literal-name:delattr",
            "star-file:root:ok", "star-project:ir:exit:0", "star-cli:ir:exit:0", "star-project:star-in:target"]
    return [k for k in need if not dist.get(k)]

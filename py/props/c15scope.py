"""C15, second layer: diagnostics inside their dynamic scopes.

* Projects of up to five files — target, a followed import (`helper`), a module the target
  star-imports (`tstar`), a module the import star-imports (`hstar`), a module `tstar` star-imports
  (`tstar2`) — with *module-level* constructs (root-context diagnostics, walrus-bound lambdas and
  namedtuples, annotated functions) and function-level ones in every file. Every file other than the
  target is padded so that a line number tells the file the offending construct is really in.
* `ScopeTap`: the in-process run of the real `main` additionally records a trace — every
  `enter_file` block entered / left / abandoned by an exception, and for every diagnostic
  (a) `state.current_file`, (b) the file whose AST is being analysed (innermost running
  `compile_root_context` / `FileAnalyser.analyse`, ASTs mapped to files through `ast.parse`),
  (c) the ids of the `with` / SystemExit-catching `try` blocks of rattr/**.py that are active at the
  raise (frame walk + tables/scopescan.py, the same scan the Tie A table is generated from).
* The Lean model `DiagScope.run` replays the trace: places by the enter_file discipline, the fate of a
  SystemExit by the kinds of the regenerated scope table. The contract (`Spec.exit` / `Spec.buckets`)
  is evaluated on the places where the constructs really are.
"""
from __future__ import annotations

import ast
import contextlib
import io
import os
import sys
from pathlib import Path
from unittest import mock

import impl
import diag_common as dc

from rattr.config import Config, State

PAD = dc.IMPORT_PAD          # file k starts with k * PAD blank lines
FILES = ("target", "helper", "tstar", "hstar", "tstar2", "facade", "mid", "impl")
FID = {n: i for i, n in enumerate(FILES)}
PREFIX = {"target": "t", "helper": "h", "tstar": "ts", "hstar": "hs", "tstar2": "t2", "facade": "fa", "mid": "mi", "impl": "im"}
# re-export chains (round 4): the target (or the followed import `helper`) imports a name from
# `facade`, which only re-exports it from `mid`, which re-exports it from `impl` (0, 1 or 2 hops)
CHAIN_ROUTE = ("facade", "mid")
# who star-imports whom
STAR_OF = {"tstar": "target", "hstar": "helper", "tstar2": "tstar"}

# ------------------------------------------------------------------------------------------------
# constructs
# ------------------------------------------------------------------------------------------------
# `{p}` file prefix, `{n}` serial. Every file defines `{p}_base(x)`.

MODULE_MENU = {
    # --- root-context diagnostics (raised while the module's root context is compiled)
    "m_del": "{p}_d{n} = 1\ndel {p}_d{n}\n",                                        # warning
    "m_bad_namedtuple": '{p}_P{n} = namedtuple("{p}_P{n}", "x y".split())\n',         # error (+ error in the file analyser)
    "m_toplevel_expr": "{p}_base.attr{n}\n",                                         # error
    "m_multi_import": "import os, sys\n",                                            # info
    "m_lambda_pair": "{p}_a{n}, {p}_b{n} = lambda: 1, lambda: 2\n",                  # error; fatal in the file analyser
    "m_toplevel_lambda": "lambda: {n}\n",                                            # error; fatal in the file analyser
    "m_rel_import": "from .{p}_nowhere{n} import {p}_x{n}\n",                        # error then fatal
    "m_import_missing": "import {p}_nonexistent{n}\n",                               # fatal
    # star import of a module without Python source: an error raised by the star-import expansion of
    # the importing file, outside every enter_file block of the expansion (culprit: the Import symbol)
    "m_star_math": "from math import *\n",                                          # warning + error
    "m_star_sys": "from sys import *\n",                                            # warning + error
    # --- walrus on the rhs of a module-level assignment (the two `with DictChanges` blocks)
    "m_walrus_lambda_fatal": "{p}_wh{n} = ({p}_ww{n} := lambda e: getattr({p}_base(e), 'name'))\n",
    "m_walrus_lambda_error": "{p}_wc{n} = ({p}_wi{n} := lambda ev: [(lambda q: q.z) for _ in ev.items])\n",
    "m_walrus_lambda_warning": "{p}_wv{n} = ({p}_wx{n} := lambda e: {p}_undef{n}.x)\n",
    "m_walrus_lambda_ok": "{p}_wo{n} = ({p}_wp{n} := lambda e: e.attr{n})\n",
    "m_walrus_bad_namedtuple": '{p}_wn{n} = ({p}_WP{n} := namedtuple("{p}_WP{n}", "x y".split()))\n',
    "m_walrus_tuple_fatal": "{p}_wt{n} = (1, ({p}_wu{n} := lambda e: getattr({p}_base(e), 'name')))\n",
    "m_walrus_tuple_error": "{p}_wq{n} = [({p}_wr{n} := lambda ev: [(lambda q: q.z) for _ in ev.items]), 2]\n",
    "m_walrus_nested_error": "{p}_wa{n} = ({p}_wb{n} := ({p}_wd{n} := lambda ev: [(lambda q: q.z) for _ in ev.items]))\n",
    "m_walrus_nested_fatal": "{p}_we{n} = ({p}_wf{n} := ({p}_wg{n} := lambda e: getattr({p}_base(e), 'name')))\n",
    "m_walrus_global_fatal": "{p}_wj{n} = ({p}_wk{n} := lambda e: [getattr({p}_base(x), 'n') for x in e])\n",
    # --- the same bodies without a walrus (siblings)
    "m_lambda_fatal": "{p}_lf{n} = lambda e: getattr({p}_base(e), 'name')\n",
    "m_lambda_error": "{p}_le{n} = lambda ev: [(lambda q: q.z) for _ in ev.items]\n",
    # --- annotated functions: `with redirect_stderr` + `except SystemExit` in the annotation parser
    "m_results_uneval": "@rattr_results(gets={{{p}_undefined{n}}})\ndef {p}_r{n}(a):\n    return a\n",
    "m_results_dup": '@rattr_results(gets={{"a"}})\n@rattr_results(gets={{"b"}})\ndef {p}_r{n}(a):\n    return a\n',
    "m_results_posarg": '@rattr_results({{"a"}})\ndef {p}_r{n}(a):\n    return a\n',
    "m_results_badtype": "@rattr_results(gets={{1}})\ndef {p}_r{n}(a):\n    return a\n",
    "m_results_ok": '@rattr_results(gets={{"a.x"}})\ndef {p}_r{n}(a):\n    return a\n',
    # --- function level, inside the nested `with new_context` blocks
    "f_comp_fatal": "def {p}_f{n}(a):\n    return [getattr({p}_base(x), 'n') for x in a]\n",
    "f_lambda_fatal": "def {p}_f{n}(a):\n    return map(lambda q: getattr({p}_base(q), 'n'), a)\n",
    "f_comp_error": "def {p}_f{n}(a):\n    return [(lambda q: q.z) for x in a]\n",
    "f_nested_def_fatal": "def {p}_f{n}(a):\n    def inner{n}(b):\n        global G{n}\n        return b\n    return a\n",
    "f_global": "def {p}_f{n}(a):\n    global G{n}\n    return a\n",
    "f_init_fatal": "class {p}_K{n}:\n    def __init__(self, a):\n        global G{n}\n        self.a = a\n",
}
for _k, _v in dc.ANALYSIS_MENU.items():
    MODULE_MENU["f_" + _k] = _v

# --- constructs whose diagnostics depend on an option naming their culprit (round 4). `legacy_*` modules do
# not exist: without `-F legacy_.*` the import is a fatal of the root context, with it an error of the import
# walk. `*_xq*` names match `-x .*_xq.*`: the function / class is then not analysed at all.
OPTION_MENU = {
    "m_import_unlocatable": "import legacy_{p}{n}\n",
    "m_from_unlocatable": "from legacy_{p}{n} import thing{n}\n",
    "m_import_unlocatable_dotted": "import legacy_{p}{n}.sub{n}\n",
    "f_call_excluded": "def {p}_xq{n}(x):\n    return x.q\n\ndef {p}_f{n}(a):\n    return {p}_xq{n}(a)\n",
    "f_init_excluded": "class {p}_xq_K{n}:\n    def __init__(self, v):\n        self.v = v.w\n\n"
                       "def {p}_f{n}(a):\n    k = {p}_xq_K{n}(a)\n    return k\n",
    "f_excluded_nested_def": "def {p}_xq{n}(a):\n    def inner{n}():\n        pass\n    return a\n",
    "f_excluded_undefined_name": "def {p}_xq{n}(a):\n    return {p}_undef{n}.x\n",
    "f_excluded_global": "def {p}_xq{n}(a):\n    global G{n}\n    return a\n",
}
MODULE_MENU.update(OPTION_MENU)
UNLOCATABLE = ("m_import_unlocatable", "m_from_unlocatable", "m_import_unlocatable_dotted")
F_LEGACY, X_XQ = "legacy_.*", ".*_xq.*"

# --- what the defining module of a chain holds for the called name -> its source there ({f} the name, {n} serial)
CHAIN_CALLEES = {
    "missing": "",                                                                   # error at the last hop: likely undefined
    "ignored": "@rattr_ignore\ndef {f}(x):\n    return x.y\n",                       # error: likely ignored
    "excluded": "def {f}(x):\n    return x.q\n",                                     # name matches -x .*_xq.*: likely ignored / resolved
    "ok": "def {f}(x):\n    return x.ok{n}\n",
    "lam": "{f} = lambda x: x.lam{n}\n",
    "var": "{f} = {n}\n",                                                            # a plain name: likely undefined
    "cls_init": "class {f}:\n    def __init__(self, v):\n        self.v = v.w\n",
    "cls_noinit": "class {f}:\n    pass\n",                                          # no initialiser, no IR: likely ignored
    "cls_missing": "",
    "stdlib": None,                                                                  # the last hop is `from math import sqrt as {f}`
}
CHAIN_SHAPES = {
    "plain": "return {f}(a)",
    "store": "k = {f}(a)\n    return k",
    "too_many": "return {f}(a, a, a)",
    "unexpected_kw": "return {f}(a, zz{n}=a)",
    "method": "return {f}.meth{n}(a)",
    "twice": "return {f}({f}(a))",
}

# constructs after which (in some file, under some configuration) the run cannot go on
ENDING = ("m_lambda_pair", "m_toplevel_lambda", "m_rel_import", "m_import_missing", "m_walrus_lambda_fatal",
          "m_walrus_tuple_fatal", "m_walrus_nested_fatal", "m_walrus_global_fatal", "m_lambda_fatal",
          "m_results_uneval", "m_results_dup", "m_results_posarg", "m_results_badtype",
          "f_comp_fatal", "f_lambda_fatal", "f_nested_def_fatal", "f_global", "f_init_fatal")
WEIGHTED_ROOT = ("m_del", "m_bad_namedtuple", "m_toplevel_expr", "m_walrus_bad_namedtuple")
STAR_NO_SOURCE = ("m_star_math", "m_star_sys")
# module names whose file names are near misses of each other: the target's spelling is a suffix of an
# import's path (`util.py` / `text_util.py`, `utils.py` / `pkg/utils.py`), and the other way round
NEAR_MISS_NAMES = (
    {"target": "util", "helper": "text_util", "tstar": "my_util", "hstar": "x_util", "tstar2": "old_util"},
    # (star-imported modules keep undotted names: `from a.b import *` outside an __init__.py crashes the pinned
    # code — gen_import_from_stmt rejects the dotted name while the star-import warning is built; a C07 matter)
    {"target": "utils", "helper": "pkg.utils", "tstar": "my_utils", "hstar": "x_utils", "tstar2": "more_utils"},
    {"target": "text_util", "helper": "util", "tstar": "xt_util", "hstar": "il", "tstar2": "t_util"},
)
QUIET = ("m_multi_import", "m_walrus_lambda_ok", "m_results_ok", "f_plain", "f_method_call")

HEAD = (
    "from collections import namedtuple\n"
    "from rattr.analyser.annotations import rattr_ignore, rattr_results\n"
)


def module_names(prog):
    """role -> dotted module name (default: the role itself; `names` in the program overrides)."""
    return {**{f: f for f in FILES}, **(prog.get("names") or {})}


def chain_route(prog):
    """The modules a chained name travels through, importer side first: [] (no chain), ["impl"],
    ["facade", "impl"], ["facade", "mid", "impl"]."""
    ch = prog.get("chain")
    if not ch:
        return []
    return list(CHAIN_ROUTE[:ch["hops"]]) + ["impl"]


def chain_name(call, n):
    callee = call[0]
    return f"c{n}_xq" if callee == "excluded" else f"c{n}_{callee}"


def render_chain(prog, names, dot):
    """-> {file: {"imports": [lines], "defs": [sources]}} for the chain part of a program.
    chain = {"hops": 0..2, "style": "from" | "module", "calls": [[callee, shape, caller], ..]}:
    the caller (a function of the target, or a function of `helper` that the target calls) calls a name
    it imports from the first module of the route; every module of the route but the last only
    re-exports it (`from <next> import <name>`); the last one holds CHAIN_CALLEES[callee]."""
    out = {}
    ch = prog.get("chain")
    if not ch:
        return out
    route = chain_route(prog)
    add = lambda f, k, v: out.setdefault(f, {"imports": [], "defs": []})[k].append(v)   # noqa: E731
    module_style = ch.get("style") == "module" and not dot
    for i, call in enumerate(ch["calls"]):
        callee, shape, caller = call
        n = 900 + i
        f = chain_name(call, n)
        # the route: importer k imports from route[k]
        for k in range(len(route) - 1):
            nxt = names[route[k + 1]]
            if callee == "stdlib" and k == len(route) - 2:
                add(route[k], "imports", f"from math import sqrt as {f}\n")
            else:
                add(route[k], "imports", f"from {dot}{nxt} import {f}\n")
        if callee == "stdlib":
            if len(route) == 1:
                first_import = f"from math import sqrt as {f}\n"
            else:
                first_import = f"from {dot}{names[route[0]]} import {f}\n"
        else:
            first_import = f"from {dot}{names[route[0]]} import {f}\n"
            src = CHAIN_CALLEES[callee]
            if src:
                add("impl", "defs", src.format(f=f, n=n))
        ref = f
        if module_style and not (callee == "stdlib" and len(route) == 1):
            first_import = f"import {names[route[0]]}\n"
            ref = f"{names[route[0]]}.{f}"
        body = CHAIN_SHAPES[shape].format(f=ref, n=n)
        who = "helper" if caller == "helper" and "helper" in prog["files"] else "target"
        if first_import not in out.get(who, {"imports": []})["imports"]:
            add(who, "imports", first_import)
        if who == "helper":
            add("helper", "defs", f"def h_c{n}(a):\n    {body}\n")
            add("target", "imports", f"from {dot}{names['helper']} import h_c{n}\n")
            add("target", "defs", f"def t_c{n}(a):\n    return h_c{n}(a)\n")
        else:
            add("target", "defs", f"def t_c{n}(a):\n    {body}\n")
    return out


def render(prog):
    """prog: {"files": {name: [kinds]}, "simpl": [SIMPL_MENU kinds], "layout": "flat" | "package",
    "chain": .. (render_chain), "options": .. (option_argv)} -> {name: source}. In the package layout every
    file is a module of the package `pkg` and all imports between them are relative (`from .tstar import *`,
    `from .helper import ..`)."""
    out = {}
    n = 0
    dot = "." if prog.get("layout") == "package" else ""
    names = module_names(prog)
    present = [f for f in FILES if f in prog["files"]]
    chain = render_chain(prog, names, dot)
    for name in present:
        p = PREFIX[name]
        parts = ["\n" * (FID[name] * PAD), HEAD]
        if name == "target":
            parts.append("from math import sqrt\n")
            if "helper" in prog["files"]:
                parts.append(f"from {dot}{names['helper']} import h_plain, h_ignored, h_missing\n")
        for star, owner in STAR_OF.items():
            if owner == name and star in prog["files"]:
                parts.append(f"from {dot}{names[star]} import *\n")
        parts.extend(chain.get(name, {}).get("imports", []))
        parts.append(f"\ndef {p}_base(x):\n    return x.{p}attr\n\n")
        if name == "helper":
            parts.append("def h_plain(x):\n    return x.hattr\n\n@rattr_ignore\ndef h_ignored(x):\n    return x.y\n\n")
        if name == "target":
            parts.append("@rattr_ignore\ndef t_ignored(x):\n    return x.y\n\n"
                         "class t_Klass:\n    def __init__(self, v):\n        self.v = v.w\n\n")
        for k in prog["files"][name]:
            n += 1
            parts.append(MODULE_MENU[k].format(p=p, n=n) + "\n")
        for src in chain.get(name, {}).get("defs", []):
            parts.append(src + "\n")
        if name == "target" and "helper" in prog["files"]:
            for k in prog.get("simpl", []):
                n += 1
                parts.append(dc.SIMPL_MENU[k].format(n=n) + "\n")
        out[name] = "".join(parts)
    return out


def option_argv(prog):
    """The analysis options of a program as command-line arguments ([] when they come from the TOML file).
    options = {"F": [patterns], "x": [patterns], "f": level | None, "via": "cli" | "toml"}"""
    o = prog.get("options") or {}
    if o.get("via") == "toml":
        return []
    a = []
    for pat in o.get("F", []):
        a += ["-F", pat]
    for pat in o.get("x", []):
        a += ["-x", pat]
    if o.get("f") is not None:
        a += ["-f", str(o["f"])]
    return a


def option_toml(prog):
    """The same options as lines of the [tool.rattr] table ("" when they are on the command line)."""
    o = prog.get("options") or {}
    if o.get("via") != "toml":
        return ""
    q = lambda xs: "[" + ", ".join("'" + x + "'" for x in xs) + "]"   # noqa: E731  (TOML literal strings: no escapes)
    lines = []
    if o.get("F"):
        lines.append(f"exclude-imports = {q(o['F'])}\n")
    if o.get("x"):
        lines.append(f"exclude = {q(o['x'])}\n")
    if o.get("f") is not None:
        lines.append(f"follow-imports = {o['f']}\n")
    return "".join(lines)


class ScopedProject:
    """Flat layout: every file in the directory rattr is started in; package layout: every file in
    the package `pkg` below it. Duck-types dc.Project for dc.run_cli / dc.cli_env (cwd, home, root,
    target_arg)."""

    layout = "scoped"

    def __init__(self, base: Path, prog):
        self.base, self.prog = base, prog
        self.home = base / "home"
        self.cwd = self.root = base / "proj"
        self.cwd.mkdir(parents=True)
        self.home.mkdir(parents=True)
        self.sources = render(prog)
        self.paths = {}
        where = self.cwd
        if prog.get("layout") == "package":
            where = self.cwd / "pkg"
            where.mkdir()
            (where / "__init__.py").write_text("")
        names = module_names(prog)
        for name, src in self.sources.items():
            parts = names[name].split(".")
            d = where
            for part in parts[:-1]:
                d = d / part
                d.mkdir(exist_ok=True)
                if not (d / "__init__.py").exists():
                    (d / "__init__.py").write_text("")
            self.paths[name] = d / f"{parts[-1]}.py"
            self.paths[name].write_text(src)
        self.target_arg = str(self.paths["target"].relative_to(self.cwd))
        self.target_path = self.paths["target"]
        self.option_argv = option_argv(prog)
        (self.root / "pyproject.toml").write_text("[tool.rattr]\n" + option_toml(prog))
        (self.cwd / "strict.toml").write_text("[tool.rattr]\nstrict = true\n" + option_toml(prog))

    def fid_of_path(self, p):
        if p is None:
            return None
        try:
            rp = Path(p).resolve()
        except Exception:
            return 99
        for name, q in self.paths.items():
            if q.resolve() == rp:
                return FID[name]
        return 99

    def fid_of_source(self, text):
        for name, src in self.sources.items():
            if src == text:
                return FID[name]
        return None


# ------------------------------------------------------------------------------------------------
# programs
# ------------------------------------------------------------------------------------------------

def _prog(files, simpl=(), layout="flat", names=None, chain=None, options=None):
    p = {"kind": "scoped", "files": {k: list(v) for k, v in files.items()}, "simpl": list(simpl), "layout": layout}
    if names:
        p["names"] = {k: v for k, v in names.items() if k in files}
    if chain:
        p["chain"] = {"hops": chain["hops"], "style": chain.get("style", "from"), "calls": [list(c) for c in chain["calls"]]}
        for f in chain_route(p):
            p["files"].setdefault(f, [])
    if options:
        p["options"] = {"F": list(options.get("F", [])), "x": list(options.get("x", [])), "f": options.get("f"),
                        "via": options.get("via", "cli")}
    return p


def chain_programs(tier="thorough", rng=None, n_random=8):
    """Round 4. Deterministic part: (a) calls that the simplifier resolves through 0, 1 and 2 re-exporting
    modules, for every kind of callee at the end of the chain (missing, @rattr_ignore'd, excluded by -x, defined,
    a lambda, a plain name, classes with / without / missing an initialiser, a stdlib function), with the arity
    errors of imported callees, from a function of the target and from a function of a followed import, with
    `from m import f` and `import m; m.f()`, flat and inside a package; (b) every option that names the culprit
    of a diagnostic, given and not given, on the command line and in the TOML file: -F over an unlocatable
    module (target / followed import / re-exporting module), -F over a module of the chain, -x over a called
    function / class / a function holding diagnostics, -f 0. Then `n_random` random mixes."""
    T, H = "target", "helper"
    base = {"target": ["f_plain"], "helper": []}
    ch = lambda hops, calls, style="from": {"hops": hops, "calls": calls, "style": style}      # noqa: E731
    core = []
    # (a) every callee kind at the second hop, called from the target
    core.append(_prog(base, chain=ch(1, [("missing", "plain", T)])))
    core.append(_prog(base, chain=ch(1, [("ignored", "plain", T), ("ok", "plain", T)])))
    core.append(_prog(base, chain=ch(1, [("cls_missing", "store", T), ("cls_noinit", "store", T), ("cls_init", "store", T)])))
    core.append(_prog(base, chain=ch(1, [("ok", "too_many", T), ("ok", "unexpected_kw", T), ("lam", "too_many", T)])))
    core.append(_prog(base, chain=ch(1, [("var", "plain", T), ("stdlib", "plain", T), ("missing", "method", T)])))
    core.append(_prog(base, chain=ch(1, [("excluded", "plain", T)]), options={"x": [X_XQ]}))
    core.append(_prog(base, chain=ch(1, [("excluded", "plain", T), ("excluded", "too_many", T)])))
    # deeper, shallower, other import style, other caller, package
    core.append(_prog(base, chain=ch(2, [("missing", "plain", T), ("ignored", "plain", T), ("cls_noinit", "store", T)])))
    core.append(_prog(base, chain=ch(0, [("missing", "plain", T), ("ignored", "plain", T), ("ok", "too_many", T)])))
    core.append(_prog(base, chain=ch(1, [("missing", "plain", T), ("ignored", "twice", T)], style="module")))
    core.append(_prog(base, chain=ch(2, [("missing", "plain", T), ("ok", "unexpected_kw", T)], style="module")))
    core.append(_prog(base, chain=ch(1, [("missing", "plain", H), ("ignored", "plain", H), ("ok", "too_many", H)])))
    core.append(_prog(base, chain=ch(2, [("cls_missing", "store", H), ("missing", "plain", T)])))
    core.append(_prog(base, chain=ch(1, [("missing", "plain", T), ("cls_noinit", "store", H)]), layout="package"))
    core.append(_prog({"target": ["f_undefined_name"], "helper": ["f_nested_def"], "facade": ["f_nested_def", "m_del"], "impl": ["f_undefined_name"]},
                      simpl=["call_ignored"], chain=ch(1, [("missing", "plain", T), ("ok", "plain", T)])))
    # (b) -F over unlocatable modules: written in the target, in the followed import, in a re-exporting module
    FL = {"F": [F_LEGACY]}
    core.append(_prog({"target": list(UNLOCATABLE), "helper": []}, options=FL))
    core.append(_prog({"target": ["f_plain"], "helper": ["m_import_unlocatable", "m_from_unlocatable"]}, options=FL))
    core.append(_prog({"target": ["m_del"], "helper": [], "facade": ["m_import_unlocatable_dotted"]},
                      chain=ch(1, [("ok", "plain", T)]), options=FL))
    core.append(_prog({"target": ["m_import_unlocatable", "f_undefined_name"], "helper": ["m_from_unlocatable"]},
                      simpl=["stdlib_call"], options={**FL, "via": "toml"}))
    core.append(_prog({"target": ["f_plain"], "tstar": ["m_import_unlocatable"]}, options=FL))
    core.append(_prog({"target": ["m_import_unlocatable", "f_nested_def"], "helper": []}, options={"F": [F_LEGACY], "f": 0}))
    core.append(_prog({"target": ["m_from_unlocatable"], "helper": ["f_nested_def"]}))          # not excluded: fatal
    # -F over a module that exists: the end of the chain / the re-exporting module / the followed import
    core.append(_prog(base, chain=ch(1, [("missing", "plain", T), ("ok", "too_many", T)]), options={"F": ["^impl$"]}))
    core.append(_prog(base, chain=ch(1, [("missing", "plain", T), ("ignored", "plain", H)]), options={"F": ["^facade$"], "via": "toml"}))
    core.append(_prog({"target": ["f_undefined_name"], "helper": ["f_nested_def"]}, simpl=["call_ignored", "too_many_args"],
                      options={"F": ["^helper$"]}))
    # -x over the culprit
    XQ = {"x": [X_XQ]}
    core.append(_prog({"target": ["f_call_excluded", "f_init_excluded", "f_excluded_nested_def", "f_excluded_global"], "helper": []}, options=XQ))
    core.append(_prog({"target": ["f_excluded_global", "f_call_excluded"], "helper": []}))                 # not excluded: fatal
    core.append(_prog({"target": ["f_call_excluded", "f_init_excluded", "f_excluded_nested_def", "f_excluded_undefined_name"],
                       "helper": ["f_excluded_nested_def"]}))
    core.append(_prog({"target": ["f_excluded_undefined_name"], "helper": ["f_excluded_nested_def", "f_excluded_global"]},
                      options={**XQ, "via": "toml"}))
    # -f 0: nothing is followed
    core.append(_prog({"target": ["f_undefined_name"], "helper": ["f_nested_def"]}, simpl=["call_ignored", "too_many_args", "local_too_many"],
                      chain=ch(1, [("missing", "plain", T)]), options={"f": 0}))
    core.append(_prog({"target": ["m_del"], "helper": ["f_nested_def"]}, simpl=["import_missing_name"], options={"f": 0, "via": "toml"}))
    rnd = [gen_chain_program(rng) for _ in range(n_random)] if rng is not None else []
    return core, rnd


def gen_chain_program(rng):
    """Random mix: a chain of 0-2 hops with 1-4 calls, 0-2 option-sensitive constructs per file, ordinary
    constructs, and a random option state (each option given or not, whatever the constructs need)."""
    files = {"target": [], "helper": []} if rng.random() < 0.85 else {"target": []}
    if rng.random() < 0.3:
        files["tstar"] = []
    steady = [k for k in MODULE_MENU if k not in ENDING and k not in OPTION_MENU]
    weighted = list(WEIGHTED_ROOT) + ["f_undefined_name", "f_nested_def", "f_class_not_stored", "f_lambda_in_function"]
    chain = None
    if rng.random() < 0.75:
        callees = list(CHAIN_CALLEES)
        calls = []
        for _ in range(rng.randint(1, 4)):
            c = rng.choice(callees) if rng.random() < 0.6 else rng.choice(["missing", "ignored", "excluded", "cls_noinit", "cls_missing"])
            shape = "store" if c.startswith("cls") and rng.random() < 0.8 else rng.choice(list(CHAIN_SHAPES))
            calls.append((c, shape, rng.choice(["target", "target", "helper"])))
        chain = {"hops": rng.choice([0, 1, 1, 1, 2, 2]), "style": "module" if rng.random() < 0.25 else "from", "calls": calls}
        for f in CHAIN_ROUTE[:chain["hops"]] + ("impl",):
            files[f] = []
    for name in files:
        for _ in range(rng.randint(0, 2)):
            r = rng.random()
            files[name].append(rng.choice(list(OPTION_MENU)) if r < 0.4 else rng.choice(weighted) if r < 0.75 else rng.choice(steady))
    kinds = [k for ks in files.values() for k in ks]
    needs_f = any(k in UNLOCATABLE for k in kinds)
    needs_x = any("excluded" in k for k in kinds) or bool(chain and any(c[0] == "excluded" for c in chain["calls"]))
    opts = {"F": [], "x": [], "f": None, "via": "toml" if rng.random() < 0.25 else "cli"}
    if rng.random() < (0.85 if needs_f else 0.15):
        opts["F"].append(F_LEGACY)
    if rng.random() < (0.6 if needs_x else 0.1):
        opts["x"].append(X_XQ)
    if rng.random() < 0.15:
        opts["F"].append("^" + rng.choice([f for f in files if f != "target"] or ["helper"]) + "$")
    if rng.random() < 0.1:
        opts["f"] = 0
    if not (opts["F"] or opts["x"] or opts["f"] is not None):
        opts = None
    simpl = [rng.choice(list(dc.SIMPL_MENU)) for _ in range(rng.randint(0, 2))] if "helper" in files else []
    layout = "package" if rng.random() < 0.2 else "flat"
    return _prog(files, simpl, layout, chain=chain, options=opts)


def fixed_programs(tier="thorough", rng=None, n_rotating=10):
    """Deterministic part. `core` (every tier): every weighted / run-ending root-context construct in the
    module the target star-imports and one and two levels further away; every walrus form in the target
    and the weighted / run-ending ones in the followed import; the annotation-parser fatals; the nested
    function-level scopes; mixes around the boundary. `rest`: the remaining (construct, file) pairs —
    all of them in the thorough tier, a seed-dependent sample of `n_rotating` in the quick tier."""
    walrus = [k for k in MODULE_MENU if k.startswith("m_walrus")]
    results = [k for k in MODULE_MENU if k.startswith("m_results")]
    fnlevel = ["f_comp_fatal", "f_lambda_fatal", "f_comp_error", "f_nested_def_fatal", "f_global", "f_init_fatal"]
    root_ending = ["m_lambda_pair", "m_toplevel_lambda", "m_rel_import", "m_import_missing"]
    in_star = lambda k: _prog({"target": ["f_undefined_name"], "helper": [], "tstar": [k]})                 # noqa: E731
    in_target = lambda k: _prog({"target": [k], "helper": ["f_undefined_name"], "tstar": ["m_del"]})        # noqa: E731
    in_helper = lambda k: _prog({"target": ["f_plain"], "helper": [k]})                                    # noqa: E731
    in_hstar = lambda k: _prog({"target": ["f_plain"], "helper": ["f_plain"], "hstar": [k]})               # noqa: E731
    in_star2 = lambda k: _prog({"target": ["m_del"], "tstar": ["f_plain"], "tstar2": [k]})                 # noqa: E731
    core = [in_star(k) for k in list(WEIGHTED_ROOT) + root_ending[:3]]
    core += [in_star2(k) for k in WEIGHTED_ROOT]
    core += [in_hstar(k) for k in ("m_bad_namedtuple", "m_del")]
    core += [in_target(k) for k in walrus + results + fnlevel]
    core += [in_helper(k) for k in ("m_walrus_lambda_error", "m_walrus_lambda_fatal", "m_walrus_bad_namedtuple",
                                    "m_walrus_nested_error", "m_walrus_tuple_error", "m_walrus_tuple_fatal",
                                    "m_results_uneval", "m_results_dup")]
    # boundary mixes: weighted diagnostics of the target next to weighted ones of every other file
    core.append(_prog({"target": ["m_del", "f_undefined_name"], "helper": ["m_bad_namedtuple"], "tstar": ["m_bad_namedtuple", "m_del"],
                       "hstar": ["m_toplevel_expr"], "tstar2": ["m_del"]}, simpl=["stdlib_call"]))
    core.append(_prog({"target": ["m_multi_import"], "helper": ["m_walrus_lambda_error"], "tstar": ["m_walrus_bad_namedtuple"]}))
    core.append(_prog({"target": ["m_walrus_lambda_error", "m_walrus_lambda_warning"], "helper": ["m_walrus_lambda_warning"],
                       "tstar": ["m_toplevel_expr"]}, simpl=["call_ignored"]))
    core.append(_prog({"target": [], "tstar": ["m_del", "m_del", "m_toplevel_expr"], "tstar2": ["m_bad_namedtuple"]}))
    # the same through relative star imports inside a package
    core += [_prog({"target": ["f_undefined_name"], "helper": [], "tstar": [k]}, layout="package") for k in ("m_del", "m_bad_namedtuple")]
    core.append(_prog({"target": ["m_del"], "helper": ["f_plain"], "hstar": ["m_toplevel_expr"], "tstar": ["f_plain"],
                       "tstar2": ["m_walrus_bad_namedtuple"]}, layout="package"))
    core += [_prog({"target": ["f_plain"], "helper": [k]}, layout="package") for k in ("m_walrus_lambda_fatal", "m_walrus_lambda_error")]
    core.append(_prog({"target": ["m_walrus_tuple_fatal"], "helper": ["f_undefined_name"], "tstar": ["m_del"]}, layout="package"))
    # star imports of modules without Python source: in the target, in the followed import, and in the
    # module the target star-imports (expanded while the *target's* star imports are expanded)
    core += [mk(k) for k in STAR_NO_SOURCE for mk in (in_target, in_helper)] + [in_star("m_star_math")]
    core.append(_prog({"target": ["m_star_math", "m_star_sys", "m_del"], "helper": ["m_star_sys"], "tstar": ["m_del"]}))
    # near-miss file names
    for names in NEAR_MISS_NAMES:
        core.append(_prog({"target": ["f_undefined_name"], "helper": ["f_undefined_name", "f_nested_def"], "tstar": ["m_del"]}, names=names))
    core.append(_prog({"target": ["m_del"], "helper": ["m_bad_namedtuple"], "hstar": ["m_del"], "tstar": ["f_plain"], "tstar2": ["m_toplevel_expr"]},
                      names=NEAR_MISS_NAMES[0]))
    core.append(_prog({"target": ["m_del"], "helper": ["m_walrus_lambda_error"], "hstar": ["m_del"]}, names=NEAR_MISS_NAMES[1]))
    seen = {__import__("json").dumps(p, sort_keys=True) for p in core}
    rest = []
    special = [k for k in MODULE_MENU if not (k.startswith("f_") and k[2:] in dc.ANALYSIS_MENU)]
    for k in special:
        for mk in (in_star, in_target, in_helper):
            rest.append(mk(k))
    for k in list(WEIGHTED_ROOT) + walrus + root_ending + ["m_lambda_fatal", "m_lambda_error", "m_results_uneval", "f_comp_fatal"]:
        rest.append(in_hstar(k))
        rest.append(in_star2(k))
    rest = [p for p in rest if __import__("json").dumps(p, sort_keys=True) not in seen]
    pk = [dict(p, layout="package") for p in rest if not any("m_rel_import" in ks for ks in p["files"].values())]
    rest = rest + pk[::3]
    if tier == "quick":
        rest = rng.sample(rest, min(n_rotating, len(rest))) if rng is not None else []
    return core, rest


def gen_program(rng):
    """Random project: which files exist, 0-3 constructs per file (biased to weighted root-context
    and walrus constructs), at most one construct that can end the run."""
    files = {"target": []}
    if rng.random() < 0.8:
        files["helper"] = []
    if rng.random() < 0.75:
        files["tstar"] = []
        if rng.random() < 0.4:
            files["tstar2"] = []
    if "helper" in files and rng.random() < 0.4:
        files["hstar"] = []
    steady = [k for k in MODULE_MENU if k not in ENDING]
    heavy = list(WEIGHTED_ROOT) + list(STAR_NO_SOURCE) + ["m_walrus_lambda_error", "m_walrus_lambda_warning", "m_walrus_nested_error",
                                   "m_walrus_tuple_error", "m_lambda_error"]
    for name in files:
        for _ in range(rng.randint(0, 3)):
            files[name].append(rng.choice(heavy) if rng.random() < 0.6 else rng.choice(steady))
    if rng.random() < 0.3:
        name = rng.choice(list(files))
        files[name].insert(rng.randint(0, len(files[name])), rng.choice(ENDING))
    simpl = [rng.choice(list(dc.SIMPL_MENU)) for _ in range(rng.randint(0, 2))] if "helper" in files else []
    layout = "package" if rng.random() < 0.35 else "flat"
    if layout == "package":
        # an unresolvable relative import inside a package is a crash of the pinned code (C07, K8), not a diagnostic
        files = {f: [k for k in ks if k != "m_rel_import"] for f, ks in files.items()}
    names = rng.choice(NEAR_MISS_NAMES) if layout == "flat" and rng.random() < 0.3 else None
    return _prog(files, simpl, layout, names)


# ------------------------------------------------------------------------------------------------
# the scope tap
# ------------------------------------------------------------------------------------------------

_SCOPE_INDEX = None


def scope_index():
    """rel path -> list of scope dicts (tables/scopescan.py), for the frame walk."""
    global _SCOPE_INDEX
    if _SCOPE_INDEX is None:
        from tables import scopescan
        from tables.diagscan import repo_root
        idx = {}
        for s in scopescan.scopes():
            idx.setdefault(s["file"], []).append(s)
        _SCOPE_INDEX = (str(repo_root()) + os.sep, idx, [s["id"] for v in idx.values() for s in v])
    return _SCOPE_INDEX


REEMITTING = "reraises-reemitting-captured-stderr"


def filtered_families():
    """Message families that a re-emitting handler of the code under test filters out (from the scan)."""
    return [s["shape"][0] for v in scope_index()[1].values() for s in v
            if s["kind"] == "try" and s["verdict"] == REEMITTING and s.get("shape")]


def in_reemitting_handler(frame):
    """Is some frame from `frame` outwards executing the *handler body* of a re-emitting try? (the
    diagnostic raised there is the handler's replacement fatal: the model derives it itself)"""
    root, idx, _ = scope_index()
    while frame is not None:
        fn = frame.f_code.co_filename
        if fn.startswith(root):
            rel = fn[len(root):].replace(os.sep, "/")
            for s in idx.get(rel, ()):
                if s["kind"] == "try" and s["verdict"] == REEMITTING and s["handler_first"] <= frame.f_lineno <= s["handler_last"]:
                    return True
        frame = frame.f_back
    return False


def all_scope_ids():
    return list(scope_index()[2])


def active_scopes(frame):
    """Ids of the scopes of rattr/**.py active in the frames from `frame` outwards; outermost first."""
    root, idx, _ = scope_index()
    inner_first = []
    while frame is not None:
        fn = frame.f_code.co_filename
        if fn.startswith(root):
            rel = fn[len(root):].replace(os.sep, "/")
            line = frame.f_lineno
            # outer -> inner inside one function: earlier first line, later last line, and for the
            # items of one `with a, b:` (same body) source order
            here = [(s["first"], -s["last"], k, s["id"]) for k, s in enumerate(idx.get(rel, ())) if s["first"] <= line <= s["last"]]
            inner_first.extend(t[3] for t in sorted(here, reverse=True))
        frame = frame.f_back
    return list(reversed(inner_first))


def _patch_everywhere(stack, orig, wrapper):
    """Replace `orig` in every rattr module namespace that holds it. -> number of bindings."""
    n = 0
    for name, m in list(sys.modules.items()):
        if m is None or not (name == "rattr" or name.startswith("rattr.")):
            continue
        for k, v in list(vars(m).items()):
            if v is orig:
                stack.enter_context(mock.patch.dict(vars(m), {k: wrapper}))
                n += 1
    return n


class ScopeTap:
    """dc.DiagTap plus the trace. `steps` is the run in order: {"t": "enter", "f": fid} /
    {"t": "leave"} / {"t": "abandon"} / {"t": "diag", "ev": index into `events`}; every event gets
    `cur` (file id of state.current_file), `scope_file` (file being analysed), `line_file`
    (file by culprit line), `scopes` (ids, outermost first)."""

    def __init__(self, project: ScopedProject):
        self.project = project
        self.tap = dc.DiagTap()
        self.steps = []
        self.notes = []
        self._visit = []
        self._trees = {}
        self._keep = []
        self._depth = 0
        self._stack = contextlib.ExitStack()

    # the DiagTap interface used by callers
    @property
    def events(self):
        return self.tap.events

    @property
    def printed(self):
        return self.tap.printed

    @property
    def stderr(self):
        return self.tap.stderr

    def __enter__(self):
        self._stack.enter_context(self.tap)
        tap, me, project = self.tap, self, self.project
        pkg = sys.modules["rattr.error"]
        mod = sys.modules["rattr.error.error"]

        # --- level functions: outermost wrapper, records what only the call site knows
        def wrap(level, inner):
            def wrapper(message, culprit=None, *a, **kw):
                top = me._depth == 0
                me._depth += 1
                if top:
                    n = len(tap.events)
                    inst = dc.current_config()
                    cur = project.fid_of_path(inst.state.current_file) if inst is not None else None
                    line_file = None
                    lineno = getattr(culprit, "lineno", None) if isinstance(culprit, ast.AST) else \
                        getattr(getattr(culprit, "location", None), "lineno", None)
                    if lineno:
                        k = lineno // PAD
                        line_file = k if k < len(FILES) else 99
                    caller = sys._getframe(1)
                    extra = dict(cur=cur, scope_file=me._visit[-1] if me._visit else None, line_file=line_file,
                                 raiser=getattr(caller.f_code, "co_qualname", caller.f_code.co_name),
                                 scopes=active_scopes(sys._getframe(1)),
                                 derived=in_reemitting_handler(sys._getframe(1)),
                                 filtered=any(f in str(message) for f in filtered_families()))
                    me.steps.append({"t": "diag", "ev": n})
                try:
                    return inner(message, culprit, *a, **kw)
                finally:
                    me._depth -= 1
                    if top:
                        if len(tap.events) > n:
                            tap.events[n].update(extra)
                        else:
                            me.notes.append("level function called without a tapped event")
            return wrapper

        for lvl in dc.LEVELS:
            w = wrap(lvl, mod.__dict__[lvl])
            self._stack.enter_context(mock.patch.dict(mod.__dict__, {lvl: w}))
            self._stack.enter_context(mock.patch.object(pkg, lvl, w))

        # --- enter_file blocks
        import rattr.config.state as state_mod
        orig_enter = state_mod.enter_file

        class EnterFile:
            def __init__(self, inner, fid):
                self.inner, self.fid = inner, fid

            def __enter__(self):
                me.steps.append({"t": "enter", "f": self.fid})
                return self.inner.__enter__()

            def __exit__(self, et, ev, tb):
                try:
                    return self.inner.__exit__(et, ev, tb)
                finally:
                    me.steps.append({"t": "leave" if et is None else "abandon"})

        def enter_file(new_file):
            return EnterFile(orig_enter(new_file), project.fid_of_path(new_file))

        self.bound_enter_file = _patch_everywhere(self._stack, orig_enter, enter_file)

        # --- which file's AST is being analysed
        orig_parse = ast.parse

        def parse(source, *a, **kw):
            tree = orig_parse(source, *a, **kw)
            if isinstance(source, str) and len(source) > 40:
                fid = project.fid_of_source(source)
                if fid is not None:
                    me._trees[id(tree)] = fid
                    me._keep.append(tree)
            return tree

        self._stack.enter_context(mock.patch.object(ast, "parse", parse))

        import rattr.models.context._root_context as rc_mod
        import rattr.analyser.file as file_mod
        orig_crc = rc_mod.compile_root_context

        def compile_root_context(module, *a, **kw):
            me._visit.append(me._trees.get(id(module)))
            try:
                return orig_crc(module, *a, **kw)
            finally:
                me._visit.pop()

        self.bound_crc = _patch_everywhere(self._stack, orig_crc, compile_root_context)
        orig_analyse = file_mod.FileAnalyser.analyse

        def analyse(fa, *a, **kw):
            me._visit.append(me._trees.get(id(fa._ast)))
            try:
                return orig_analyse(fa, *a, **kw)
            finally:
                me._visit.pop()

        self._stack.enter_context(mock.patch.object(file_mod.FileAnalyser, "analyse", analyse))
        return self

    def __exit__(self, *exc):
        self._stack.close()
        return False


def run_inprocess(project: ScopedProject, argv):
    """dc.run_inprocess with the ScopeTap. Adds `steps` and `notes`."""
    import rattr.__main__ as main_mod  # noqa
    from rattr.cli import parse_arguments

    old_home = os.environ.get("HOME")
    os.environ["HOME"] = str(project.home)
    out = io.StringIO()
    try:
        with impl.in_dir(str(project.cwd)):
            dc.drop_config()
            impl.clear_caches_fast()
            with ScopeTap(project) as tap, contextlib.redirect_stdout(out):
                def go():
                    args = parse_arguments(sys_args=list(argv))
                    cfg = Config(arguments=args, state=State())
                    return main_mod.main(cfg)

                oc = impl.outcome_of(go)
            inst = dc.current_config()
            buckets = None
            if inst is not None:
                st = inst.state
                buckets = [st.badness_from_target_file, st.badness_from_imports, st.badness_from_simplification]
    finally:
        if old_home is None:
            os.environ.pop("HOME", None)
        else:
            os.environ["HOME"] = old_home
        dc.drop_config()
    code = oc[1] if oc[0] in ("ok", "fatal") else "crash:" + oc[1]
    lines, junk = dc.parse_stderr(tap.stderr)
    notes = list(tap.notes)
    if tap.bound_enter_file < 2 or tap.bound_crc < 2:
        notes.append(f"tap bound enter_file in {tap.bound_enter_file} and compile_root_context in {tap.bound_crc} namespaces")
    return {"exit": code, "stdout": out.getvalue(), "events": tap.events, "printed": tap.printed, "buckets": buckets,
            "outcome": list(oc[:2]), "lines": lines, "crash": oc if oc[0] == "crash" else None,
            "steps": tap.steps, "notes": notes}


# ------------------------------------------------------------------------------------------------
# from a tapped run to the model's input
# ------------------------------------------------------------------------------------------------

NESTED_STAR = "star-expansion-error-of-a-nested-star-import"
STAR_DESCENDANTS_OF_TARGET = (FID["tstar"], FID["tstar2"])


def is_nested_star_expansion_error(ev):
    """A diagnostic that `Context.expand_starred_imports` raises itself (culprit: the starred Import
    symbol) about a star import written in a module that the target star-imports. The expansion
    loop handles the star imports found in star-imported modules in the same loop, outside every
    enter_file block, so `current_file` is still the file whose expansion started the loop.
    (Which function raised it, what the culprit is and which file the statement is in: facts about
    the input and the call site, none about what the implementation answers.)"""
    return (ev["stage"] == "analysis" and ev["culprit"] == "symbol" and ev.get("raiser") == "Context.expand_starred_imports"
            and ev.get("line_file") in STAR_DESCENDANTS_OF_TARGET)


def src_of(ev):
    """-> (file id | None, attributed?). Where the diagnostic REALLY arose, never from
    `state.current_file`: simplification stage -> no file; during analysis the file of the culprit's
    line (an AST node, or a symbol's location: the statement that declared it), else the file whose
    AST is being analysed. Unattributable -> what the code says."""
    if ev["stage"] == "simplification":
        return None, True
    if is_nested_star_expansion_error(ev):
        # known finding (see known_findings.json): reported per diagnostic by `event_violations`; for the
        # run-level oracles the diagnostic stays where the pinned code books it, so that they keep
        # judging everything else in such a program
        return ev.get("cur"), False
    if ev["stage"] == "analysis":
        if ev["culprit"] in ("ast", "symbol") and ev.get("line_file") is not None:
            return ev["line_file"], True
        if ev.get("scope_file") is not None:
            return ev["scope_file"], True
    return ev.get("cur"), False


def place_of(fid):
    return "simplification" if fid is None else "target" if fid == 0 else "import"


def model_steps(run):
    """The trace in the driver's format (analysis + simplification stages only)."""
    out = []
    evs = run["events"]
    for s in run["steps"]:
        if s["t"] != "diag":
            out.append(dict(s))
            continue
        e = evs[s["ev"]] if s["ev"] < len(evs) else None
        if e is None or e["stage"] not in ("analysis", "simplification") or e.get("derived"):
            continue        # (derived: the replacement fatal of a re-emitting handler — the model raises it itself)
        src, _ = src_of(e)
        out.append({"t": "diag", "level": e["level"], "badness": e["badness"], "src": src,
                    "filtered": bool(e.get("filtered")), "scopes": e.get("scopes", [])})
    return out


def diag_only(steps):
    return [s for s in steps if s["t"] == "diag"]


# ------------------------------------------------------------------------------------------------
# round 4: the two import-following loops against their Lean models (SimplResolve.resolve / walkOne)
# ------------------------------------------------------------------------------------------------

def serials(prog):
    """(file, kind, n) of every menu construct, numbered as `render` numbers them."""
    out, n = [], 0
    for name in [f for f in FILES if f in prog["files"]]:
        for k in prog["files"][name]:
            n += 1
            out.append((name, k, n))
        if name == "target" and "helper" in prog["files"]:
            n += len(prog.get("simpl", []))
    return out


def _full_name(prog, role):
    return ("pkg." if prog.get("layout") == "package" else "") + module_names(prog)[role]


def _blacklisted(prog, module):
    import re
    return any(re.fullmatch(p, module) for p in (prog.get("options") or {}).get("F", []))


def _follow(prog):
    return (prog.get("options") or {}).get("f") != 0


def _checks(prog, module, stdlib=False):
    return {"moduleKnown": True, "blacklisted": (not stdlib) and _blacklisted(prog, module), "followLocal": _follow(prog),
            "skipPip": False, "skipStdlib": stdlib, "hasIr": True}


def model_jobs(prog, dry):
    """What the program itself says about the resolutions and walk elements it contains -> list of
    {"what", "op", "payload", "times", "token", "raiser"}: the model input is derived from the program and its
    options only (which modules exist, which patterns match them, what the last module holds for the name)."""
    import re
    if any(e["level"] == "fatal" for e in dry["events"]):
        return []          # the run ended before (or inside) the loops
    jobs = []
    o = prog.get("options") or {}
    files = prog["files"]
    helper_followed = "helper" in files and _follow(prog) and not _blacklisted(prog, _full_name(prog, "helper"))
    ch = prog.get("chain")
    if ch:
        route = chain_route(prog)
        module_style = ch.get("style") == "module" and prog.get("layout") != "package"
        for i, call in enumerate(ch["calls"]):
            callee, shape, caller = call
            n = 900 + i
            f = chain_name(call, n)
            who = "helper" if caller == "helper" and "helper" in files else "target"
            if who == "helper":
                # the call of the target into the followed import, resolved through one module
                jobs.append({"what": f"h_c{n}", "op": "diag_resolve", "token": f"h_c{n}", "raiser": "resolve_import", "times": 1,
                             "payload": {"hops": [_checks(prog, _full_name(prog, "helper"))], "final": {"kind": "callable", "flag": True}}})
                if not helper_followed:
                    jobs.append({"what": f, "op": None, "token": f, "raiser": "resolve_import", "times": 0, "expect": []})
                    continue
            if callee == "stdlib":
                mods = [(_full_name(prog, r), False) for r in route[:-1]] + [("math", True)]
                final = {"kind": "other", "flag": False}
            else:
                mods = [(_full_name(prog, r), False) for r in route]
                x_given = any(re.fullmatch(p, f) for p in o.get("x", []))
                final = {"missing": ("absent", False), "cls_missing": ("absent", False), "ignored": ("callable", False),
                         "excluded": ("callable", not x_given), "ok": ("callable", True), "lam": ("callable", True),
                         "cls_init": ("callable", True), "cls_noinit": ("callable", False), "var": ("other", False)}[callee]
                final = {"kind": final[0], "flag": final[1]}
            hops = [_checks(prog, m, std) for m, std in mods]
            if shape == "method":
                if not (module_style and not (callee == "stdlib" and len(route) == 1)):
                    continue        # `name.meth()` on an imported *name*: no import resolution is modelled for it
                hops, final = hops[:1], {"kind": "absent", "flag": True}      # the dotted name is looked up in the first module
            jobs.append({"what": f, "op": "diag_resolve", "token": f, "raiser": "resolve_import",
                         "times": 2 if shape == "twice" else 1, "payload": {"hops": hops, "final": final}})
    # unlocatable modules named by -F, written in a file whose imports the walk queues
    queued = {"target": True, "helper": helper_followed}
    for name, kind, n in serials(prog):
        if kind in UNLOCATABLE and name in queued:
            module = f"legacy_{PREFIX[name]}{n}"
            if not _blacklisted(prog, module) and not _blacklisted(prog, module + f".sub{n}"):
                continue      # (not excluded: make_import_symbol ends the run — a fatal, handled above)
            if not (queued[name] and _follow(prog)):
                jobs.append({"what": module, "op": None, "token": module, "raiser": "parse_and_analyse_imports", "times": 0, "expect": []})
                continue
            jobs.append({"what": module, "op": "diag_walk", "token": module, "raiser": "parse_and_analyse_imports", "times": 1,
                         "payload": {"nameKnown": False, "specKnown": False, "hasOrigin": False, "builtinLoader": False, "seen": False,
                                     "blacklisted": True, "skipPip": False, "skipStdlib": False}})
    return jobs


def observed_for(job, events):
    import re
    pat = re.compile(r"(?<![A-Za-z0-9_])" + re.escape(job["token"]) + r"(?![A-Za-z0-9_])")
    return [[e["level"], e["badness"], e["where"]] for e in events
            if e.get("raiser") == job["raiser"] and pat.search(e["message"])]


def judge_models(res, rec, outs):
    """Model (SimplResolve) vs implementation on the resolutions / walk elements of one program."""
    prog = rec["prog"]
    case = {**rec["case_base"], "cfg": dict(strict=False, threshold=0, warn="all", H=False, T=False)}
    for job, mo in zip(rec["model_jobs"], outs):
        obs = observed_for(job, rec["dry"]["events"])
        if job["op"] is None:
            want = []
        elif mo is None or "__error__" in mo:
            res.disagreements.append({"case": case, "what": job["what"], "model": mo})
            continue
        elif job["op"] == "diag_resolve":
            if mo["outcome"] == "import-error":
                res.internal_errors.append({"what": "a generated chain ends in an ImportError according to the model (outside the fragment)", "program": prog})
                continue
            want = [[lv, b, l] for (lv, b), l in zip(mo["reports"], mo["locs"])] * job["times"]
            if not mo["inOwnFile"] or any(l != "simplification" for l in mo["locs"]):
                res.internal_errors.append({"what": "SimplResolve: a resolution placed outside the simplification stage (contradicts C15_resolve_booked_to_simplification)", "program": prog})
        else:
            want = [[mo["level"], mo["badness"], "target"]] if mo["t"] == "report" else []
        res.count(f"scoped:model:{job['op'] or 'not-reached'}:{'+'.join(w[0] for w in want) or 'silent'}")
        if obs != want:
            res.disagreements.append({"case": case, "fields": [f"{job['raiser']}:{job['what']}"], "impl": obs, "model": want,
                                      "model_input": job.get("payload")})


# ------------------------------------------------------------------------------------------------
# prepare / judge (called from props/c15.py)
# ------------------------------------------------------------------------------------------------

BUCKET_IX = {"target": 0, "import": 1, "simplification": 2}
EV_KEYS = ("level", "badness", "where", "stage", "line", "message", "before", "after", "cur", "scope_file", "line_file", "scopes",
           "derived", "filtered", "raiser")

# scopes under which the fixed programs must end a run (suffix of the id -> kinds of ending):
# "fatal" = a fatal diagnostic, "strict" = a weighted error promoted under strict mode
EXPECT_ENDING = {
    "file.py::parse_and_analyse_file::with enter_file#0": ("fatal", "strict"),
    "file.py::parse_and_analyse_imports::with enter_file#0": ("fatal", "strict"),
    # since /repo 150f7d8 the two expansion errors have their own enter_file blocks (#0: origin unknown, #1: no Python
    # source); #2 is the block the star-imported file's root context is compiled under
    "_context.py::Context.expand_starred_imports::with enter_file#1": ("strict",),
    "_context.py::Context.expand_starred_imports::with enter_file#2": ("fatal", "strict"),
    "file.py::FileAnalyser.visit_AnyAssign::with DictChanges#0": ("fatal", "strict"),
    "_root_context.py::RootContextBuilder.visit_assignment::with DictChanges#0": ("strict",),
    "util.py::parse_rattr_results_from_annotation_args_impl::with redirect_stderr#0": ("fatal",),
    "util.py::parse_rattr_results_from_annotation_args_impl::except SystemExit#0": ("fatal",),
    "function.py::FunctionAnalyser.analyse::with new_context#0": ("fatal", "strict"),
    "function.py::FunctionAnalyser.visit_AnyFunctionDef::with new_context#0": ("fatal",),
    "function.py::FunctionAnalyser._visit_any_comprehension_or_generator_expr::with new_context#0": ("fatal", "strict"),
    "file.py::__parse_and_analyse_file_impl::with timer#1": ("fatal", "strict"),
    "file.py::__parse_and_analyse_file_impl::with timer#3": ("fatal", "strict"),
    "file.py::__parse_and_analyse_file_impl::with timer#4": ("fatal", "strict"),
}
# scopes no diagnostic can be raised under from the command line, with the reason
NO_DIAGNOSTIC_INSIDE = {
    "file.py::__parse_and_analyse_file_impl::with timer#0": "only ast.parse of the target (a SyntaxError is a crash, not a diagnostic)",
    "file.py::__parse_and_analyse_file_impl::with read#0": "only ast.parse of the target",
    "file.py::__parse_and_analyse_file_impl::with timer#2": "assertors: none is registered by the command line",
    "file.py::parse_and_analyse_imports::with read#0": "only ast.parse of the import",
    "util.py::read.__enter__::with open#0": "file read",
    "hash.py::hash_python_objects_type_and_source_files::with obj_source_file.open#0": "cache hashing (-o results/stats never hashes)",
    "hash.py::hash_file_content::with open#0": "cache hashing",
    "import_clobbering.py::ImportClobberingAssertor.visit_ClassDef::with self.enter_class_name#0": "assertor not registered by the command line",
}


def selected_output(stdout: str) -> bool:
    """Is anything other than diagnostic lines on stdout? (a diagnostic line there is reported on its
    own, signature `diagnostic-line-on-stdout`; it is not the selected output)"""
    return any(raw.strip() and not dc.LINE_RE.match(raw) for raw in stdout.splitlines())


def stdout_diag_lines(stdout: str):
    return [m.group("level") for m in (dc.LINE_RE.match(raw) for raw in stdout.splitlines()) if m]


def event_violations(ev):
    out = []
    lvl, b = ev["level"], ev["badness"]
    doc = {"info": 0, "warning": 1, "error": 5, "fatal": 0}[lvl]
    if b != doc and not (b == 0 and ev["message"].startswith("unable to resolve builtin module")):
        # (the call site is part of the class: the same weight at another site is another defect)
        out.append(f"undocumented-weight:{lvl}:{b}" + (f"@{ev['raiser']}" if ev.get("raiser") else ""))
    src, attributed = src_of(ev)
    a = place_of(src) if attributed else None
    tag = ""
    if is_nested_star_expansion_error(ev):
        a, tag = place_of(ev["line_file"]), ":" + NESTED_STAR
    if a is not None and ev["where"] is not None and a != ev["where"]:
        out.append(f"bucket-of-diagnostic:arose-in-{a}-counted-as-{ev['where']}{tag}")
    if ev["before"] is not None and ev["after"] is not None and ev["where"] is not None:
        delta = [y - x for x, y in zip(ev["before"], ev["after"])]
        want = [0, 0, 0]
        want[BUCKET_IX[a or ev["where"]]] = b
        if delta != want:
            if sum(delta) == 0 and sum(want) > 0:
                out.append(f"weight-not-added:{lvl}:{a or ev['where']}")
            elif sum(delta) == sum(want):
                got = [k for k, i in BUCKET_IX.items() if delta[i]]
                out.append(f"weight-added-to-wrong-bucket:{lvl}:{a or ev['where']}->{'+'.join(got)}{tag}")
            else:
                out.append(f"weight-added-differs:{lvl}:{a or ev['where']}:{sum(delta)}-for-{sum(want)}")
    return out


def configs_for(total, rng):
    ws = [rng.choice(dc.WARN) for _ in range(5)]
    cfgs = [
        dict(strict=False, threshold=0, warn=ws[0], H=False, T=False, via_toml=False),
        dict(strict=False, threshold=total, warn=ws[1], H=False, T=False, via_toml=False, explicit_threshold=(total == 0)),
        dict(strict=False, threshold=max(total - 1, 0), warn=ws[2], H=False, T=False, via_toml=False, explicit_threshold=(total <= 1)),
        dict(strict=True, threshold=0, warn=ws[3], H=False, T=False, via_toml=False),
        dict(strict=True, threshold=total + 1, warn=ws[4], H=False, T=False, via_toml=True),
    ]
    return cfgs


def prepare(res, project, prog, rng, pidx, c15):
    case_base = {"program": prog, "layout": "scoped"}
    dry_cfg = dict(strict=False, threshold=0, warn="all", H=False, T=False)
    dry = run_inprocess(project, c15.argv_of(dry_cfg, project, "results"))
    for note in dry["notes"]:
        res.internal_errors.append({"what": "scope tap: " + note, "program": prog})
    if dry["crash"] is not None:
        res.skipped_outside_fragment += 1
        res.count("scoped:skipped:dry-run-crash:" + str(dry["crash"][1]))
        return None
    if any(e["stage"] not in ("analysis", "simplification") or e["where"] is None for e in dry["events"]):
        res.skipped_outside_fragment += 1
        res.count("scoped:skipped:diagnostic-outside-analysis-stages")
        return None
    res.count(f"scoped:layout:{prog.get('layout', 'flat')}")
    res.count("scoped:files:" + "+".join(f for f in FILES if f in prog["files"]))
    for name, kinds in prog["files"].items():
        for k in kinds:
            res.count(f"scoped:construct:{k}@{name}")
    o = prog.get("options") or {}
    res.count("scoped:options:" + ("+".join(["-F"] * bool(o.get("F")) + ["-x"] * bool(o.get("x")) + ["-f0"] * (o.get("f") == 0)) or "none")
              + (":toml" if o.get("via") == "toml" else ""))
    if prog.get("chain"):
        c = prog["chain"]
        for callee, shape, caller in c["calls"]:
            res.count(f"scoped:chain:hops={c['hops']}:{c['style']}:{callee}:{shape}@{caller}")
    for e in dry["events"]:
        src, attributed = src_of(e)
        res.count(f"scoped:event:{e['level']}:{place_of(src) if attributed else 'unattributed'}:file{src}")
        if e.get("line_file") is not None and e.get("scope_file") is not None and e["stage"] == "analysis":
            res.count("scoped:src-oracles:" + ("agree" if e["line_file"] == e["scope_file"] else "disagree"))
            if e["line_file"] != e["scope_file"]:
                res.internal_errors.append({"what": "the two ways of telling the file a diagnostic arose in disagree",
                                            "program": prog, "event": {k: e.get(k) for k in EV_KEYS}})
        for sig in event_violations(e):
            res.violations.append({"signature": sig, "case": {**case_base, "cfg": dry_cfg}, "event": {k: e.get(k) for k in EV_KEYS}})
    steps = model_steps(dry)
    # the badness that counts, by where the constructs really are
    total = sum(e["badness"] for e in dry["events"] if place_of(src_of(e)[0]) in ("target", "simplification"))
    cfgs = configs_for(total, rng)
    outputs = ["stats" if (i + pidx) % 2 == 0 else "results" for i in range(len(cfgs))]
    return {"project": project, "prog": prog, "case_base": case_base, "steps": steps, "total": total, "cfgs": cfgs,
            "outputs": outputs, "dry": dry, "scoped": True, "model_jobs": model_jobs(prog, dry)}


def src_events(steps):
    return [{"level": s["level"], "badness": s["badness"], "where": place_of(s["src"])} for s in steps if s["t"] == "diag"]


def judge(res, rec, cli, mouts, coverage, c15):
    project, prog, case_base, steps, total = rec["project"], rec["prog"], rec["case_base"], rec["steps"], rec["total"]
    evs_src = src_events(steps)
    for ci, (cfg, output, cl, mo) in enumerate(zip(rec["cfgs"], rec["outputs"], cli, mouts)):
        res.evaluations += 1
        argv = c15.argv_of(cfg, project, output)
        case = {**case_base, "cfg": cfg, "argv": argv, "steps": steps}
        if evs_src:
            res.nontrivial.add(__import__("common").digest({"p": prog, "c": cfg}))
        ip = c15.taken(rec, ci) or run_inprocess(project, c15.argv_of(cfg, project, "results"))
        if ip["crash"] is not None or any(l.startswith("Traceback") for l in cl["junk"]):
            res.skipped_outside_fragment += 1
            res.count("scoped:skipped:crash")
            continue
        ip_steps = model_steps(ip)
        ip_diags = diag_only(ip_steps)
        ip_printed = [[p["level"], ip["events"][p["event"]]["where"] if p["event"] is not None else None]
                      for p in ip["printed"] if p["level"] != "rattr"]
        cli_levels = [l["level"] for l in cl["lines"] if l["level"] != "rattr"]
        stats = dc.parse_stats(cl["stdout"]) if output == "stats" else None
        im = {"exit": cl["exit"], "selected_output": selected_output(cl["stdout"]), "stderr_levels": cli_levels,
              "stdout_diag_lines": stdout_diag_lines(cl["stdout"]), "stats": stats,
              "inproc": {"exit": ip["exit"], "buckets": ip["buckets"], "selected_output": selected_output(ip["stdout"]),
                         "printed": ip_printed, "n_events": len(ip_diags)}}
        res.sample({"case": {"program": prog, "cfg": cfg}, "impl": im}, cap=10)
        res.count(f"scoped:cfg:{'strict' if cfg['strict'] else 'lax'}:thr={'0' if cfg['threshold'] == 0 else ('total%+d' % (cfg['threshold'] - total))}")
        res.count(f"scoped:exit:{cl['exit']}")
        if im["stdout_diag_lines"] or stdout_diag_lines(ip["stdout"]):
            # every diagnostic belongs on stderr: stdout carries the selected output or nothing
            res.violations.append({"signature": "diagnostic-line-on-stdout", "case": case, "impl": im,
                                   "lines": [raw for raw in (cl["stdout"] + ip["stdout"]).splitlines() if dc.LINE_RE.match(raw)][:4]})
        for e in ip["events"]:
            for sig in event_violations(e):
                res.violations.append({"signature": sig, "case": case, "event": {k: e.get(k) for k in EV_KEYS}})
        if "__error__" in mo:
            res.disagreements.append({"case": case, "impl": im, "model": mo})
            continue
        sp = mo["spec"]
        # ---- coverage: under which scopes was a SystemExit raised in this run?
        for e in ip["events"]:
            if e["stage"] not in ("analysis", "simplification"):
                continue
            if e["level"] == "fatal" or (cfg["strict"] and e["level"] == "error" and e["badness"] > 0):
                kind = "fatal" if e["level"] == "fatal" else "strict"
                for sid in e.get("scopes", []):
                    coverage.setdefault(sid, {"fatal": 0, "strict": 0})[kind] += 1
        # ---- correspondence: model (replaying the dry run's trace) vs implementation
        gate = [e for e in ip["events"] if e["stage"] == "post"]
        n = len(mo["locs"])
        mm = {"exit": mo["exit"], "output": mo["output"], "buckets": mo["buckets"], "logged": mo["logged"],
              "stderr_levels": [p[0] for p in mo["stderr"]], "n_events": n, "locs": mo["locs"],
              "gate": mo["gate"]}
        ii = {"exit": ip["exit"], "output": im["inproc"]["selected_output"], "buckets": ip["buckets"], "logged": ip_printed,
              "stderr_levels": cli_levels,
              "n_events": len([e for e in ip["events"] if e["stage"] in ("analysis", "simplification")]),
              "locs": [e["where"] for e in ip["events"] if e["stage"] in ("analysis", "simplification")],
              "gate": bool(gate)}
        diffs = [k for k in mm if mm[k] != ii[k]]
        if cl["exit"] != mo["exit"]:
            diffs.append("cli-exit")
        if im["selected_output"] != mo["output"]:
            diffs.append("cli-output")
        if stats is not None and [stats["target"], stats["import"], stats["simpl"]] != mo["buckets"]:
            diffs.append("cli-stats")
        if ip_diags != diag_only(steps)[:len(ip_diags)]:
            diffs.append("event-stream-depends-on-cfg")
        if cl["junk"]:
            diffs.append("cli-unparsed-stderr")
        if diffs:
            res.disagreements.append({"case": case, "fields": diffs, "impl": im, "model": mm})
        res.count("scoped:branch:" + ("gate-fatal" if mm["gate"] else "diagnostic-exit" if mo["exit"] == 1 else "exit0"))
        # ---- property oracle: the contract on the places the constructs really are
        real_exit = cl["exit"]
        # (a syntactic fact about the trace, not about the answer: some diagnostic was raised while
        # current_file was not the file its construct is in)
        misplaced = "" if mo["inOwnFile"] else ":a-diagnostic-was-counted-outside-its-own-file"
        if real_exit != sp["exit"]:
            res.violations.append({"signature": "exit-status:" + c15.exit_signature(real_exit, sp["exit"], cfg, evs_src, sp) + misplaced,
                                   "case": case, "impl": im, "spec": sp})
        elif ip["exit"] != sp["exit"]:
            res.violations.append({"signature": "exit-status:" + c15.exit_signature(ip["exit"], sp["exit"], cfg, evs_src, sp) + misplaced + ":in-process",
                                   "case": case, "impl": im, "spec": sp})
        elif ("fatal" in cli_levels or "fatal" in im["stdout_diag_lines"]) and (real_exit != 1 or im["selected_output"]):
            res.violations.append({"signature": "fatal-line-printed-but-run-not-ended", "case": case, "impl": im, "spec": sp})
        if real_exit == 1 and "fatal" not in cli_levels:
            # observable form of "exits 1 exactly when a fatal diagnostic is raised or the gate fails" (the gate
            # reports with a fatal too, and fatals are never filtered): C15_captured_fatal_on_stderr for the model
            res.violations.append({"signature": "exit-1-without-a-fatal-line-on-stderr", "case": case, "impl": im, "spec": sp})
        if real_exit == 0 and not im["selected_output"]:
            res.violations.append({"signature": "no-output-on-exit-0", "case": case, "impl": im, "spec": sp})
        if real_exit != 0 and im["selected_output"]:
            res.violations.append({"signature": "output-printed-on-exit-1", "case": case, "impl": im, "spec": sp})
        real_b = ip["buckets"]
        if real_b != sp["buckets"] and mo["allPass"]:
            which = [k for k, i in BUCKET_IX.items() if real_b[i] != sp["buckets"][i]]
            kind = "lower" if sum(real_b) < sum(sp["buckets"]) else "higher" if sum(real_b) > sum(sp["buckets"]) else "moved"
            res.violations.append({"signature": f"badness-buckets:{'+'.join(which)}:{kind}-than-sum-of-weights:-w-{cfg['warn']}",
                                   "case": case, "impl": im, "spec": sp})
        if stats is not None:
            tb = [stats["target"], stats["import"], stats["simpl"]]
            if tb != sp["buckets"] and tb != real_b:
                res.violations.append({"signature": "stats-table-differs-from-state", "case": case, "impl": im, "spec": sp})
            if stats["true"] != tb[0] + tb[2] or stats["total"] != sum(tb):
                res.violations.append({"signature": "stats-true-badness-not-target-plus-simplification", "case": case, "impl": im, "spec": sp})
        # ---- self checks: what the theorems say
        if mo["inOwnFile"] and mo["allBenign"] and (mo["exit"] != sp["exit"] or mo["output"] != sp["output"]):
            res.internal_errors.append({"what": "DiagScope.run and Spec.exit disagree under the hypotheses of C15_scoped_exit", "case": case})
        if mo["inOwnFile"] and mo["allPass"] and mo["buckets"] != sp["buckets"]:
            res.internal_errors.append({"what": "DiagScope.run and Spec.buckets disagree under the hypotheses of C15_scoped", "case": case})
        if mo["allBenign"] and mo["exit"] != mo["specByCode"]["exit"]:
            res.internal_errors.append({"what": "DiagScope.run and Spec.exit on the located events disagree (go_of_benign)", "case": case})
        if sp["counted"] != total:
            res.internal_errors.append({"what": "counted badness: Lean spec and harness arithmetic differ", "case": case})


def coverage_report(res, coverage, after_fixed):
    """Which scopes of the code under test did a run end under? `after_fixed`: coverage reached by the
    deterministic programs alone (the expectation is checked on it)."""
    ids = all_scope_ids()
    rep = {}
    for sid in ids:
        c = coverage.get(sid, {"fatal": 0, "strict": 0})
        short = sid.split("/")[-1]
        reason = next((r for k, r in NO_DIAGNOSTIC_INSIDE.items() if sid.endswith(k)), None)
        rep[short] = {"fatal": c["fatal"], "strict": c["strict"]}
        if reason:
            rep[short]["no_diagnostic_inside"] = reason
        elif c["fatal"] + c["strict"] == 0:
            rep[short]["note"] = "no generated run ended under this scope"
            res.count("scoped:scope-never-ended-under:" + short)
    res.extra["scope_coverage"] = rep
    for suffix, kinds in EXPECT_ENDING.items():
        for sid in ids:
            if sid.endswith(suffix):
                c = after_fixed.get(sid, {"fatal": 0, "strict": 0})
                for k in kinds:
                    if c[k] == 0:
                        res.internal_errors.append({"what": f"the fixed programs no longer end a run ({k}) under scope {sid}"})

"""C13, end-to-end stage: WHICH file a relative import is resolved against.

`derive_absolute_module_name` / `RootContextBuilder.visit_(starred_)relative_import` do not receive the
importing file: they read the global `Config().state.current_file`, which three different places set
(`parse_and_analyse_file`: the target; `parse_and_analyse_imports`: a followed import;
`Context.expand_starred_imports`: a star-imported file, nested).  This stage generates whole projects
(package trees whose files consist of import statements and one marker function each) in which every
way rattr reaches a file is combined with relative imports of level 1..3 inside the reached file, runs
the real `parse_and_analyse_file()` in-process (every `compile_root_context` call is observed from the
outside) and the real CLI (`-o ir`), and judges every `Import` symbol it can see against
`importlib.util.resolve_name` applied to the package of the file that CONTAINS the import statement.

Identification without trusting rattr: every statement of a project sits on a line number that is
unique in the whole project, so a symbol's `location.lineno` names the statement (and its file) it
derives from; every file's first statement is a marker function `h<i>`, so a compiled context / an
`import_irs` entry / a star-expanded name tells which file was actually read.

Tie B: the Lean model `Walk.run` (RattrModel/ImportWalk.lean: the same three `enter_file` sites, the
star-expansion BFS, the import-following BFS, the root-context import visitors on top of `Locator.*`)
predicts every compile event (file, current file, Import symbols), every final context, the
diagnostics and the outcome.
"""
from __future__ import annotations

import json
import os
import random
import subprocess
import sys
from concurrent.futures import ThreadPoolExecutor
from pathlib import Path
from unittest import mock

import common
import impl

from rattr.config import Config

LINES_PER_FILE = 16

PKGS = [("pa",), ("pb",), ("pa", "pa"), ("pa", "pb"), ("pb", "pa"), ("pa", "pb", "pa"), ("pa", "pb", "pb"),
        ("pa", "pa", "pb")]
MODS = ["ma", "mb"]
TARGET = ["target.py"]


def universe():
    out = []
    for p in PKGS:
        out.append(list(p) + ["__init__.py"])
        for m in MODS:
            out.append(list(p) + [m + ".py"])
    return out


UNIVERSE = universe()

# the files the systematic family reaches (module / __init__ at package depth 1, 2, 3)
REACHED = [["pa", "pb", "ma.py"], ["pa", "pb", "__init__.py"], ["pa", "pb", "pa", "__init__.py"],
           ["pa", "pb", "pa", "mb.py"], ["pa", "ma.py"], ["pa", "__init__.py"]]
REACH = ["target", "follow-abs", "follow-plain", "follow-rel", "star1-target", "star1-follow", "star2-follow",
         "star2-target", "reexport"]
FORMS = ["named", "star", "bare"]

SIG_MIS = "walk:relative-import-mis-resolved"
SIG_REJ = "walk:valid-relative-import-rejected"
SIG_ESC = "walk:escaping-relative-import-not-diagnosed"
SIG_STAR = "walk:star-import-copies-names-of-another-module"
SIG_KEY = "walk:import-ir-key-names-another-file"
SIG_ABS = "walk:absolute-import-mis-resolved"
# FIXED in 58a9012 (Props/C13 `C13_cex_star_symlink_before_58a9012`): the same signature as the locator-level
# witness (c13links.SIG_STAR); a run counts as it only when the model of the OLD rule predicts it exactly
SIG_STARLINK = "star-imported-file-behind-symlink-analysed-under-its-resolved-path"


def own_name(f):
    if f[-1] == "__init__.py":
        return list(f[:-1]), True
    return list(f[:-1]) + [f[-1][:-3]], False


def package_of(f):
    n, is_init = own_name(f)
    return n if is_init else n[:-1]


def ancestors_closed(files):
    s = {tuple(f) for f in files}
    for f in list(s):
        for k in range(1, len(f)):
            s.add(tuple(f[:k]) + ("__init__.py",))
    return sorted(list(x) for x in s)


# ------------------------------------------------------------------ project builder

class Builder:
    """Accumulates the statements of every file; assigns project-unique line numbers at the end."""

    def __init__(self, rng):
        self.rng = rng
        self.stmts = {}      # tuple(path) -> list of stmt dicts (without lines)
        self.n_alias = 0

    def touch(self, f):
        self.stmts.setdefault(tuple(f), [])

    def alias(self):
        self.n_alias += 1
        return f"k{self.n_alias}"

    def add(self, f, st):
        self.touch(f)
        self.stmts[tuple(f)].append(st)

    def files(self):
        return ancestors_closed([list(k) for k in self.stmts])

    def finish(self, target, extra_files=()):
        for f in extra_files:
            self.touch(f)
        files = self.files()
        if list(target) not in files:
            files.append(list(target))
        files.sort()
        marker = {tuple(f): f"h{i}" for i, f in enumerate(files)}
        out = []
        for i, f in enumerate(files):
            base = i * LINES_PER_FILE + 1
            sts = [{"k": "def", "line": base, "name": marker[tuple(f)]}]
            for j, st in enumerate(self.stmts.get(tuple(f), [])[:LINES_PER_FILE - 2]):
                st = dict(st, line=base + 1 + j)
                if st["k"] == "from":
                    st["names"] = [[marker[tuple(n[0]["marker_of"])] if isinstance(n[0], dict) else n[0], n[1]]
                                   for n in st["names"]]
                sts.append(st)
            out.append({"path": f, "stmts": sts})
        return {"stage": "walk", "files": out, "target": list(target)}


def first_file(files, name):
    """file of a dotted name among the project's own files (package before module)"""
    fs = {tuple(f) for f in files}
    pk = tuple(name) + ("__init__.py",)
    if pk in fs:
        return list(pk)
    md = tuple(name[:-1]) + (name[-1] + ".py",)
    if md in fs:
        return list(md)
    return None


def star_ok(src, st):
    """`from <dotted> import *` outside an __init__.py makes rattr raise ValueError while it words the
    warning (gen_import_from_stmt wants an identifier): not this property's business, kept out"""
    if st["k"] != "from" or st["names"] != [["*", None]]:
        return True
    return src[-1] == "__init__.py" or (st["module"] is not None and len(st["module"]) == 1)


def link(b, src, dst, how, up=None):
    """statement in `src` that imports (from) `dst`"""
    st = link0(b, src, dst, how, up)
    if not star_ok(src, st):
        st = link0(b, src, dst, {"abs-star": "abs-named", "rel-star": "rel-named"}[how], up)
    return st


def link0(b, src, dst, how, up=None):
    rng = b.rng
    dn, _ = own_name(dst)
    sp = package_of(src)
    c = 0
    while c < len(sp) and c < len(dn) and sp[c] == dn[c]:
        c += 1
    if how.startswith("rel") and c == 0:
        how = {"rel-named": "abs-named", "rel-star": "abs-star", "rel-bare": "abs-named"}[how]
    if how == "plain":
        return {"k": "imp", "module": dn, "asname": rng.choice([None, b.alias()])}
    if how == "abs-named":
        return {"k": "from", "level": 0, "module": dn, "names": [[{"marker_of": dst}, b.alias()]]}
    if how == "abs-star":
        return {"k": "from", "level": 0, "module": dn, "names": [["*", None]]}
    cc = c if up is None else max(1, min(c, up))
    if rng.random() < 0.3:
        cc = rng.randint(1, c)
    level = len(sp) - cc + 1
    rest = dn[cc:]
    if how == "rel-named":
        return {"k": "from", "level": level, "module": rest or None, "names": [[{"marker_of": dst}, b.alias()]]}
    if how == "rel-star":
        return {"k": "from", "level": level, "module": rest or None, "names": [["*", None]]}
    if how == "rel-bare":
        if not rest:
            return {"k": "from", "level": level, "module": None, "names": [[{"marker_of": dst}, b.alias()]]}
        return {"k": "from", "level": level, "module": rest[:-1] or None, "names": [[rest[-1], b.alias()]]}
    raise ValueError(how)


def probe(b, pool, f, level, form):
    """relative import of the given level / form inside `f`, resolving (by Python's rule) to a file of
    `pool` when it can; None when nothing fits"""
    rng = b.rng
    pkg = package_of(f)
    if level > len(pkg):
        # escapes the top-level package (or no parent package at all): must be diagnosed
        mod = rng.choice([None, ["ma"], ["pa"], ["pa", "ma"]])
        if form == "star" and f[-1] != "__init__.py":
            mod = rng.choice([["ma"], ["pa"]])
        if form == "star":
            return {"k": "from", "level": level, "module": mod, "names": [["*", None]]}
        return {"k": "from", "level": level, "module": mod, "names": [["hx", b.alias()]]}
    anchor = pkg[:len(pkg) - (level - 1)]
    cands = []
    for g in pool:
        n, _ = own_name(g)
        if len(n) > len(anchor) and n[:len(anchor)] == anchor and g != f and g[-1] != "target.py":
            cands.append(g)
    if form == "bare" or (form == "star" and f[-1] != "__init__.py"):
        cands = [g for g in cands if len(own_name(g)[0]) == len(anchor) + 1]
    if not cands:
        return None
    g = rng.choice(cands)
    n, _ = own_name(g)
    rest = n[len(anchor):]
    if form == "named":
        return {"k": "from", "level": level, "module": rest, "names": [[{"marker_of": g}, b.alias()]]}
    if form == "star":
        return {"k": "from", "level": level, "module": rest, "names": [["*", None]]}
    return {"k": "from", "level": level, "module": None, "names": [[rest[0], b.alias()]]}


def used_files(st, f, files):
    """the project file a statement's module resolves to by Python's rule (to keep it in the tree)"""
    import importlib.util
    if st["k"] == "imp":
        return first_file(files, st["module"])
    if st["level"] == 0:
        return first_file(files, st["module"])
    try:
        e = importlib.util.resolve_name("." * st["level"] + ".".join(st["module"] or []), ".".join(package_of(f)))
    except ImportError:
        return None
    return first_file(files, e.split("."))


def choose_importer(rng, pool, avoid_pkg, same_top=None, want_init=True):
    c = [f for f in pool if package_of(f) != avoid_pkg and f[-1] != "target.py"]
    if same_top is not None:
        c2 = [f for f in c if f[0] == same_top]
        c = c2 or c
    inits = [f for f in c if f[-1] == "__init__.py"]
    if want_init and inits and rng.random() < 0.75:
        return rng.choice(inits)
    return rng.choice(c)


def make_case(rng, reach, reached, level, form, keep_prob):
    """One project: `reached` is reached in the way `reach` and contains a relative import (level, form)."""
    b = Builder(rng)
    pool = UNIVERSE
    R = list(reached)
    rp = package_of(R)
    target = TARGET
    star = lambda: rng.choice(["rel-star", "rel-star", "abs-star"])
    named = lambda: rng.choice(["rel-named", "rel-bare", "abs-named", "rel-named"])
    chain = []
    if reach == "target":
        target = R
    elif reach == "follow-abs":
        chain = [(TARGET, R, "abs-named")]
    elif reach == "follow-plain":
        chain = [(TARGET, R, "plain")]
    elif reach == "follow-rel":
        X = choose_importer(rng, [f for f in pool if f[-1] != "__init__.py"], rp, same_top=R[0], want_init=False)
        target = X
        chain = [(X, R, rng.choice(["rel-named", "rel-bare"]))]
    elif reach == "star1-target":
        X = choose_importer(rng, [f for f in pool if f[-1] == "__init__.py"], rp, same_top=R[0])
        target = X
        chain = [(X, R, star())]
    elif reach == "star1-follow":
        X = choose_importer(rng, [f for f in pool if f[-1] == "__init__.py"], rp, same_top=R[0])
        chain = [(TARGET, X, "abs-named"), (X, R, star())]
    elif reach == "star2-follow":
        X = choose_importer(rng, [f for f in pool if f[-1] == "__init__.py"], rp, same_top=R[0])
        Y = choose_importer(rng, [f for f in pool if f != X and f[-1] == "__init__.py"], rp, same_top=R[0])
        chain = [(TARGET, X, rng.choice(["abs-named", "plain"])), (X, Y, star()), (Y, R, star())]
    elif reach == "star2-target":
        X = choose_importer(rng, [f for f in pool if f[-1] == "__init__.py"], rp, same_top=R[0])
        Y = choose_importer(rng, [f for f in pool if f != X and f[-1] == "__init__.py"], rp, same_top=R[0])
        target = X
        chain = [(X, Y, star()), (Y, R, star())]
    elif reach == "reexport":
        X = choose_importer(rng, [f for f in pool if f[-1] == "__init__.py"], rp, same_top=R[0])
        Y = choose_importer(rng, [f for f in pool if f != X and f[-1] == "__init__.py"], None, same_top=R[0])
        chain = [(TARGET, X, "abs-named"), (X, Y, named()), (Y, R, named())]
    else:
        raise ValueError(reach)
    b.touch(target)
    for src, dst, how in chain:
        b.add(src, link(b, src, dst, how))
        b.touch(dst)
    # which of the other files exist: decided before the probes so that the probes resolve
    keep = [f for f in pool if rng.random() < keep_prob]
    present = ancestors_closed([list(k) for k in b.stmts if list(k) != TARGET] + keep)
    st = probe(b, present, R, level, form)
    if st is None:
        # nothing below the anchor: add a module there
        pkg = package_of(R)
        anchor = pkg[:len(pkg) - (level - 1)]
        present = ancestors_closed(present + [anchor + ["mb.py"]])
        st = probe(b, present, R, level, form)
    if st is not None:
        b.add(R, st)
    # distractors: the files on the way get relative imports of their own
    for f in [list(k) for k in list(b.stmts)]:
        if f == R or f == TARGET:
            continue
        if rng.random() < 0.7:
            d = probe(b, present, f, rng.choice([1, 1, 2, 3]), rng.choice(FORMS))
            if d is not None and len(package_of(f)) >= d["level"]:
                b.add(f, d)
    if rng.random() < 0.3:
        d = probe(b, present, R, rng.choice([1, 2, 3]), rng.choice(FORMS))
        if d is not None and len(package_of(R)) >= d["level"]:
            b.add(R, d)
    case = b.finish(target, extra_files=present)
    case["reach"] = reach
    case["probe"] = {"file": R, "level": level, "form": form}
    return case


def random_case(rng):
    """free-form project: random import statements of every form in random files"""
    b = Builder(rng)
    keep_prob = rng.choice([0.3, 0.6, 1.0])
    present = ancestors_closed([f for f in UNIVERSE if rng.random() < keep_prob] + [["pa", "__init__.py"]])
    target = rng.choice([TARGET, TARGET, rng.choice(present)])
    b.touch(target)
    frontier = [target]
    for _ in range(rng.randint(2, 6)):
        src = rng.choice(frontier)
        dst = rng.choice(present)
        if dst == src:
            continue
        how = rng.choice(["plain", "abs-named", "abs-star", "rel-named", "rel-star", "rel-bare", "rel-star"])
        if src == TARGET and how.startswith("rel"):
            how = "abs" + how[3:] if how != "rel-bare" else "abs-named"
        b.add(src, link(b, src, dst, how))
        b.touch(dst)
        frontier.append(dst)
    for f in frontier[1:]:
        for _ in range(rng.randint(0, 2)):
            d = probe(b, present, f, rng.choice([1, 1, 2, 2, 3]), rng.choice(FORMS))
            if d is not None and (len(package_of(f)) >= d["level"] or rng.random() < 0.15):
                b.add(f, d)
    case = b.finish(target, extra_files=present)
    case["reach"] = "random"
    return case


def systematic_cases(rng):
    out = []
    for reach in REACH:
        for R in REACHED:
            for level in (1, 2, 3):
                for form in FORMS:
                    out.append(make_case(rng, reach, R, level, form, rng.choice([0.15, 0.5, 1.0])))
    return out


# ------------------------------------------------------------------ rendering

def render_stmt(st):
    if st["k"] == "def":
        return f"def {st['name']}(): pass"
    if st["k"] == "imp":
        return "import " + ".".join(st["module"]) + (f" as {st['asname']}" if st["asname"] else "")
    names = ", ".join(n + (f" as {a}" if a else "") for n, a in st["names"])
    return "from " + "." * st["level"] + ".".join(st["module"] or []) + " import " + names


def render_file(i, f):
    lines = {}
    for st in f["stmts"]:
        lines[st["line"]] = render_stmt(st)
    last = max(lines)
    return "".join(lines.get(n, "") + "\n" for n in range(1, last + 1))


_ON_DISK = {}     # str(root) -> {relative path: text}


def write_project(root: Path, case):
    """Bring `root` to exactly the case's files (incrementally: most files survive from case to case)."""
    have = _ON_DISK.get(str(root))
    if have is None or not root.exists():
        import shutil
        if root.exists():
            shutil.rmtree(root)
        root.mkdir(parents=True)
        have = _ON_DISK[str(root)] = {}
    want = {"/".join(f["path"]): render_file(i, f) for i, f in enumerate(case["files"])}
    for rel in [r for r in have if r not in want]:
        p = root / rel
        p.unlink()
        del have[rel]
        d = p.parent
        while d != root and not any(d.iterdir()):
            d.rmdir()
            d = d.parent
    for rel, text in want.items():
        if have.get(rel) != text:
            p = root / rel
            p.parent.mkdir(parents=True, exist_ok=True)
            p.write_text(text)
            have[rel] = text


# ------------------------------------------------------------------ projects behind symbolic links

LINK_NAMES = ["wl", "w2", "wo", "dd", "ff", "ka", "kb", "kc", "kd"]


def link_plan(rng, case):
    """Which package directories / files of the project are realised as links to places outside every
    search path, and whether the project root itself is spelled through a link.  The directory a link
    points to is named after a vocabulary name now and then, so that a suffix of the physical path may
    happen to name another module of the project."""
    files = [f["path"] for f in case["files"]]
    dirs = sorted({tuple(f[:k]) for f in files for k in range(1, len(f))})
    mods = [f for f in files if len(f) >= 2]
    R = (case.get("probe") or {}).get("file")
    picks = []
    if R and len(R) >= 2 and rng.random() < 0.75:
        # the probed file behind a link: one of its directories, or the file itself
        opts = [("dir", list(R[:k])) for k in range(1, len(R))] + [("file", list(R))]
        picks.append(rng.choice(opts))
    for _ in range(rng.choice([0, 1, 1, 2]) if picks else rng.choice([1, 1, 2])):
        if dirs and rng.random() < 0.65:
            picks.append(("dir", list(rng.choice(dirs))))
        elif mods:
            picks.append(("file", list(rng.choice(mods))))
    plan, seen = [], set()
    for kind, pth in picks:
        if tuple(pth) in seen:
            continue
        seen.add(tuple(pth))
        slot = ["ka", "kb", "kc", "kd"][len(plan) % 4]
        if kind == "dir":
            plan.append(["dir", pth, [slot, rng.choice(["dd", "dd", pth[-1], "pa", "pb"])]])
        else:
            plan.append(["file", pth, [slot, rng.choice(["ff.py", "ff.py", pth[-1], "ma.py"])]])
    plan.sort(key=lambda e: len(e[1]))       # outer directories first: an inner link then lives inside the outer target
    return {"links": plan, "root_link": rng.random() < 0.3}


def write_linked_project(top: Path, case, plan):
    """`top/w2`: the project; `top/wo/<slot>/<name>`: where the links point; `top/wl` -> `w2`.
    Returns (directory to run in, as spelled; the resolved project root)."""
    import shutil
    if top.exists():
        shutil.rmtree(top)
    real = top / "w2"
    for i, f in enumerate(case["files"]):
        p = real.joinpath(*f["path"])
        p.parent.mkdir(parents=True, exist_ok=True)
        p.write_text(render_file(i, f))
    for kind, pth, dst in plan["links"]:
        src = Path(os.path.realpath(str(real.joinpath(*pth[:-1])))) / pth[-1]
        if src.is_symlink() or not src.exists():
            continue
        d = top.joinpath("wo", *dst)
        if d.exists():
            continue
        d.parent.mkdir(parents=True, exist_ok=True)
        shutil.move(str(src), str(d))
        os.symlink(os.path.relpath(str(d), str(src.parent)), str(src))
    spelled = real
    if plan["root_link"]:
        os.symlink("w2", str(top / "wl"))
        spelled = top / "wl"
    return spelled, Path(os.path.realpath(str(real)))


def phys_rows(real_root: Path, case):
    """the project files whose fully resolved path is not `<resolved root>/<path as spelled>`"""
    rows = []
    for f in case["files"]:
        spelled = str(real_root) + "/" + "/".join(f["path"])
        rp = os.path.realpath(spelled)
        if rp != spelled:
            segs = [x for x in rp.split("/") if x]
            rows.append([f["path"], segs[:-1], segs[-1][:-3]])
    return rows


# ------------------------------------------------------------------ implementation side

def rel_file(root: Path, p):
    """a path as rattr holds it -> project-relative segments (None: not below the project)"""
    if p is None:
        return None
    s = str(p)
    rs = str(root)
    if s.startswith(rs + os.sep):
        return {"abs": True, "rel": list(Path(s).relative_to(rs).parts)}
    if os.path.isabs(s):
        return {"ext": s}
    return {"abs": False, "rel": list(Path(s).parts)}


def sym_json(root, s):
    t = type(s).__name__
    if t == "Import":
        return {"t": "import", "name": s.name, "qual": s.qualified_name, "line": s.location.lineno,
                "file": rel_file(root, s.location.file)}
    if t == "Func":
        return {"t": "func", "name": s.name, "line": s.location.lineno, "file": rel_file(root, s.location.file)}
    return None


def context_json(root, ctx):
    out = []
    for s in ctx.symbol_table.symbols:
        j = sym_json(root, s)
        if j is not None:
            out.append(j)
    return out


def template(msg):
    for key, t in (("unable to resolve relative starred import", "unresolved-rel-star"),
                   ("unable to resolve relative import", "unresolved-rel"),
                   ("unable to find module", "unable-to-find-module"),
                   ("while expanding", "unresolved-while-expanding"),
                   ("unable to resolve import", "unresolved-import"),
                   ("unable to resolve module spec", "unresolved-spec"),
                   ("outside of __init__.py", "star-outside-init")):
        if key in msg:
            return t
    return "other:" + msg[:60]


def run_inproc(root: Path, case, cwd=None):
    """The real parse_and_analyse_file() on the project; every compile_root_context call observed.
    `cwd`: the directory to run in as spelled (default: `root`, the resolved project root)."""
    import rattr.analyser.file as F
    import rattr.models.context._root_context as RC

    events = []
    orig = RC.compile_root_context

    def hooked(module):
        marker = None
        if module.body and hasattr(module.body[0], "name"):
            marker = module.body[0].name
        cur = Config().state.current_file
        ctx = orig(module)
        events.append({"marker": marker, "cur": rel_file(root, cur), "syms": context_json(root, ctx)})
        return ctx

    obs = {}
    with impl.in_dir(str(cwd or root)):
        impl.reset_config(target=Path(*case["target"]))
        with impl.Tap() as tap, mock.patch.object(RC, "compile_root_context", hooked), \
                mock.patch.object(F, "compile_root_context", hooked):
            out = impl.outcome_of(F.parse_and_analyse_file)
        obs["outcome"] = out[0] if out[0] != "crash" else f"crash:{out[1]}"
        if out[0] == "crash":
            obs["crash_msg"] = out[2]
            if "is not a valid identifier" in out[2]:
                obs["outcome"] = "crash:ValueError:not-an-identifier"
        obs["contexts"] = []
        if out[0] == "ok":
            file_ir, import_irs, _stats = out[1]
            obs["contexts"].append({"key": None, "syms": context_json(root, file_ir.context)})
            for k, ir in import_irs.items():
                obs["contexts"].append({"key": k.split("."), "syms": context_json(root, ir.context)})
        obs["events"] = events
        obs["diags"] = [{"level": e["level"], "t": template(e["message"]), "line": e["line"]}
                        for e in tap.events if e["level"] in ("warning", "error", "fatal")]
    return obs


def run_cli(root: Path, case, cwd=None):
    env = dict(os.environ, PYTHONDONTWRITEBYTECODE="1")
    p = subprocess.run([sys.executable, "-m", "rattr", "-o", "ir", "-w", "all", "/".join(case["target"])],
                       cwd=str(cwd or root), env=env, capture_output=True, text=True, timeout=120)
    obs = {"exit": p.returncode, "stderr": p.stderr[-1500:], "contexts": [], "events": [],
           "outcome": "ok" if p.returncode == 0 else ("crash" if "Traceback (most recent call last)" in p.stderr else "fatal"),
           "diag_templates": sorted({template(l) for l in p.stderr.splitlines()
                                     if "unable to" in l or "while expanding" in l})}
    if "AssertionError" in p.stderr:
        obs["outcome"] = "crash:AssertionError"
    elif "is not a valid identifier" in p.stderr:
        obs["outcome"] = "crash:ValueError:not-an-identifier"
    elif obs["outcome"] == "crash":
        last = [l for l in p.stderr.strip().splitlines() if l.strip()]
        obs["outcome"] = "crash:" + (last[-1].split(":")[0] if last else "?")
    if p.returncode == 0:
        try:
            doc = json.loads(p.stdout)
        except Exception:  # noqa
            obs["outcome"] = "crash:unparseable-stdout"
            return obs

        def ctx(c):
            out = []
            for _id, s in c["symbol_table"].items():
                loc = s.get("location") or {}
                if s.get("type") == "Import":
                    out.append({"t": "import", "name": s["name"], "qual": s["qualified_name"], "line": loc.get("lineno"),
                                "file": rel_file(root, loc.get("file"))})
                elif s.get("type") == "Func":
                    out.append({"t": "func", "name": s["name"], "line": loc.get("lineno"), "file": rel_file(root, loc.get("file"))})
            return out

        obs["contexts"].append({"key": None, "syms": ctx(doc["target_ir"]["ir"]["context"])})
        for k, ir in doc["import_irs"].items():
            obs["contexts"].append({"key": k.split("."), "syms": ctx(ir["context"])})
    return obs


# ------------------------------------------------------------------ the property oracle

class Oracle:
    """What Python's own rule says about every statement of the project (nothing of rattr consulted)."""

    def __init__(self, case, roots, py_resolve, fs_first_match):
        self.case = case
        self.by_line = {}
        self.marker_file = {}
        self.bound = {}        # tuple(path) -> names a star import of that file may deliver
        self.files = [f["path"] for f in case["files"]]
        for f in case["files"]:
            names = set()
            for st in f["stmts"]:
                self.by_line[st["line"]] = (f["path"], st)
                if st["k"] == "def":
                    self.marker_file[st["name"]] = f["path"]
                    names.add(st["name"])
                elif st["k"] == "imp":
                    names.add(st["asname"] or ".".join(st["module"]))
                    names.add(st["asname"] or st["module"][0])
                else:
                    for n, a in st["names"]:
                        names.add(a or n)
            self.bound[tuple(f["path"])] = names
        self.roots = roots
        self.py_resolve = py_resolve
        self.fs_first_match = fs_first_match

    def expected_module(self, path, st):
        """{"ok": dotted} | {"err": ...} for the module part of a from-import"""
        if st["level"] == 0:
            return {"ok": list(st["module"])}
        own, is_init = own_name(path)
        if path == TARGET:
            # a top-level script/module: no parent package
            pass
        return self.py_resolve(own, is_init, st["level"], st["module"])

    def module_file(self, dotted):
        m = self.fs_first_match(self.roots, dotted)
        if m is None or m[0] != 0:
            return None
        return m[1]

    def all_valid(self):
        """every relative import of the project resolves, by Python's rule, to a module that exists"""
        for f in self.case["files"]:
            for st in f["stmts"]:
                if st["k"] == "from" and st["level"] > 0:
                    e = self.expected_module(f["path"], st)
                    if "ok" not in e or self.fs_first_match(self.roots, e["ok"]) is None:
                        return False
        return True

    def judge_symbol(self, s, where):
        """None | (signature, detail) for one observed Import symbol"""
        hit = self.by_line.get(s["line"])
        if hit is None:
            return ("other:walk-symbol-at-unknown-line", {"symbol": s, "where": where})
        path, st = hit
        if st["k"] == "def":
            return ("other:walk-import-symbol-at-a-def-line", {"symbol": s, "where": where})
        qual = s["qual"].split(".")
        name = s["name"].split(".")
        if st["k"] == "imp":
            if qual != st["module"]:
                return (SIG_ABS, {"symbol": s, "statement": st, "file": path, "where": where})
            return None
        e = self.expected_module(path, st)
        rel = st["level"] > 0
        if "ok" not in e:
            return None          # an escaping import: judged through the diagnostics
        E = e["ok"]
        star = st["names"] == [["*", None]]
        if not star:
            ok = any(qual == E + [n] and s["name"] == (a or n) for n, a in st["names"])
            if not ok:
                return (SIG_MIS if rel else SIG_ABS,
                        {"symbol": s, "statement": st, "file": path, "python": ".".join(E), "where": where})
            return None
        if s["name"] == "*":
            if qual not in (E, E + ["*"]):
                return (SIG_MIS if rel else SIG_ABS,
                        {"symbol": s, "statement": st, "file": path, "python": ".".join(E), "where": where})
            return None
        if qual != E + name:
            return (SIG_MIS if rel else SIG_ABS,
                    {"symbol": s, "statement": st, "file": path, "python": ".".join(E), "where": where})
        mf = self.module_file(E)
        if mf is not None and tuple(mf) in self.bound and s["name"] not in self.bound[tuple(mf)]:
            return (SIG_STAR, {"symbol": s, "statement": st, "file": path, "python": ".".join(E),
                               "module_file": mf, "where": where})
        return None

    def judge(self, obs, mode):
        """list of (signature, detail)"""
        out = []
        seen = set()

        def sym(s, where):
            if s["t"] != "import":
                return
            key = (s["name"], s["qual"], s["line"])
            if key in seen:
                return
            seen.add(key)
            v = self.judge_symbol(s, where)
            if v is not None:
                out.append(v)

        for ev in obs["events"]:
            for s in ev["syms"]:
                sym(s, {"compiled": ev["marker"]})
        for c in obs["contexts"]:
            for s in c["syms"]:
                sym(s, {"context": c["key"]})
            if c["key"] is not None:
                # (c) end to end: the key of an import_irs entry names the file that was analysed
                for s in c["syms"]:
                    if s["t"] == "func" and s["name"] in self.marker_file:
                        f = self.marker_file[s["name"]]
                        if own_name(f)[0] != c["key"]:
                            out.append((SIG_KEY, {"key": c["key"], "file": f}))
        # diagnostics
        rel_stmts = [(f["path"], st) for f in self.case["files"] for st in f["stmts"]
                     if st["k"] == "from" and st["level"] > 0]
        if mode == "inproc":
            by_line = {}
            for d in obs["diags"]:
                by_line.setdefault(d["line"], []).append(d)
            compiled = {ev["marker"] for ev in obs["events"]}
            for path, st in rel_stmts:
                e = self.expected_module(path, st)
                ds = [d for d in by_line.get(st["line"], [])
                      if d["t"] in ("unresolved-rel", "unresolved-rel-star", "unable-to-find-module")]
                if "ok" in e and self.fs_first_match(self.roots, e["ok"]) is not None and ds:
                    out.append((SIG_REJ, {"statement": st, "file": path, "python": ".".join(e["ok"]), "diags": ds}))
                marker = next(x["name"] for f in self.case["files"] if f["path"] == path for x in f["stmts"][:1])
                if "err" in e and marker in compiled and not ds:
                    out.append((SIG_ESC, {"statement": st, "file": path, "python": e}))
        if obs["outcome"] in ("crash:AssertionError", "crash:ValueError") and self.all_valid():
            out.append((SIG_REJ + ":" + obs["outcome"], {"outcome": obs["outcome"], "stderr": obs.get("stderr", "")[-400:]}))
        if mode == "cli":
            bad = [t for t in obs.get("diag_templates", []) if t in ("unresolved-rel", "unresolved-rel-star", "unable-to-find-module")]
            if self.all_valid() and (bad or obs["outcome"] in ("crash:AssertionError", "crash:ValueError")):
                out.append((SIG_REJ + ":cli", {"exit": obs["exit"], "stderr": obs.get("stderr", "")[-400:]}))
        return out


# ------------------------------------------------------------------ the Lean model (Tie B)

VOCAB = ["pa", "pb", "ma", "mb", "target", "hx", "h1", "k1", "*", "t"]
FUEL = 400


def fragment_errors(world, wdir, is_in_stdlib, more=()):
    """Facts the model's per-case assumptions rest on (a failure = broken machine, exit 2)."""
    errs = []
    comps = [c for c in Path(wdir).parts if c not in ("/", "")] + list(more)
    for c in VOCAB + comps:
        if c != "*" and is_in_stdlib(c):
            errs.append(f"component {c!r} is classified stdlib")
    for r in world.real_roots(False)[1:]:
        for n in VOCAB + comps:
            if n == "*":
                continue
            if (r / n).exists() or (r / (n + ".py")).exists():
                errs.append(f"name {n!r} exists in search root {r}")
    return errs


def file_json(f):
    return {"dir": f["path"][:-1], "stem": f["path"][-1][:-3], "stmts": f["stmts"]}


def model_payload(world, wdir, case, phys=None):
    """`wdir`: the RESOLVED project root; `phys`: rows of `phys_rows` for a project behind links"""
    roots = world.real_roots(False)
    root_comps = str(wdir).replace("/", ".").split(".")
    tgt = next(f for f in case["files"] if f["path"] == case["target"])
    out = {"roots": [[f["path"] for f in case["files"]]] + [[] for _ in roots[1:]], "stdlib": [],
           "rootComps": root_comps, "files": [file_json(f) for f in case["files"]], "target": file_json(tgt),
           "fuel": FUEL}
    if phys:
        out["phys"] = phys
    return out


def impl_projection(case, obs):
    marker_file = {f["stmts"][0]["name"]: f["path"] for f in case["files"]}
    return {"outcome": obs["outcome"],
            "events": [{"file": marker_file.get(e["marker"]), "cur": e["cur"], "syms": e["syms"]} for e in obs["events"]],
            "contexts": obs["contexts"], "diags": obs["diags"]}


def model_projection(mo):
    return {k: mo[k] for k in ("outcome", "events", "contexts", "diags")}


# ------------------------------------------------------------------ the stage

def select_cases(tier, seed, rng):
    sysc = systematic_cases(rng)
    if tier == "quick":
        # half of the star reaches, a quarter of the others, chosen by the seed (every reach x level x
        # form combination stays present; the reached file varies with the seed)
        sysc = [c for i, c in enumerate(sysc)
                if ((i // 9 + i // 3 + i + seed) % 2 == 0 if c["reach"].startswith("star")
                    else (i // 9 + i // 3 + i + seed) % 4 == 0)]
        n_random = 24
    else:
        n_random = 1500
        for _ in range(2):
            sysc += systematic_cases(rng)
    return sysc + [random_case(rng) for _ in range(n_random)]


def cli_sample(cases, tier, rng):
    """indices of the cases that are also run through the real CLI"""
    want = []
    for i, c in enumerate(cases):
        p = c.get("probe")
        if p and c["reach"] in ("star1-follow", "star2-follow", "star2-target", "follow-abs") and p["level"] == 1 \
                and p["file"] == REACHED[1] and p["form"] in ("star", "named"):
            want.append(i)
    rest = [i for i in range(len(cases)) if i not in want]
    want += rng.sample(rest, min(len(rest), 6 if tier == "quick" else 60))
    return want


def star_exposed(case, orc, phys):
    """project files behind a link that some `from … import *` of the project resolves to (Python's rule)"""
    behind = {tuple(r[0]) for r in phys}
    out = []
    for f in case["files"]:
        for st in f["stmts"]:
            if st["k"] == "from" and st["names"] == [["*", None]]:
                e = orc.expected_module(f["path"], st)
                if "ok" in e:
                    mf = orc.module_file(e["ok"])
                    if mf is not None and tuple(mf) in behind and mf not in out:
                        out.append(mf)
    return out


def judge_case(res, case, obs, mode, orc, mo=None, py_resolve=None, links=None):
    """`links`: {"plan": …, "phys": …} for a project realised behind symbolic links"""
    res.evaluations += 1
    res.nontrivial.add(common.digest([case["files"], case["target"], mode, links and links["plan"]]))
    res.count("walk:" + mode + (":links" if links else ""))
    res.count("walk-reach:" + case["reach"])
    res.count("walk-outcome:" + obs["outcome"])
    if case.get("probe"):
        res.count(f"walk-probe:level{case['probe']['level']}:{case['probe']['form']}")
    n_syms = sum(1 for e in obs["events"] for s in e["syms"] if s["t"] == "import") + \
        sum(1 for c in obs["contexts"] for s in c["syms"] if s["t"] == "import")
    res.count("walk-import-symbols-judged", n_syms)
    res.count("walk-compile-events", len(obs["events"]))
    res.count("walk-import-irs", max(0, len(obs["contexts"]) - 1))
    vcase = dict(case, mode=mode)
    exposed, agree = [], False
    if links:
        vcase["links"] = links["plan"]
        exposed = star_exposed(case, orc, links["phys"])
        res.count("walk-links:" + ("star-imported-file-behind-link" if exposed else
                                   "files-behind-links" if links["phys"] else "root-link-only"))
    found = orc.judge(obs, mode)
    if exposed and found and links.get("old_mo") is not None:
        # does the run behave exactly as the rule before 58a9012 (star-expansion enters the resolved path)?
        old = links["old_mo"]()
        if "__error__" not in old:
            agree = (impl_projection(case, obs) == model_projection(old)) if mode == "inproc" \
                else obs["outcome"] == old["outcome"]
    for sig, det in found:
        if exposed and agree and sig in (SIG_MIS, SIG_REJ, SIG_REJ + ":crash:ValueError",
                                         SIG_REJ + ":crash:AssertionError", SIG_REJ + ":cli"):
            # the behaviour of the star-expansion behind a link before 58a9012, exactly as its model predicts it
            det = dict(det, original_signature=sig, star_imported_behind_link=exposed)
            sig = SIG_STARLINK
        res.violations.append({"signature": sig, "case": vcase, "detail": det, "impl": {"outcome": obs["outcome"]}})
    if mo is None:
        return
    if "__error__" in mo:
        res.disagreements.append({"case": vcase, "impl": obs["outcome"], "model": mo})
        return
    if mode == "cli":
        if obs["outcome"] != mo["outcome"]:
            res.disagreements.append({"case": vcase, "differs_in": ["outcome"], "impl": obs["outcome"], "model": mo["outcome"]})
        return
    for r in mo["trace"]:
        own, is_init = own_name(r["file"])
        py = py_resolve(own, is_init, r["level"], r["target"])
        sp = r["spec"]
        res.count("walk-python:" + ("resolves" if "ok" in py else py["err"]))
        if ("ok" in py) != ("ok" in sp) or ("ok" in py and py["ok"] != sp["ok"]) or ("err" in py and py["err"] != sp["err"]):
            res.internal_errors.append({"what": "Spec.pyResolveName (walk trace) disagrees with importlib.util.resolve_name",
                                        "case": vcase, "python": py, "spec": sp, "record": r})
    a, b = impl_projection(case, obs), model_projection(mo)
    if a != b:
        dk = [k for k in a if a[k] != b[k]]
        res.disagreements.append({"case": vcase, "differs_in": dk,
                                  "impl": {k: a[k] for k in dk}, "model": {k: b[k] for k in dk}})
    if len(res.samples) < 8 and case.get("probe") and case["reach"] == "star2-follow" and case["probe"]["level"] == 2:
        res.sample({"case": {"reach": case["reach"], "probe": case["probe"], "target": case["target"],
                             "files": {"/".join(f["path"]): [render_stmt(s) for s in f["stmts"][1:]]
                                       for f in case["files"] if len(f["stmts"]) > 1}},
                    "impl": {"outcome": obs["outcome"], "import_irs": [c["key"] for c in obs["contexts"][1:]]}}, cap=8)


def run_stage(world, res, tier, seed, model, py_resolve, fs_first_match, is_in_stdlib):
    wdir = world.base / "w"
    errs = fragment_errors(world, wdir, is_in_stdlib, more=LINK_NAMES + ["wk"] + [f"q{n}" for n in range(30 if tier == "quick" else 300)])
    if errs:
        res.internal_errors.append({"what": "walk stage: environment outside the model's assumptions", "detail": errs})
        return
    rng = random.Random(seed * 7919 + 13)
    cases = select_cases(tier, seed, rng)
    # the same projects realised behind symbolic links (package directories / files linked to places off
    # the search path, the root spelled through a link): the model predicts them from `phys`
    linked = link_cases(world, cases, tier, seed)
    outs = model.batch([("import_walk", model_payload(world, wdir, c)) for c in cases] +
                       [("import_walk", model_payload(world, lc["real"], lc["case"], lc["phys"])) for lc in linked])
    for lc, mo in zip(linked, outs[len(cases):]):
        lc["mo"] = mo
        lc["old_mo"] = (lambda lc=lc: model.batch([("import_walk", dict(
            model_payload(world, lc["real"], lc["case"], lc["phys"]), before58a9012=True))])[0])
    roots = [wdir] + world.real_roots(False)[1:]
    # the real CLI on a sample of both (own directories; started now, the runs go on while the in-process
    # runs below keep this process busy)
    picks = cli_sample(cases, tier, rng)
    dirs = []
    for n, i in enumerate(picks):
        d = world.base / f"c{n}"
        write_project(d, cases[i])
        dirs.append(d)
    lpicks = cli_link_sample(linked, tier, rng)
    jobs = [(d, cases[i], None) for d, i in zip(dirs, picks)] + [(lc["real"], lc["case"], lc["cwd"]) for lc in lpicks]
    ex = ThreadPoolExecutor(max_workers=4)
    try:
        futures = [ex.submit(run_cli, j[0], j[1], j[2]) for j in jobs]
        import time
        t0 = time.process_time()
        for case, mo in zip(cases, outs):
            write_project(wdir, case)
            obs = run_inproc(wdir, case)
            orc = Oracle(case, roots, py_resolve, fs_first_match)
            judge_case(res, case, obs, "inproc", orc, mo, py_resolve)
        for lc in linked:
            obs = run_inproc(lc["real"], lc["case"], cwd=lc["cwd"])
            orc = Oracle(lc["case"], [lc["cwd"]] + world.real_roots(False)[1:], py_resolve, fs_first_match)
            judge_case(res, lc["case"], obs, "inproc", orc, lc["mo"], py_resolve, links=lc)
        res.extra["walk_inproc_cpu_s"] = round(time.process_time() - t0, 1)
        cli_obs = [f.result() for f in futures]
    finally:
        ex.shutdown(wait=True)
    for d, i, obs in zip(dirs, picks, cli_obs):
        orc = Oracle(cases[i], [d] + world.real_roots(False)[1:], py_resolve, fs_first_match)
        judge_case(res, cases[i], obs, "cli", orc)
    for lc, obs in zip(lpicks, cli_obs[len(picks):]):
        orc = Oracle(lc["case"], [lc["cwd"]] + world.real_roots(False)[1:], py_resolve, fs_first_match)
        judge_case(res, lc["case"], obs, "cli", orc, lc["mo"], py_resolve, links=lc)
    res.extra["walk_cases"] = len(cases)
    res.extra["walk_cli_cases"] = len(picks) + len(lpicks)
    res.extra["walk_link_cases"] = len(linked)


def link_cases(world, cases, tier, seed):
    """A stratified selection of the stage's projects (every way a file is reached), each realised
    behind links according to a seeded plan."""
    rng = random.Random(seed * 15485863 + 5)
    by_reach = {}
    for c in cases:
        if any(len(f["path"]) >= 2 for f in c["files"]):
            by_reach.setdefault(c["reach"], []).append(c)
    for v in by_reach.values():
        rng.shuffle(v)
    want = 27 if tier == "quick" else 300
    order = []
    while len(order) < want and any(by_reach.values()):
        for reach in sorted(by_reach):
            if by_reach[reach] and len(order) < want:
                order.append(by_reach[reach].pop())
    out = []
    for n, case in enumerate(order):
        plan = link_plan(rng, case)
        top = world.base / "wk" / f"q{n}"
        cwd, real = write_linked_project(top, case, plan)
        phys = phys_rows(real, case)
        if not phys and not plan["root_link"]:
            continue
        out.append({"case": case, "plan": plan, "phys": phys, "cwd": cwd, "real": real})
    return out


def cli_link_sample(linked, tier, rng):
    """linked projects also run through the real CLI: files behind links reached as followed imports first"""
    pref = [lc for lc in linked if lc["phys"] and lc["case"]["reach"] in ("follow-abs", "follow-plain", "follow-rel", "reexport")]
    rest = [lc for lc in linked if lc not in pref]
    n = 2 if tier == "quick" else 24
    picks = pref[:max(1, n // 2)]
    picks += rest[:n - len(picks)]
    return picks


def replay_case(world, case, py_resolve, fs_first_match):
    if case.get("links"):
        return replay_linked(world, case, py_resolve, fs_first_match)
    wdir = world.base / "w"
    write_project(wdir, case)
    roots = [wdir] + world.real_roots(False)[1:]
    for f in case["files"]:
        if len(f["stmts"]) > 1 or f["path"] == case["target"]:
            print("  ", "/".join(f["path"]), [render_stmt(s) + f"  #{s['line']}" for s in f["stmts"]])
    print("target:", "/".join(case["target"]), " mode:", case.get("mode"))
    obs = run_cli(wdir, case) if case.get("mode") == "cli" else run_inproc(wdir, case)
    orc = Oracle(case, roots, py_resolve, fs_first_match)
    print("OUTCOME:", obs["outcome"], json.dumps(obs.get("diags", obs.get("diag_templates")))[:600])
    print("VIOLATIONS:", json.dumps(orc.judge(obs, case.get("mode", "inproc")), indent=1)[:4000])
    mo = common.Model().batch([("import_walk", model_payload(world, wdir, case))])[0]
    if case.get("mode") != "cli" and "__error__" not in mo:
        a, b = impl_projection(case, obs), model_projection(mo)
        dk = [k for k in a if a[k] != b[k]]
        print("MODEL agrees" if not dk else "MODEL differs in " + json.dumps({k: [a[k], b[k]] for k in dk})[:3000])
    return 0


def replay_linked(world, case, py_resolve, fs_first_match):
    plan = case["links"]
    cwd, real = write_linked_project(world.base / "wk" / "q0", case, plan)
    phys = phys_rows(real, case)
    for f in case["files"]:
        if len(f["stmts"]) > 1 or f["path"] == case["target"]:
            print("  ", "/".join(f["path"]), [render_stmt(s) + f"  #{s['line']}" for s in f["stmts"]])
    print("target:", "/".join(case["target"]), " mode:", case.get("mode"), " run in:", cwd)
    print("links:", [f"{'/'.join(p)} -> wo/{'/'.join(d)}" for _k, p, d in plan["links"]], " root spelled through a link:", plan["root_link"])
    obs = run_cli(real, case, cwd=cwd) if case.get("mode") == "cli" else run_inproc(real, case, cwd=cwd)
    orc = Oracle(case, [cwd] + world.real_roots(False)[1:], py_resolve, fs_first_match)
    print("OUTCOME:", obs["outcome"], json.dumps(obs.get("diags", obs.get("diag_templates")))[:600])
    print("VIOLATIONS (before the known-finding classification):", json.dumps(orc.judge(obs, case.get("mode", "inproc")), indent=1)[:4000])
    mo = common.Model().batch([("import_walk", model_payload(world, real, case, phys))])[0]
    agree = False
    if "__error__" in mo:
        print("MODEL error", mo)
    elif case.get("mode") == "cli":
        print("MODEL outcome:", mo["outcome"])
        agree = mo["outcome"] == obs["outcome"]
    else:
        a, b = impl_projection(case, obs), model_projection(mo)
        dk = [k for k in a if a[k] != b[k]]
        agree = not dk
        print("MODEL agrees" if not dk else "MODEL differs in " + json.dumps({k: [a[k], b[k]] for k in dk})[:3000])
    exposed = star_exposed(case, orc, phys)
    if exposed:
        old = common.Model().batch([("import_walk", dict(model_payload(world, real, case, phys), before58a9012=True))])[0]
        if "__error__" in old:
            same = False
        elif case.get("mode") == "cli":
            same = old["outcome"] == obs["outcome"]
        else:
            same = impl_projection(case, obs) == model_projection(old)
        print("star-imported files behind a link:", exposed, "-> the run",
              "behaves exactly as the rule before 58a9012 (signature " + SIG_STARLINK + ")" if same else
              "does not behave as the rule before 58a9012")
    return 0

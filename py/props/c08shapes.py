"""C08, the SHADOWING axis: every binder x every parameter-list SHAPE x every call form.

The property quantifies over "shadowing by parameters at any nesting depth".  A parameter is not only
a regular `ast.arguments.args` entry: the name may sit in `posonlyargs`, `args`, `kwonlyargs`, `vararg`
or `kwarg`, alone or among others, with or without a default — and a parameter list whose `args` is
empty (`lambda *, f: …`, `lambda f, /: …`, `lambda *f: …`, `lambda **f: …`) is still a parameter list.

  shape  = (kind of the shadowing parameter X, has a default, which OTHER kinds are present too,
            other-of-the-same-kind before / after X)                       -> `shapes()`
  binder = the construct whose parameter list it is, and where the call sits relative to it
           (top-level def / async def, nested def (own, enclosing), lambda at depth 1 and 2 (outer /
           inner binds), lambda inside / around an argument-less thunk, named module-level lambda,
           lambda in a nested def / returned / in an initialiser / in a static method / in a
           comprehension / as a keyword argument / assigned to a local name, the lambdas the custom
           analysers of `sorted(key=…)` and `collections.defaultdict(…)` visit)   -> BINDERS
  form   = bare call of a module-level function / lambda / class / from-import, dotted call through
           a module import / alias / `from a import b` / `import a.b as x` / `from a.b import c as x`
           / un-aliased `import a.b` (+ `import a`), `C.s()` of a static method        -> FORMS

Oracle = Python's scoping rules only: inside the binder's scope X is the parameter, so NOTHING may be
inlined for a call through X; a CONTROL row per (binder, form) has a parameter list of every shape
class WITHOUT X and must inline the module-level callee (this keeps the detection itself honest).
One caller = one row; the callee's distinctive attribute `mark_*` appears in the caller's results
entry iff the callee was inlined.
"""
from __future__ import annotations

import ast

KINDS = ("posonly", "pos", "kwonly", "vararg", "kwarg")
KIND_TEXT = {"posonly": "positional-only", "pos": "positional-or-keyword", "kwonly": "keyword-only",
             "vararg": "*args", "kwarg": "**kwargs"}
OTHER_NAME = {"posonly": "op", "pos": "oa", "kwonly": "ok", "vararg": "ov", "kwarg": "ow"}


def render(x, xkind, default, others, before):
    """The parameter list (source text) or None when Python's grammar has no such list."""
    pos_only, pos, kwonly, vararg, kwarg = [], [], [], None, None
    lists = {"posonly": pos_only, "pos": pos, "kwonly": kwonly}
    if x is not None:
        if xkind in lists:
            lists[xkind].append((x, default))
        elif xkind == "vararg":
            vararg = x
        else:
            kwarg = x
    for k in KINDS:
        if k not in others:
            continue
        n = OTHER_NAME[k]
        if k in lists:
            if x is not None and k == xkind and before:
                lists[k].insert(0, (n, False))
            else:
                lists[k].append((n, False))
        elif k == "vararg":
            if vararg is not None:
                return None
            vararg = n
        else:
            if kwarg is not None:
                return None
            kwarg = n
    # a positional parameter after one with a default needs a default too
    seen_default = False
    fixed = []
    for lst in (pos_only, pos):
        out = []
        for n, d in lst:
            d = d or seen_default
            seen_default = seen_default or d
            out.append((n, d))
        fixed.append(out)
    pos_only, pos = fixed

    def one(n, d):
        return f"{n}=None" if d else n

    parts = [one(*p) for p in pos_only]
    if pos_only:
        parts.append("/")
    parts += [one(*p) for p in pos]
    if vararg is not None:
        parts.append("*" + vararg)
    elif kwonly:
        parts.append("*")
    parts += [one(*p) for p in kwonly]
    if kwarg is not None:
        parts.append("**" + kwarg)
    text = ", ".join(parts)
    try:
        ast.parse(f"lambda {text}: 0")
    except SyntaxError:
        return None
    return text


OTHER_SETS = [frozenset()] + [frozenset([k]) for k in KINDS] + [frozenset(KINDS)]


def shapes():
    """[(shape id, dict)] — every shape of a parameter list that contains X."""
    out = []
    for xkind in KINDS:
        for default in ((False, True) if xkind in ("posonly", "pos", "kwonly") else (False,)):
            for others in OTHER_SETS:
                if xkind in ("vararg", "kwarg") and xkind in others:
                    others = others - {xkind}
                    if len(others) != len(KINDS) - 1:
                        continue            # the singleton {same kind} does not exist for * / **
                for before in ((False, True) if (xkind in others and xkind in ("posonly", "pos", "kwonly")) else (False,)):
                    if render("X", xkind, default, others, before) is None:
                        continue
                    oid = "alone" if not others else "all" if len(others) >= 4 else "+" + next(iter(others))
                    sid = f"{xkind}{'=d' if default else ''}:{oid}{':after-other' if before else ''}"
                    out.append((sid, {"xkind": xkind, "default": default, "others": sorted(others), "before": before}))
    # de-duplicate by rendered text
    seen, uniq = set(), []
    for sid, sh in out:
        t = render("X", sh["xkind"], sh["default"], frozenset(sh["others"]), sh["before"])
        if t not in seen:
            seen.add(t)
            uniq.append((sid, sh))
    return uniq


def control_shapes():
    """parameter lists WITHOUT X: empty, and one parameter of each kind."""
    out = [("no-parameters", "")]
    for k in KINDS:
        out.append((f"only-{k}", render(None, None, False, frozenset([k]), False)))
    return out


def is_sole(sh):
    return not sh["others"] and not sh["default"]


def args_empty(sh):
    """`ast.arguments.args` of this shape is empty (the shadowing parameter is not a regular one and no regular one is present)"""
    return sh["xkind"] != "pos" and "pos" not in sh["others"]


def n_regular(sh):
    return (1 if sh["xkind"] == "pos" else 0) + (1 if "pos" in sh["others"] else 0)


# ------------------------------------------------------------------ call forms

# id -> (class, kind name used in signatures, X, call expression template, mark, control expectation)
FORMS = {
    "fn": ("bare", "fn", "target_fn", "target_fn({a})", "mark_fn", "must"),
    "lam": ("bare", "lam", "target_lam", "target_lam({a})", "mark_lam", "must"),
    "cls": ("bare", "cls", "TargetCls", "TargetCls({a})", "mark_cls", "must"),
    "imp": ("bare", "imp", "imp_fn", "imp_fn({a})", "mark_imp", "must"),
    "mod": ("dotted", "module-import", "mod", "mod.mod_fn({a})", "mark_mod", "must"),
    "alias": ("dotted", "module-import-alias", "m2", "m2.mod_fn({a})", "mark_mod", "must"),
    "from-mod": ("dotted", "from-a-import-b", "sub", "sub.dfn({a})", "mark_sub", "must"),
    "import-as": ("dotted", "import-a.b-as-x", "ps", "ps.dfn({a})", "mark_sub", "must"),
    "from-as": ("dotted", "from-a.b-import-c-as-x", "lf", "lf.lfn({a})", "mark_leaf", "must"),
    "unaliased": ("dotted", "unaliased-import-a.b", "pk", "pk.sub.dfn({a})", "mark_sub", "may"),
    "unaliased+parent": ("dotted", "unaliased-import-a.b-and-import-a", "qk", "qk.sub.qfn({a})", "mark_qsub", "may"),
    "static": ("dotted", "static-method", "Holder", "Holder.sm({a})", "mark_sm", "must"),
}
BARE_FORMS = [f for f, v in FORMS.items() if v[0] == "bare"]
DOTTED_FORMS = [f for f, v in FORMS.items() if v[0] == "dotted"]

# ------------------------------------------------------------------ binders

# id -> (shadow class for the signature, template, argument name, results key template, description)
# {n} caller name, {p} parameter list, {c} call expression
BINDERS = {
    "def": ("function-parameter", "def {n}({p}):\n    {c}\n", "GV", "{n}"),
    "async-def": ("function-parameter", "async def {n}({p}):\n    {c}\n", "GV", "{n}"),
    "def-enclosing-nested-def": ("function-parameter", "def {n}({p}):\n    def inner(q):\n        {c}\n", "GV", "{n}"),
    "def-enclosing-lambda": ("function-parameter", "def {n}({p}):\n    apply_unknown(lambda q: {c})\n", "GV", "{n}"),
    "nested-def": ("nested-def-parameter", "def {n}(v):\n    def inner({p}):\n        {c}\n", "v", "{n}"),
    "nested-async-def": ("nested-def-parameter", "def {n}(v):\n    async def inner({p}):\n        {c}\n", "v", "{n}"),
    "nested-def-2-deep": ("nested-def-parameter", "def {n}(v):\n    def mid(q):\n        def inner({p}):\n            {c}\n", "v", "{n}"),
    "lambda-1": ("lambda-parameter", "def {n}(v, fs):\n    apply_unknown(lambda {p}: {c}, fs)\n", "v", "{n}"),
    "lambda-2-outer-binds": ("lambda-parameter", "def {n}(v, fs):\n    apply_unknown(lambda {p}: (lambda q: {c}), fs)\n", "v", "{n}"),
    "lambda-2-inner-binds": ("lambda-parameter", "def {n}(v, fs):\n    apply_unknown(lambda q: (lambda {p}: {c}), fs)\n", "v", "{n}"),
    "lambda-inside-thunk": ("lambda-parameter", "def {n}(v, fs):\n    apply_unknown(lambda: (lambda {p}: {c}), fs)\n", "v", "{n}"),
    "lambda-around-thunk": ("lambda-parameter", "def {n}(v, fs):\n    apply_unknown(lambda {p}: (lambda: {c}), fs)\n", "v", "{n}"),
    "named-lambda": ("lambda-parameter", "{n} = lambda {p}: {c}\n", "GV", "{n}"),
    "lambda-in-nested-def": ("lambda-parameter", "def {n}(v, fs):\n    def inner(q):\n        apply_unknown(lambda {p}: {c}, fs)\n", "v", "{n}"),
    "lambda-returned": ("lambda-parameter", "def {n}(v):\n    return lambda {p}: {c}\n", "v", "{n}"),
    "lambda-in-initialiser": ("lambda-parameter", "class {n}:\n    def __init__(self, v, fs):\n        apply_unknown(lambda {p}: {c}, fs)\n", "v", "{n}"),
    "lambda-in-static-method": ("lambda-parameter", "class {n}:\n    @staticmethod\n    def run(v, fs):\n        apply_unknown(lambda {p}: {c}, fs)\n", "v", "{n}.run"),
    "lambda-in-comprehension": ("lambda-parameter", "def {n}(v, fs):\n    [(lambda {p}: {c}) for q in fs]\n", "v", "{n}"),
    "lambda-keyword-argument": ("lambda-parameter", "def {n}(v, fs):\n    apply_unknown(fs, callback=lambda {p}: {c})\n", "v", "{n}"),
    "lambda-in-lambda-default": ("lambda-parameter", "def {n}(v, fs):\n    apply_unknown(lambda {p}: (lambda q=None: {c}), fs)\n", "v", "{n}"),
    "defaultdict-factory-lambda": ("lambda-parameter", "def {n}(v):\n    d = collections.defaultdict(lambda {p}: {c})\n", "v", "{n}"),
    "defaultdict-from-import-factory-lambda": ("lambda-parameter", "def {n}(v):\n    d = defaultdict(lambda {p}: {c})\n", "v", "{n}"),
    "sorted-key-lambda": ("sorted-key-lambda", "def {n}(v, fs):\n    sorted(fs, key=lambda {p}: {c})\n", "v", "{n}"),
}
# a lambda assigned to a local name is registered as a local function and its body is NOT visited: nothing can be inlined,
# shadowed or not (control = nothing either)
BINDERS_NEVER = {
    "local-named-lambda": ("lambda-parameter", "def {n}(v):\n    g = lambda {p}: {c}\n", "v", "{n}"),
}

SHAPE_EXTRA_IMPORTS = "import collections\nfrom collections import defaultdict\n"
SHAPE_EXTRA_DEFS = "GV = object()\n"


def applicable(binder, sh):
    """`sorted(key=lambda …)`: the custom analyser raises SyntaxError unless the lambda has exactly ONE regular parameter
    (a crash, C07's subject) — only those shapes are rows here."""
    if binder == "sorted-key-lambda":
        return sh is None or n_regular(sh) == 1
    return True


def applicable_control(binder, ctext):
    if binder == "sorted-key-lambda":
        return ctext == "oa"
    return True


def build(seed, tier):
    """[(row dict)] — the FULL product binder x shape x form (+ the controls) in both tiers.  `inproc` marks the rows that
    also go through the in-process correspondence with the Lean model: quick = every (binder, shape) pair and every
    (binder, control shape) pair with ONE call form (rotating with the seed); thorough = all."""
    rows = []
    shp = shapes()
    ctrl = control_shapes()
    binders = {**BINDERS, **BINDERS_NEVER}
    idx = 0

    def add(binder, form, sid, sh, ptext, control, inproc):
        nonlocal idx
        shadow, tmpl, arg, key = binders[binder]
        fclass, fkind, x, call, mark, must = FORMS[form]
        name = f"s{idx}"
        idx += 1
        src = tmpl.format(n=name, p=ptext, c=call.format(a=arg))
        try:
            ast.parse(src)
        except SyntaxError:
            return
        if binder in BINDERS_NEVER:
            expect = None
        elif control:
            expect = mark if must == "must" else ("may", mark)
        else:
            expect = None
        if binder == "sorted-key-lambda" and not control:
            shadow = "sorted-key-lambda-iterator" if sh["xkind"] == "pos" else "sorted-key-lambda-extra-parameter"
        rows.append({"name": name, "key": key.format(n=name), "src": src, "binder": binder, "form": form, "fclass": fclass,
                     "fkind": fkind, "shape": sid, "shape_detail": sh, "params": ptext, "control": control,
                     "shadow": shadow, "expect": expect, "x": x, "mark": mark, "inproc": inproc})

    for bi, binder in enumerate(binders):
        for si, (sid, sh) in enumerate(shp):
            if not applicable(binder, sh):
                continue
            rot = list(FORMS)[(5 * bi + si + seed) % len(FORMS)]
            for form in FORMS:
                x = FORMS[form][2]
                ptext = render(x, sh["xkind"], sh["default"], frozenset(sh["others"]), sh["before"])
                add(binder, form, sid, sh, ptext, False, tier == "thorough" or form == rot)
        for ci, (cid, ctext) in enumerate(ctrl):
            if not applicable_control(binder, ctext):
                continue
            rot = list(FORMS)[(5 * bi + ci + seed) % len(FORMS)]
            for form in FORMS:
                add(binder, form, "control:" + cid, None, ctext, True, tier == "thorough" or form == rot)
    return rows


def signature(r, wrong):
    """computed from the INPUT row only (`wrong`: something other than the expected callee was inlined)"""
    form = "bare" if r["fclass"] == "bare" else f"dotted-{r['fkind']}"
    if r["control"] and r["expect"] is not None:
        if wrong:
            return f"inlined-wrong-callee:{r['binder']}:{form}"
        return f"not-inlined-though-unshadowed:{r['binder']}:{form}"
    if r["binder"] in BINDERS_NEVER:
        return f"inlined-from-unvisited-local-lambda:{form}"
    if r["shadow"] == "sorted-key-lambda-extra-parameter":
        # one defect whatever the call form: the key lambda's parameters other than the first regular one are never
        # registered (static methods apart: those are ALSO inlined through any parameter, see dotted-static-method)
        form = "bare" if r["fclass"] == "bare" else "dotted-static-method" if r["fkind"] == "static-method" else "dotted"
    return f"inlined-although-shadowed-by-{r['shadow']}:{form}"

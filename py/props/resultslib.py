"""Shared harness for the result-generation properties (C03, C05, C14).

generate programs -> real FileAnalyser -> snapshot of the FileIr -> (a) real
generate_results_from_ir on a copy, (b) Lean model `Results.generate` on the snapshot,
(c) independent closure oracle (`Derivable`) computed here from the snapshot.
"""
from __future__ import annotations

import ast
import random
import re
from pathlib import Path

import impl
from props import c04 as c04mod

from rattr.analyser.file import FileAnalyser
from rattr.config.state import enter_file
from rattr.models.context import compile_root_context
from rattr.models.ir import FileIr
from rattr.results import IrCall, IrEnvironment, find_call_target_and_ir, generate_results_from_ir

TARGET = Path("target.py")

# ------------------------------------------------------------------ program generation

ARG_SHAPES = ["param", "param", "param", "attr", "sub", "call", "const", "tuple", "star"]


class ProgGen:
    """Programs of 2..n functions with chains, diamonds, shared callees, recursion; argument shapes
    {param, p.attr, p[0], call result, literal, keyword, omitted}; signatures over the 5 kinds."""

    def __init__(self, rng: random.Random, n_funcs=None, clean=False, allow_cycles=True):
        self.rng = rng
        # in some programs every function draws its parameter names from one small pool, so that a
        # caller's argument names coincide with (a permutation of) the callee's parameter names
        self.shared_names = rng.random() < 0.3
        self.n = n_funcs or rng.randint(2, 7)
        self.clean = clean          # stay inside the fragment where C03 is a theorem
        self.allow_cycles = allow_cycles and not clean

    def signature(self, i):
        r = self.rng
        n = r.randint(1, 3)
        names = [f"p{i}{c}" for c in "abc"[:n]]
        if self.shared_names:
            names = r.sample(["left", "right", "item", "other"], n)
        kinds = sorted(r.choice(["po", "ar", "ar", "ar", "ko"]) for _ in names)
        order = {"po": 0, "ar": 1, "ko": 2}
        kinds.sort(key=order.get)
        po = [n_ for n_, k in zip(names, kinds) if k == "po"]
        ar = [n_ for n_, k in zip(names, kinds) if k == "ar"]
        ko = [n_ for n_, k in zip(names, kinds) if k == "ko"]
        pos = po + ar
        ndef = r.choice([0, 0, 0, 1]) if pos else 0
        dpos = [j >= len(pos) - ndef for j in range(len(pos))]
        sig = {
            "posonly": [{"name": x, "default": dpos[j]} for j, x in enumerate(po)],
            "args": [{"name": x, "default": dpos[len(po) + j]} for j, x in enumerate(ar)],
            "vararg": (f"va{i}" if r.random() < 0.12 else None),
            "kwonly": [{"name": x, "default": r.random() < 0.4} for x in ko],
            "kwarg": (f"kw{i}" if r.random() < 0.12 else None),
        }
        return sig

    def params_of(self, sig):
        ps = [p["name"] for k in ("posonly", "args", "kwonly") for p in sig[k]]
        if sig["vararg"]:
            ps.append(sig["vararg"])
        if sig["kwarg"]:
            ps.append(sig["kwarg"])
        return ps

    def arg_expr(self, caller_params, shape, i):
        r = self.rng
        p = r.choice(caller_params) if caller_params else "glob"
        if shape == "param":
            return p
        if shape == "attr":
            return f"{p}.n{i}"
        if shape == "sub":
            return f"{p}[0]"
        if shape == "call":
            return f"{p}.mk()"
        if shape == "const":
            return r.choice(["1", "'s'", "None"])
        if shape == "tuple":
            return f"({p}, 1)"
        if shape == "star":
            return f"*{p}"
        raise AssertionError(shape)

    def call_to(self, caller_i, caller_params, callee_i, sig):
        """Source of a call Python accepts (mostly) to function callee_i."""
        r = self.rng
        shapes = ["param"] if self.clean else ARG_SHAPES
        parts = []
        pos = sig["posonly"] + sig["args"]
        # how many positionals to pass
        required_pos = [p for p in pos if not p["default"]]
        kmax = len(pos)
        k = r.randint(len(sig["posonly"]) if not self.clean else len(required_pos), kmax) if pos else 0
        if not self.clean and r.random() < 0.08:
            k = r.randint(0, kmax + 1)          # arity errors, rarely
        for j in range(k):
            sh = r.choice(shapes)
            if sh == "star":
                sh = "param"
            parts.append(self.arg_expr(caller_params, sh, callee_i))
        if sig["vararg"] and r.random() < 0.5 and k >= len(pos):
            parts.append(self.arg_expr(caller_params, r.choice(shapes), callee_i))
        # remaining positional-or-keyword by keyword
        for p in sig["args"][max(0, k - len(sig["posonly"])):]:
            if not p["default"] or r.random() < 0.5:
                parts.append(f"{p['name']}={self.arg_expr(caller_params, r.choice([s for s in shapes if s != 'star']), callee_i)}")
        for p in sig["kwonly"]:
            if not p["default"] or r.random() < 0.5:
                parts.append(f"{p['name']}={self.arg_expr(caller_params, r.choice([s for s in shapes if s != 'star']), callee_i)}")
        if sig["kwarg"] and r.random() < 0.5:
            parts.append(f"extra{callee_i}={self.arg_expr(caller_params, 'param', callee_i)}")
        return f"f{callee_i}({', '.join(parts)})"

    def build(self):
        r = self.rng
        n = self.n
        sigs = [self.signature(i) for i in range(n)]
        if self.clean:
            for s in sigs:
                s["vararg"] = None
                s["kwarg"] = None
        # edges: mostly forward (acyclic), optionally a few back edges / self loops
        edges = {i: [] for i in range(n)}
        for i in range(n):
            for j in range(i + 1, n):
                if r.random() < (0.45 if j == i + 1 else 0.25):
                    edges[i].append(j)
                    if not self.clean and r.random() < 0.15:
                        edges[i].append(j)   # the same callee twice from one caller
        if self.clean:
            # every callee reached through exactly one call record: make the graph a forest
            seen_callee = set()
            for i in range(n):
                keep = []
                for j in edges[i]:
                    if j not in seen_callee:
                        seen_callee.add(j)
                        keep.append(j)
                edges[i] = keep
        if self.allow_cycles and r.random() < 0.3:
            a = r.randrange(n)
            b = r.randrange(n)
            edges[max(a, b)].append(min(a, b))
        funcs = []
        for i in range(n):
            sig = sigs[i]
            params = self.params_of(sig)
            body = []
            for p in params:
                if r.random() < 0.8:
                    kind = r.choice(["get", "get", "set", "del", "deep", "subget", "starget"] if not self.clean
                                    else ["get", "get", "set", "del", "deep"])
                    if kind == "get":
                        body.append(f"{p}.g{i}")
                    elif kind == "set":
                        body.append(f"{p}.s{i} = 1")
                    elif kind == "del":
                        body.append(f"del {p}.d{i}")
                    elif kind == "deep":
                        body.append(f"{p}.m{i}.q{i}")
                    elif kind == "subget":
                        body.append(f"{p}[0].i{i}")
                    elif kind == "starget":
                        body.append(f"print(*{p}.st{i})")
            if not self.clean and r.random() < 0.2:
                body.append(f"loc{i} = {params[0] if params else '1'}")
                body.append(f"loc{i}.l{i}")
            for j in edges[i]:
                body.append(self.call_to(i, params, j, sigs[j]))
            r.shuffle(body)
            if not body:
                body = ["pass"]
            funcs.append((i, sig, body))
        order = list(range(n))
        if not self.clean or True:
            r.shuffle(order)
        src = []
        for i in order:
            _, sig, body = funcs[i]
            hdr = c04mod.py_source(sig).replace("def callee(", f"def f{i}(").replace(": pass", ":")
            src.append(hdr)
            for b in body:
                src.append("    " + b)
            src.append("")
        return "\n".join(src), {f"f{i}": sigs[i] for i in range(n)}


# ------------------------------------------------------------------ implementation side

def analyse_source(source: str):
    """Real single-file analysis (no imports): returns the FileIr."""
    impl.reset_config(target=TARGET)
    tree = ast.parse(source)
    with impl.Tap(), enter_file(TARGET):
        ctx = compile_root_context(tree)
        file_ir = FileAnalyser(tree, ctx).analyse()
    return file_ir


def names_of_set(s):
    return sorted([n.name, n.basename] for n in s)


def iface_json(sym):
    i = sym.interface
    return {"posonly": list(i.posonlyargs), "args": list(i.args), "vararg": i.vararg,
            "kwonly": list(i.kwonlyargs), "kwarg": i.kwarg}


def snapshot(file_ir: FileIr):
    """JSON snapshot for the model + bookkeeping for the oracle."""
    symbols = list(file_ir)                      # iteration order of target_ir
    key_of = {id(s): k for k, s in enumerate(symbols)}
    cids = {}
    fns = []
    env = IrEnvironment(target_ir=file_ir, import_irs={})
    resolve = {}
    with impl.Tap():
        for k, sym in enumerate(symbols):
            ir = file_ir[sym]
            calls = []
            for c in ir["calls"]:                # real set iteration order
                cid = cids.setdefault(c, len(cids))
                calls.append({"cid": cid, "name": c.id, "args": list(c.args.args),
                              "kwargs": [[a, b] for a, b in c.args.kwargs.items()]})
                if cid not in resolve:
                    out = impl.outcome_of(find_call_target_and_ir, IrCall(caller=sym, symbol=c), environment=env)
                    if out[0] == "ok" and out[1] is not None:
                        tk = None
                        for j, s2 in enumerate(symbols):
                            if s2 == out[1].symbol and file_ir[s2] is out[1].ir:
                                tk = j
                        resolve[cid] = tk if tk is not None else "foreign"
                    elif out[0] == "ok":
                        resolve[cid] = None
                    else:
                        resolve[cid] = "crash:" + str(out[1])
            fns.append({"name": sym.name, "kind": type(sym).__name__, "iface": iface_json(sym), "calls": calls,
                        "gets": names_of_set(ir["gets"]), "sets": names_of_set(ir["sets"]),
                        "dels": names_of_set(ir["dels"])})
    return {"fns": fns, "resolve": [[c, k] for c, k in sorted(resolve.items())], "order": list(range(len(symbols)))}


def copy_file_ir(file_ir: FileIr) -> FileIr:
    return FileIr(context=file_ir.context, file_ir=file_ir.ir_as_dict())


def run_impl(file_ir: FileIr, rounds=1):
    """Real generate_results_from_ir on a deep copy; returns per round (results, store)."""
    work = copy_file_ir(file_ir)
    symbols = list(work)
    out_rounds = []
    impl.Config().state.current_file = None
    for _ in range(rounds):
        with impl.Tap():
            out = impl.outcome_of(generate_results_from_ir, target_ir=work, import_irs={})
        if out[0] != "ok":
            return {"outcome": out[1] if out[0] == "crash" else "fatal", "rounds": out_rounds}
        res = out[1]
        results = []
        for k, sym in enumerate(symbols):
            if sym.id not in res:
                # a function silently dropped from the results: keep the harness alive, the
                # comparison with the model / the oracle will report it
                results.append({"key": k, "gets": ["<function missing from results>"], "sets": [], "dels": [], "calls": []})
                continue
            r = res[sym.id]
            results.append({"key": k, "gets": sorted(r["gets"]), "sets": sorted(r["sets"]),
                            "dels": sorted(r["dels"]), "calls": sorted(r["calls"])})
        store = [{"key": k, "gets": names_of_set(work[s]["gets"]), "sets": names_of_set(work[s]["sets"]),
                  "dels": names_of_set(work[s]["dels"])} for k, s in enumerate(symbols)]
        out_rounds.append({"results": results, "store": store})
    return {"outcome": "ok", "rounds": out_rounds}


def canon_model_round(rd):
    """Model output -> same shape as run_impl's."""
    results = [{"key": r["key"], "gets": sorted({n[0] for n in r["gets"]}), "sets": sorted({n[0] for n in r["sets"]}),
                "dels": sorted({n[0] for n in r["dels"]})} for r in rd["results"]]
    store = [{"key": r["key"], "gets": sorted(map(list, {tuple(n) for n in r["gets"]})),
              "sets": sorted(map(list, {tuple(n) for n in r["sets"]})),
              "dels": sorted(map(list, {tuple(n) for n in r["dels"]}))} for r in rd["store"]]
    return {"results": results, "store": store}


def strip_calls(rd):
    return {"results": [{k: v for k, v in r.items() if k != "calls"} for r in rd["results"]], "store": rd["store"]}


# ------------------------------------------------------------------ the closure oracle (Spec.Derivable)

ROOT_RE = re.compile(r"^\*?([^.\[\(]*)")


def root_var(spelling: str) -> str:
    """The root variable (README: basename) of a spelled expression."""
    return ROOT_RE.match(spelling).group(1)


def subst(binding: dict, full: str, base: str):
    """Rewrite the root variable of a callee name to the argument expression."""
    if base not in binding:
        return full, base
    rep = binding[base]
    star = full.startswith("*")
    body = full[1:] if star else full
    if not body.startswith(base):
        return None
    rep_body = rep[1:] if rep.startswith("*") else rep
    new = ("*" if star else "") + rep_body + body[len(base):]
    return new, root_var(rep_body)


def python_binding(sig, call):
    """param -> argument spelling as CPython binds the call (plus stand-ins), or None if rejected."""
    pb = c04mod.python_bind(sig, {"args": call["args"], "kwargs": call["kwargs"]})
    if pb[0] != "ok":
        return None
    b = {k: v for k, v in pb[1]}
    if sig["vararg"]:
        b[sig["vararg"]] = "@Tuple"
    if sig["kwarg"]:
        b[sig["kwarg"]] = "@Dict"
    return b


class Closure:
    """Bounded unfolding of Derivable over the snapshot. `sigs`: function name -> real signature
    (with defaults) or None when only the interface is known."""

    def __init__(self, snap, sigs, depth):
        self.snap = snap
        self.sigs = sigs
        self.depth = depth
        self.resolve = {c: k for c, k in snap["resolve"]}
        self.memo = {}

    def sig_of(self, k):
        f = self.snap["fns"][k]
        s = self.sigs.get(f["name"])
        if s is not None and f["kind"] == "Func":
            return s
        i = f["iface"]
        return {"posonly": [{"name": x, "default": True} for x in i["posonly"]],
                "args": [{"name": x, "default": True} for x in i["args"]],
                "vararg": i["vararg"],
                "kwonly": [{"name": x, "default": True} for x in i["kwonly"]],
                "kwarg": i["kwarg"]}

    def derive(self, k, depth):
        """dict kind -> set of (full, base), unfolding to `depth` call levels."""
        key = (k, depth)
        if key in self.memo:
            return self.memo[key]
        f = self.snap["fns"][k]
        out = {kind: {tuple(n) for n in f[kind]} for kind in ("gets", "sets", "dels")}
        if depth > 0:
            for c in f["calls"]:
                g = self.resolve.get(c["cid"])
                if not isinstance(g, int):
                    continue
                b = python_binding(self.sig_of(g), c)
                if b is None:
                    continue      # a call Python rejects: nothing is demanded
                sub = self.derive(g, depth - 1)
                for kind in out:
                    for full, _recorded_base in sub[kind]:
                        # the spec substitutes the ROOT VARIABLE of the spelled name, whatever
                        # basename rattr recorded for it
                        s = subst(b, full, root_var(full))
                        if s is not None:
                            out[kind].add(s)
        self.memo[key] = out
        return out


def graph_features(snap, sigs, root, kwarg_clash_is_finding=True):
    """Features of the call graph reachable from `root` that put it outside the fragment in
    which C03 is a theorem of the pinned code (each corresponds to one known finding).
    `kwarg_clash_is_finding=False` (additive, C03 round 3): a keyword spelled like a positional-only /
    *args / **kwargs parameter of a callee with **kwargs is DIAGNOSED by the pinned code (a C04 row) but
    bound as Python binds it, so it is no excuse for a wrong closure."""
    resolve = {c: k for c, k in snap["resolve"]}
    feats = set()
    visits = {}
    on_path = []

    def is_bare(a):
        return re.fullmatch(r"[A-Za-z_]\w*", a) is not None or a.startswith("@")

    def walk(k, depth):
        if k in on_path:
            feats.add("cycle")
            return
        if depth > 12:
            return
        on_path.append(k)
        f = snap["fns"][k]
        for kind in ("gets", "sets", "dels"):
            for full, base in f[kind]:
                if root_var(full) != base:
                    feats.add("base-not-root-variable")
        for c in f["calls"]:
            g = resolve.get(c["cid"])
            if not isinstance(g, int):
                continue
            visits[c["cid"]] = visits.get(c["cid"], 0) + 1
            if visits[c["cid"]] > 1:
                feats.add("same-call-on-two-paths")
            for a in c["args"] + [v for _, v in c["kwargs"]]:
                if not is_bare(a):
                    feats.add("compound-argument")
            # the three KNOWN C04 defect classes leak into substitution; they are recognised from the
            # signature and the call alone (never from what the implementation under test answers)
            sig = Closure(snap, sigs, 0).sig_of(g)
            pb = c04mod.python_bind(sig, {"args": c["args"], "kwargs": c["kwargs"]})
            if pb[0] != "ok":
                feats.add("python-rejected-call")
            else:
                kw_keys = [k for k, _ in c["kwargs"]]
                clash = [p["name"] for p in sig["posonly"]] + [x for x in (sig["vararg"], sig["kwarg"]) if x]
                if kwarg_clash_is_finding and sig["kwarg"] and any(k in clash for k in kw_keys):
                    feats.add("c04-binding-finding")          # accepted call diagnosed 'by position and name'
                if len(c["args"]) < len(sig["posonly"]):
                    feats.add("c04-binding-finding")          # omitted positional-only parameter with a default
                if sig["kwarg"] and not pb[3]:
                    feats.add("c04-binding-finding")          # **kwargs receives nothing: left unmapped
            walk(g, depth + 1)
        on_path.pop()

    walk(root, 0)
    return feats


# "cycle" is not a defect feature: it only selects the comparison mode (bounds instead of equality).
FEATURE_PRIORITY = ["compound-argument", "same-call-on-two-paths", "base-not-root-variable",
                    "c04-binding-finding"]


def unroll_once(snap, sigs, root):
    """(additive, C03 round 3) ONE UNROLLING of every call cycle below `root`: what is derivable along the
    call paths from `root` that visit no function twice, plus — where a path calls a function already on
    it — that function's OWN accesses once more under the bindings of the whole path.
    -> dict kind -> set of full names."""
    resolve = {c: k for c, k in snap["resolve"]}
    cl0 = Closure(snap, sigs, 0)
    memo = {}

    def own(k):
        f = snap["fns"][k]
        return {kind: {n[0] for n in f[kind]} for kind in ("gets", "sets", "dels")}

    def go(k, path, d):
        key = (k, path)
        if key in memo:
            return memo[key]
        out = own(k)
        if d <= 12:
            for c in snap["fns"][k]["calls"]:
                g = resolve.get(c["cid"])
                if not isinstance(g, int):
                    continue
                b = python_binding(cl0.sig_of(g), c)
                if b is None:
                    continue
                sub = own(g) if g in path else go(g, path | {g}, d + 1)
                for kind in out:
                    for full in sub[kind]:
                        s = subst(b, full, root_var(full))
                        if s is not None:
                            out[kind].add(s[0])
        memo[key] = out
        return out

    return go(root, frozenset([root]), 0)


def judge_results(snap, sigs, impl_round, unroll=False, kwarg_clash_is_finding=True):
    """C03 oracle on the implementation's results. Yields (root key, verdict) where verdict is None
    or a violation signature + detail.  `unroll=True` (additive): under recursion the lower bound is
    `unroll_once` (one unrolling in the function and in every caller) instead of one call level."""
    n = len(snap["fns"])
    cl = Closure(snap, sigs, 2 * n + 2)
    cl1 = Closure(snap, sigs, 1)
    out = []
    # earlier roots can contaminate later ones through the shared store: judge each root against
    # the closure of the ORIGINAL own IRs.
    for r in impl_round["results"]:
        k = r["key"]
        want = cl.derive(k, 2 * n + 2)
        low = cl1.derive(k, 1)
        feats = graph_features(snap, sigs, k, kwarg_clash_is_finding=kwarg_clash_is_finding)
        if unroll and "cycle" in feats:
            low = {kind: {(f, None) for f in v} for kind, v in unroll_once(snap, sigs, k).items()}
        cyc = "cycle" in feats
        bad = None
        for kind in ("gets", "sets", "dels"):
            got = set(r[kind])
            w = {f for f, _ in want[kind]}
            lo = {f for f, _ in low[kind]}
            if cyc:
                if not lo <= got:
                    bad = ("missing-one-unrolling", kind, sorted(lo - got))
                elif not got <= w:
                    bad = ("not-derivable", kind, sorted(got - w))
            else:
                if got != w:
                    bad = ("closure-mismatch", kind, {"missing": sorted(w - got), "extra": sorted(got - w)})
            if bad:
                break
        # calls: exactly the own direct calls
        own_calls = sorted({c["name"] + "()" for c in snap["fns"][k]["calls"]})
        if bad is None and "calls" in r and r["calls"] != own_calls:
            bad = ("calls-not-own", "calls", {"got": r["calls"], "want": own_calls})
        if bad is None:
            out.append((k, None, feats))
        else:
            out.append((k, bad, feats))
    return out


def other_roots_features(snap, sigs):
    """Union of features over all roots (shared-store contamination crosses roots)."""
    fs = set()
    for k in range(len(snap["fns"])):
        fs |= graph_features(snap, sigs, k)
    return fs

"""C18 — serialised output is canonical JSON and round-trips.

Implementation = `rattr.models.util.serialise` / `deserialise` / `serialise_irs` (in-process) and
the real CLI `python -m rattr -o ir|results|cacheable` under several PYTHONHASHSEED values.

Objects: (a) harvested by analysing generated multi-file programs (every symbol kind x interface
kind x call-target kind, local imports followed), before and after result generation;
(b) synthesised directly, type-directed, over the object algebra.

Checks on the implementation's real output (property oracle):
  valid      json.loads succeeds, and the document re-dumps to the same bytes (it is what json printed)
  canonical  same program, N hash seeds, identical bytes (CLI); the same object with every set given
             as a list in permuted order / every dict in permuted insertion order, identical document
  round-trip deserialise(serialise(x)) == x  and  serialise(deserialise(serialise(x))) == serialise(x)
Correspondence (Tie B): the Lean model's document for the object *given the real iteration orders*
equals the implementation's document (key order and list order included); the model's `structure`
of that document equals the deserialised object.
"""
from __future__ import annotations

import concurrent.futures as cf
import copy
import itertools
import json
import os
import random
import shutil
import subprocess
import sys
import tempfile
import time
from pathlib import Path

import common
import impl
from props import c18_alias, c18_imports

from rattr.models.context import Context
from rattr.models.ir import FileIr, FunctionIr
from rattr.models.results import FileResults, FunctionResults
from rattr.models.results.cacheable import CacheableImportInfo, CacheableResults
from rattr.models.symbol import (AnyCallInterface, Builtin, Call, CallArguments, CallInterface, Class, Func,
                                 Import, Location, Name, Symbol)
from rattr.models.util import deserialise, serialise, serialise_irs
from rattr.models.util._types import OutputIrs

PID = "C18"
TABLES = ["C18"]

SIG_TIES_SEED = "ir-order-depends-on-hash-seed:equal-sort-key"
SIG_TIES_PERM = "ir-order-depends-on-set-order:equal-sort-key"
SIG_DUP_ID = "roundtrip-not-equal:fileir:duplicate-key-id"


# ------------------------------------------------------------------ neutral encodings

def pairs_loads(s):
    """json.loads keeping key order: dict -> ('o', [[k, v], ...]); list -> ('a', [...])."""

    def conv(x):
        if isinstance(x, _Pairs):
            return {"o": [[k, conv(v)] for k, v in x]}
        if isinstance(x, list):
            return {"a": [conv(v) for v in x]}
        return x

    return conv(json.loads(s, object_pairs_hook=_Pairs))


class _Pairs(list):
    pass


def enc_loc(l):
    return {"lineno": l.lineno, "col_offset": l.col_offset, "end_lineno": l.end_lineno,
            "end_col_offset": l.end_col_offset, "file": str(l.file)}


def enc_iface(i):
    if i is None:
        return None
    if isinstance(i, AnyCallInterface):
        return "any"
    return {"posonly": list(i.posonlyargs), "args": list(i.args), "vararg": i.vararg,
            "kwonly": list(i.kwonlyargs), "kwarg": i.kwarg}


def enc_symbol(s):
    k = type(s).__name__
    d = {"k": k, "name": s.name, "loc": enc_loc(s.location)}
    if k == "Call":
        d["args"] = list(s.args.args)
        d["kwargs"] = [[a, b] for a, b in s.args.kwargs.items()]
        d["target"] = None if s.target is None else enc_symbol(s.target)
        return d
    d["iface"] = enc_iface(s.interface)
    if k == "Name":
        d["basename"] = s.basename
    elif k == "Import":
        d["qualified_name"] = s.qualified_name
    elif k == "Func":
        d["is_async"] = s.is_async
    return d


def enc_fnir(ir):
    # list(the_set) is the iteration order cattrs will see (no mutation in between)
    return {k: [enc_symbol(s) for s in ir[k]] for k in ("gets", "sets", "dels", "calls")}


def enc_context(c):
    return {"parent": None if c.parent is None else enc_context(c.parent),
            "symtab": [[k, enc_symbol(v)] for k, v in c.symbol_table._symbols.items()],
            "file": str(c.file)}


def enc_fileir(f):
    return {"context": enc_context(f.context),
            "entries": [[enc_symbol(s), enc_fnir(ir)] for s, ir in f._file_ir.items()]}


def enc_outputirs(o):
    return {"imports": [[m, enc_fileir(f)] for m, f in o.import_irs.items()],
            "target_name": o.target_ir["filename"], "target_ir": enc_fileir(o.target_ir["ir"])}


def enc_results(r):
    return [[n, {k: list(fr[k]) for k in ("gets", "sets", "dels", "calls")}]
            for n, fr in r._function_results.items()]


def enc_cacheable(c):
    return {"version": c.version, "arguments_hash": c.arguments_hash, "plugins_hash": c.plugins_hash,
            "filepath": str(c.filepath), "filehash": c.filehash,
            "imports": [[str(i.filepath), i.filehash] for i in c.imports], "results": enc_results(c.results)}


ENC = {"symbol": enc_symbol, "fileir": enc_fileir, "outputirs": enc_outputirs, "results": enc_results,
       "cacheable": enc_cacheable}
TYPES = {"symbol": Symbol, "fileir": FileIr, "results": FileResults, "cacheable": CacheableResults}


def canon_obj(kind, e):
    """Canonical form of an encoded object for comparing *as Python compares*: sets sorted."""
    def cs(l):
        return sorted(l, key=common.canon)

    def fnir(d):
        return {k: cs(v) for k, v in d.items()}

    def fileir(d):
        return {"context": d["context"], "entries": [[s, fnir(ir)] for s, ir in d["entries"]]}

    def results(l):
        return [[n, {k: sorted(v) for k, v in fr.items()}] for n, fr in l]

    if kind == "fileir":
        return fileir(e)
    if kind == "results":
        return results(e)
    if kind == "cacheable":
        return {**e, "results": results(e["results"])}
    return e


# ------------------------------------------------------------------ program generator

IFACES = [
    "x", "x, y", "x, /", "x, /, y", "x, *va", "x, *, k", "x, **kw", "x, /, y, *va, k=1, **kw", "*va, **kw",
    "x, y=1, *, k, j=2",
]


def gen_project(rng, idx, ties):
    """A small project exercising every symbol kind / interface kind / call-target kind.
    Returns {filename: source}. `ties`: allow several calls to the same callee in one function."""
    files = {}
    nlib = rng.randint(1, 3)
    lib_funcs = {}
    for li in range(nlib):
        fs = []
        src = []
        for fi in range(rng.randint(1, 3)):
            name = f"h{li}{fi}"
            sig = rng.choice(IFACES)
            first = "x" if sig.startswith("x") else "va"
            src.append(f"def {name}({sig}):\n    return {first}.attr{li}{fi}\n")
            fs.append(name)
        cname = f"K{li}"
        src.append(f"class {cname}:\n    def __init__(self, a):\n        self.a = a.init{li}\n")
        # module-level non-callables and other symbol kinds: a star import re-exports every one of them
        for extra in rng.sample([f"LIMIT{li} = {li}", f"ann{li}: int = 1", f"ta{li}, tb{li} = 1, 2",
                                 f"lam{li} = lambda z: z.lam{li}", f"class Bare{li}:\n    pass\n",
                                 f"from collections import namedtuple\nNT{li} = namedtuple('NT{li}', ['u', 'v'])"],
                                rng.randint(0, 3)):
            src.append(extra + "\n")
        if rng.random() < 0.5 and li + 1 < nlib:
            src.insert(0, f"from lib{li + 1} import h{li + 1}0\n")
            src.append(f"def chain{li}(q):\n    return h{li + 1}0(q)\n")
            fs.append(f"chain{li}")
        files[f"lib{li}.py"] = "\n".join(src)
        lib_funcs[li] = (fs, cname)

    t = ["import math", "import os.path"]
    star = rng.random() < 0.5
    mod_import = rng.random() < 0.5
    imported = []
    for li in range(nlib):
        fs, cname = lib_funcs[li]
        if li == 0 and star:
            t.append(f"from lib{li} import *")
            imported += [(f, "star") for f in fs] + [(cname, "starcls")]
        elif li == 1 and mod_import:
            t.append(f"import lib{li}")
            imported += [(f"lib{li}.{f}", "mod") for f in fs]
        else:
            t.append(f"from lib{li} import {', '.join(fs + [cname])}")
            imported += [(f, "from") for f in fs] + [(cname, "fromcls")]
            if rng.random() < 0.6:
                # the SAME callees under a second spelling: equal call targets declared on two lines
                t.append(f"import lib{li} as H{li}")
                imported += [(f"H{li}.{f}", "alias") for f in fs]
    t.append("")
    t.append("GLOBAL = 3")
    t.append("")
    csig = rng.choice(["self, v", "self, v, /, w=1", "self, *a, **kw", "self, v, *, k=None"])
    t.append(f"class C:\n    def __init__({csig}):\n        self.v = v if False else self\n")
    t.append("class D:\n    pass\n")
    if rng.random() < 0.5:
        t.append("class E:\n    @staticmethod\n    def sm(p, q=1):\n        return p.static\n")
    t.append("async def af(p):\n    return p.q\n")
    gsig = rng.choice(IFACES)
    gfirst = "x" if gsig.startswith("x") else "va"
    t.append(f"def g({gsig}):\n    return {gfirst}.y\n")
    t.append("lam = lambda z: z.w\n")

    nfun = rng.randint(1, 3)
    for fi in range(nfun):
        params = ["a", "b", "cb"][: rng.randint(2, 3)]
        pool = []
        A, B = "a", "b"

        def both(fmt):
            return [fmt.format(A), fmt.format(B)] if ties else [fmt.format(rng.choice([A, B]))]

        pool += both("g({})")
        pool += both("C({})")
        pool += ["D()"]
        pool += both("print({})")
        pool += both("lam({})")
        pool += both("af({})")
        pool += [f"{A}.meth({B})", f"math.sin({A}.t)", f"os.path.join({A}, {B}.p)"]
        for nm, how in imported:
            pool += both(nm + "({})")
        # make sure both spellings of one callee meet in one function now and then
        aliased = [nm for nm, how in imported if how == "alias"]
        forced = []
        if aliased and rng.random() < 0.7:
            nm = rng.choice(aliased)
            forced = [f"{nm.split('.', 1)[1]}({A})", f"{nm}({B})"]
        if "cb" in params:
            pool += ["cb(a)"]
        if fi > 0:
            pool += both(f"f{fi - 1}({{0}}, {{0}}.w)")
        pool += [f"{A}.x = {B}.y", f"del {A}.z", f"{B}.m[0].n", f"getattr({A}, 'ga')", f"setattr({B}, 'sa', {A})",
                 f"loc = {A}.p\n    loc.q", f"GLOBAL.bit", f"{A}.u.v.w = {B}", f"del {B}.dd",
                 f"max({A}, {B})", f"({A}.k1, {B}.k2)", f"{A}.f1({B}.f2(), k={A}.f3)", "E.sm(a)" if "class E" in "".join(t) else "D()"]
        k = rng.randint(3, min(12, len(pool)))
        body = rng.sample(pool, k) + forced
        rng.shuffle(body)
        t.append(f"def f{fi}({', '.join(params)}):\n" + "".join(f"    {s}\n" for s in body) + f"    return {A}\n")
    files["target.py"] = "\n".join(t)
    return files


# minimised witnesses of the known and of the FIXED findings (run first, through harvest and the CLI:
# a regression of a47e117 / b3940ea shows up here as a violation whose signature is no longer suppressed)
CORPUS = [
    {"target.py": "def g(x):\n    return x.y\n\ndef f(a, b, c, d):\n    g(a)\n    g(b)\n    g(c)\n    g(d)\n"},
    {"lib.py": "def a(x):\n    return x.p\n\ndef b(x):\n    return x.q\n\ndef c(x):\n    return x.r\n",
     "target.py": "from lib import *\n\ndef f(z):\n    return a(z)\n"},
    {"target.py": "lam = lambda z: z.w\n\ndef f0(a, b):\n    lam(a)\n    lam(b)\n\ndef f1(a, b):\n    f0(b, b.w)\n"
                  "    f0(a, a.w)\n\ndef f2(a, b):\n    f1(b, b.w)\n"},
    # a star import of a module with module-level VARIABLES (not only callables): the Import symbols the
    # expansion creates must serialise to something the deserialiser accepts
    {"lib.py": "LIMIT = 3\nann: int = 1\nta, tb = 1, 2\nlam = lambda z: z.w\n\ndef helper(a):\n    return a.x\n\nclass K:\n    pass\n",
     "target.py": "from lib import *\n\ndef f(p):\n    return helper(p), LIMIT, lam(p)\n"},
    # one callee under two import spellings, both called in one function: two call targets that are equal
    # as symbols but declared on different lines (seeded C18-m3: a cache keyed on location-blind equality)
    {"helper.py": "def helper(x, y):\n    return x.p + y.q\n",
     "target.py": "from helper import helper\nimport helper as H\n\n\ndef f(a, b):\n    helper(a, b)\n    return H.helper(b, a)\n"},
]


def write_project(root, files):
    # a value {"symlink": target} is a symbolic link; `.c18_pythonpath` lists extra search path entries
    c18_alias.write_project(root, files)


# ------------------------------------------------------------------ harvest (in-process)

def harvest(projdir, facts=False, orders=None):
    """Analyse target.py in-process. Returns dict of named objects or raises.
    facts: also the module graph as the real locator / root contexts see it (c18_imports.graph_facts).
    orders: also `make_cacheable_import_info` under forced set iteration orders (c18_alias.forced_set_orders)."""
    from rattr.analyser.file import parse_and_analyse_file
    from rattr.models.results.util import make_cacheable_results
    from rattr.results import generate_results_from_ir

    with impl.in_dir(str(projdir)), c18_alias.extra_sys_path(projdir):
        impl.reset_config(target=Path("target.py"))
        with impl.Tap():
            file_ir, import_irs, _stats = parse_and_analyse_file()
            pre = OutputIrs(import_irs=copy.deepcopy(import_irs),
                            target_ir={"filename": "target.py", "ir": copy.deepcopy(file_ir)})
            results = generate_results_from_ir(target_ir=file_ir, import_irs=import_irs)
            cache = make_cacheable_results(results, file_ir, import_irs)
            graph = c18_imports.graph_facts(file_ir.context, import_irs) if facts else None
            forced = c18_alias.forced_set_orders(file_ir, import_irs, orders) if orders is not None else None
        post = OutputIrs(import_irs=import_irs, target_ir={"filename": "target.py", "ir": file_ir})
    return {"pre": pre, "post": post, "results": results, "cacheable": cache, "graph": graph, "forced": forced}


def trim_context(ctx, keep):
    """A real Context with only some of the symbols (keeps documents small for the driver)."""
    new = Context(parent=None if ctx.parent is None else trim_context(ctx.parent, keep), file=ctx.file)
    n_builtin = 0
    for k, v in ctx.symbol_table._symbols.items():
        if isinstance(v, Builtin) or (isinstance(v, Name) and k.startswith("__")):
            n_builtin += 1
            if n_builtin > keep:
                continue
        new.symbol_table._symbols[k] = v
    return new


def trim_fileir(f, keep=4):
    return FileIr(context=trim_context(f.context, keep), file_ir=dict(f._file_ir))


def trim_outputirs(o, keep=4):
    return OutputIrs(import_irs={m: trim_fileir(f, keep) for m, f in o.import_irs.items()},
                     target_ir={"filename": o.target_ir["filename"], "ir": trim_fileir(o.target_ir["ir"], keep)})


# ------------------------------------------------------------------ synthesiser

WORDS = ["a", "b", "a.b", "a.b.c", "A", "Z", "_x", "a_", "a0", "a[]", "*a", "*a.b", "@Str", "@BinOp.x", "b.c()",
         "a.b[].c", "é", "λ.x", "aa", "ab", "B", "self", "self.v", "x.y", "g", "g()", "print", "a b", 'q"uote', "back\\slash",
         "a!b", "tab\there", "ctl\x08\x0c\x7f", "nl\n", "astral😀x"]
PATHS = ["target.py", "lib/mod.py", "/abs/dir/file.py", "built-in", "pkg/__init__.py"]


def syn_loc(rng):
    a, b = rng.randint(0, 50), rng.randint(0, 80)
    if rng.random() < 0.3:
        return Location(lineno=a, col_offset=b, file=Path(rng.choice(PATHS)))
    return Location(lineno=a, col_offset=b, end_lineno=a + rng.randint(0, 3), end_col_offset=rng.randint(0, 80),
                    file=Path(rng.choice(PATHS)))


def syn_iface(rng, kind=None):
    kind = kind or rng.choice(["any", "empty", "full", "rand"])
    if kind == "any":
        return AnyCallInterface()
    if kind == "empty":
        return CallInterface()
    if kind == "full":
        return CallInterface(posonlyargs=["p", "q"], args=["a"], vararg="va", kwonlyargs=["k", "j"], kwarg="kw")
    ids = ["a", "b", "c", "self", "x", "é"]
    return CallInterface(posonlyargs=rng.sample(ids, rng.randint(0, 2)), args=rng.sample(ids, rng.randint(0, 3)),
                         vararg=rng.choice([None, "args"]), kwonlyargs=rng.sample(ids, rng.randint(0, 2)),
                         kwarg=rng.choice([None, "kwargs"]))


def syn_target(rng, kind=None, name=None, ikind=None):
    kind = kind or rng.choice(["Name", "Builtin", "Import", "Func", "Class"])
    name = name or rng.choice(WORDS)
    loc = syn_loc(rng)
    if kind == "Name":
        i = None if (ikind is None and rng.random() < 0.6) else syn_iface(rng, ikind)
        return Name(name=name, basename=rng.choice([name.split(".")[0], rng.choice(WORDS)]), location=loc, interface=i)
    if kind == "Builtin":
        return Builtin(name=name, location=loc)
    if kind == "Import":
        nm = rng.choice([name, "*"])
        return Import(name=nm, qualified_name=rng.choice(["pkg", "pkg.mod", "m"]) + ("" if nm == "*" else "." + nm),
                      location=loc)
    if kind == "Func":
        return Func(name=name, location=loc, interface=syn_iface(rng, ikind), is_async=rng.random() < 0.3)
    return Class(name=name, location=loc, interface=syn_iface(rng, ikind))


def syn_call(rng, name=None, tkind="rand", ikind=None):
    name = name or rng.choice(WORDS)
    nk = rng.randint(0, 2)
    args = CallArguments(args=[rng.choice(WORDS) for _ in range(rng.randint(0, 3))],
                         kwargs={k: rng.choice(WORDS) for k in rng.sample(["k", "j", "é", "z"], nk)})
    if tkind == "rand":
        tkind = rng.choice([None, "Name", "Builtin", "Import", "Func", "Class"])
    target = None if tkind is None else syn_target(rng, tkind, ikind=ikind)
    return Call(name=name, args=args, target=target, location=syn_loc(rng))


def syn_symbol(rng):
    return syn_call(rng) if rng.random() < 0.4 else syn_target(rng)


def all_symbol_shapes(rng):
    """Every symbol kind x interface kind, every call-target kind x interface kind."""
    out = []
    for ik in ("any", "empty", "full", "rand"):
        for k in ("Name", "Func", "Class"):
            out.append(syn_target(rng, k, ikind=ik))
            out.append(syn_call(rng, tkind=k, ikind=ik))
    out.append(syn_target(rng, "Name", ikind=None))
    for k in ("Builtin", "Import"):
        out.append(syn_target(rng, k))
        out.append(syn_call(rng, tkind=k))
    out.append(syn_call(rng, tkind=None))
    out.append(Import(name="*", qualified_name="pkg.mod", location=syn_loc(rng)))
    return out


def syn_fnir(rng, distinct_names):
    def names(n):
        pool = rng.sample(WORDS, min(n, len(WORDS))) if distinct_names else [rng.choice(WORDS[:6]) for _ in range(n)]
        return pool
    gets = [syn_target(rng, "Name", name=n) for n in names(rng.randint(0, 5))]
    sets = [syn_target(rng, "Name", name=n) for n in names(rng.randint(0, 3))]
    dels = [syn_target(rng, "Name", name=n) for n in names(rng.randint(0, 2))]
    calls = [syn_call(rng, name=n) for n in names(rng.randint(0, 5))]
    return FunctionIr.new(gets=gets, sets=sets, dels=dels, calls=calls)


def syn_context(rng, depth):
    parent = None if depth == 0 else syn_context(rng, depth - 1)
    c = Context(parent=parent, file=Path(rng.choice(PATHS)))
    for _ in range(rng.randint(0, 5)):
        c.symbol_table.add(syn_symbol(rng))
    return c


def syn_fileir(rng, distinct_names=True, dup_ids=False):
    c = syn_context(rng, rng.choice([0, 0, 1, 2]))
    d = {}
    keynames = rng.sample(["f", "g", "C", "C.sm", "a.b", "Z", "_p", "é"], rng.randint(0, 5))
    for n in keynames:
        k = syn_target(rng, rng.choice(["Func", "Class"]), name=n)
        d[k] = syn_fnir(rng, distinct_names)
    if dup_ids and keynames:
        n = keynames[0]
        d[Func(name=n, location=syn_loc(rng), interface=CallInterface(args=["dup1"]))] = syn_fnir(rng, True)
        d[Func(name=n, location=syn_loc(rng), interface=CallInterface(args=["dup2"]))] = syn_fnir(rng, True)
    return FileIr(context=c, file_ir=d)


def syn_twin(lineno):
    """FileIr with one call whose target Func('helper', (x,)) is declared on `lineno`: two such documents
    have call targets that are equal as symbols and differ in location only."""
    file = Path("synth.py")
    helper = Func(name="helper", interface=CallInterface(args=["x"]),
                  location=Location(lineno=lineno, col_offset=0, end_lineno=lineno + 1, end_col_offset=14, file=file))
    caller = Func(name="caller", interface=CallInterface(args=["a"]),
                  location=Location(lineno=20, col_offset=0, end_lineno=21, end_col_offset=13, file=file))
    call = Call(name="helper", args=CallArguments(args=["a"]), target=helper,
                location=Location(lineno=21, col_offset=4, end_lineno=21, end_col_offset=13, file=file))
    return FileIr(context=Context(parent=None, file=file), file_ir={caller: FunctionIr.new(calls=[call])})


def syn_results(rng):
    r = {}
    for n in rng.sample(WORDS, rng.randint(0, 6)):
        r[n] = FunctionResults.new(gets=rng.sample(WORDS, rng.randint(0, 8)), sets=rng.sample(WORDS, rng.randint(0, 4)),
                                   dels=rng.sample(WORDS, rng.randint(0, 2)), calls=rng.sample(WORDS, rng.randint(0, 5)))
    return FileResults(r)


def syn_cacheable(rng):
    return CacheableResults(version=rng.choice(["0.2.1", "dev", ""]), arguments_hash="%032x" % rng.getrandbits(128),
                            plugins_hash="%032x" % rng.getrandbits(128), filepath=rng.choice(PATHS),
                            filehash="%032x" % rng.getrandbits(128),
                            imports=[CacheableImportInfo(filepath=p, filehash="%032x" % rng.getrandbits(128))
                                     for p in sorted(rng.sample(PATHS, rng.randint(0, 3)))],
                            results=syn_results(rng))


# ------------------------------------------------------------------ document diffing -> signatures

def _key_of(e):
    if isinstance(e, dict) and "o" in e:
        for k, v in e["o"]:
            if k == "name":
                return v
        return None
    return e


def _is_symbol(e):
    return isinstance(e, dict) and "o" in e and any(k == "type" for k, _ in e["o"])


def _own_loc(e):
    for k, v in e["o"]:
        if k == "location":
            return v
    return None


def _strip_loc(e):
    if isinstance(e, dict) and "o" in e:
        return {"o": [[k, _strip_loc(v)] for k, v in e["o"] if k != "location"]}
    if isinstance(e, dict) and "a" in e:
        return {"a": [_strip_loc(v) for v in e["a"]]}
    return e


def _pathclass(path):
    """Dynamic keys (function names, ids, module names) -> '*'; field names kept."""
    fields = {"import_irs", "target_ir", "ir", "context", "symbols", "function_irs", "gets", "sets", "dels", "calls",
              "symbol_table", "parent", "results", "imports", "args", "kwargs", "target", "interface", "location",
              "posonlyargs", "kwonlyargs", "filename", "file"}
    return "/".join(p if p in fields else ("#" if isinstance(p, int) else "*") for p in path)


def all_diffs(a, b, path=()):
    """Every structural difference between two neutral documents, as
    (kind, pathclass, path) with kind in equal-sort-key | unsorted-collection | dict-key-order | value."""
    if a == b:
        return
    if isinstance(a, dict) and isinstance(b, dict) and "o" in a and "o" in b:
        ka, kb = [k for k, _ in a["o"]], [k for k, _ in b["o"]]
        if ka != kb:
            if sorted(ka) == sorted(kb):
                yield ("dict-key-order", _pathclass(path), list(path))
                mb = dict(b["o"])
                for k, va in a["o"]:
                    yield from all_diffs(va, mb[k], path + (k,))
            else:
                yield ("value", _pathclass(path) + ":keys-differ", list(path))
            return
        for (k, va), (_, vb) in zip(a["o"], b["o"]):
            yield from all_diffs(va, vb, path + (k,))
        return
    if isinstance(a, dict) and isinstance(b, dict) and "a" in a and "a" in b:
        la, lb = a["a"], b["a"]
        if len(la) == len(lb) and la and all(_is_symbol(e) for e in la + lb) \
                and sorted(map(common.canon, la)) != sorted(map(common.canon, lb)):
            # sets of symbols: Python == ignores `location`, so compare the members modulo location
            sa, sb = [_strip_loc(e) for e in la], [_strip_loc(e) for e in lb]
            if sorted(map(common.canon, sa)) == sorted(map(common.canon, sb)):
                # same members as Python compares them; pair them up and see WHICH location differs.
                # (Since a47e117 the sort key contains the locations, so a changed location may also move
                # a member among its equal-name neighbours: that is a consequence, not a second finding.)
                ga, gb = {}, {}
                for e, k in zip(la, sa):
                    ga.setdefault(common.canon(k), []).append(e)
                for e, k in zip(lb, sb):
                    gb.setdefault(common.canon(k), []).append(e)
                own = nested = False
                for k, ea in ga.items():
                    eb = gb[k]
                    if len(ea) != 1 or len(eb) != 1:
                        own = own or sorted(map(common.canon, ea)) != sorted(map(common.canon, eb))
                        continue
                    if ea[0] != eb[0]:
                        if _own_loc(ea[0]) != _own_loc(eb[0]):
                            own = True      # another representative of the same member (own location differs)
                        else:
                            nested = True   # same call site, but the embedded target's location differs
                if own:
                    yield ("set-member-location", _pathclass(path), list(path))
                if nested:
                    yield ("call-target-location", _pathclass(path), list(path))
                return
        if len(la) == len(lb) and sorted(map(common.canon, la)) == sorted(map(common.canon, lb)):
            ka, kb = [_key_of(e) for e in la], [_key_of(e) for e in lb]
            if ka == kb and all(isinstance(k, str) for k in ka) and ka == sorted(ka):
                yield ("equal-sort-key", _pathclass(path), list(path))
            else:
                yield ("unsorted-collection", _pathclass(path), list(path))
            return
        if len(la) == len(lb):
            for i, (va, vb) in enumerate(zip(la, lb)):
                yield from all_diffs(va, vb, path + (i,))
            return
        yield ("value", _pathclass(path) + ":list-differs", list(path))
        return
    yield ("value", _pathclass(path), list(path))


def diff_class(a, b, path=()):
    return next(all_diffs(a, b, path), None)


def _at(doc, path):
    for p in path:
        if isinstance(p, int):
            doc = doc["a"][p]
        else:
            doc = next(v for k, v in doc["o"] if k == p)
    return doc


def _star_expansion_only(a, b, path):
    """True iff the two symbol tables at `path` differ only in the relative order of Import symbols
    that a star import of the same table expanded to (`<q>.*` present, qualified_name == q.name)."""
    ta, tb = _at(a, path)["o"], _at(b, path)["o"]
    ka, kb = [k for k, _ in ta], [k for k, _ in tb]
    i = 0
    while i < len(ka) and ka[i] == kb[i]:
        i += 1
    j = len(ka)
    while j > i and ka[j - 1] == kb[j - 1]:
        j -= 1
    va = dict(ta)
    stars = set()
    for k, v in ta:
        f = dict(v["o"])
        if f.get("type") == "Import" and f.get("name") == "*":
            stars.add(f.get("qualified_name"))
    for k in ka[i:j]:
        f = dict(va[k]["o"])
        if f.get("type") != "Import":
            return False
        if not any(f.get("qualified_name") == f"{q}.{f.get('name')}" for q in stars):
            return False
    return sorted(ka[i:j]) == sorted(kb[i:j]) and j > i


def order_signature(channel, which, d, a=None, b=None):
    """channel: hash-seed | set-order; which: ir | results | cacheable"""
    kind, pc, path = d
    if kind == "equal-sort-key" and which == "ir" and pc.split("/")[-1] in ("gets", "sets", "dels", "calls") \
            and "function_irs" in pc:
        return f"ir-order-depends-on-{channel}:equal-sort-key"
    if kind == "set-member-location" and which == "ir" and pc.split("/")[-1] in ("gets", "sets", "dels", "calls") \
            and "function_irs" in pc:
        return f"ir-set-member-location-depends-on-{channel}"
    if kind == "call-target-location" and which == "ir":
        return f"ir-call-target-location-depends-on-{channel}"
    if kind == "dict-key-order" and which == "ir" and pc.endswith("context/symbol_table") and a is not None \
            and _star_expansion_only(a, b, path):
        return f"ir-order-depends-on-{channel}:symbol-table-order:star-import-expansion"
    return f"{which}-order-depends-on-{channel}:{kind}:{pc}"


# ------------------------------------------------------------------ permuted serialisation (in-process)

def permuted_copy(kind, obj, rng):
    """The same object with every set replaced by a LIST in a random order (cattrs / sorted() see
    exactly that iteration order) and every hook-sorted dict rebuilt in a random insertion order."""

    def plist(s):
        l = list(s)
        rng.shuffle(l)
        return l

    def pdict(d, f=lambda v: v):
        items = list(d.items())
        rng.shuffle(items)
        return {k: f(v) for k, v in items}

    def fnir(ir):
        return {k: plist(ir[k]) for k in ("gets", "sets", "dels", "calls")}

    def fileir(f):
        return FileIr(context=f.context, file_ir=pdict(f._file_ir, fnir))

    def results(r):
        return FileResults(pdict(r._function_results, lambda fr: {k: plist(fr[k]) for k in ("gets", "sets", "dels", "calls")}))

    if kind == "fileir":
        return fileir(obj)
    if kind == "outputirs":
        # import_irs is an insertion-ordered dict filled by the import BFS: its order is part of the
        # analysis, not of hashing; kept.
        return OutputIrs(import_irs={m: fileir(f) for m, f in obj.import_irs.items()},
                         target_ir={"filename": obj.target_ir["filename"], "ir": fileir(obj.target_ir["ir"])})
    if kind == "results":
        return results(obj)
    if kind == "cacheable":
        import attrs
        return attrs.evolve(obj, results=results(obj.results))
    return obj


def ser(kind, obj):
    if kind == "outputirs":
        return serialise_irs(target_name=obj.target_ir["filename"], target_ir=obj.target_ir["ir"],
                             import_irs=obj.import_irs)
    return serialise(obj, indent=4)


def ser_fresh(kind, obj):
    """Serialise with a converter in its import-time state (what a fresh interpreter has), leaving the
    long-lived converter -- and whatever state it has accumulated over this run -- in place."""
    from rattr.models.util._serialisation_helpers import make_json_converter
    mod = sys.modules["rattr.models.util.serialise"]
    keep = mod.__dict__["__json_converter"]
    mod.__dict__["__json_converter"] = make_json_converter()
    try:
        return ser(kind, obj)
    finally:
        mod.__dict__["__json_converter"] = keep


def ser_after(kind_a, obj_a, kind_b, obj_b):
    """serialise(A) then serialise(B) in one fresh state; returns B's bytes."""
    from rattr.models.util._serialisation_helpers import make_json_converter
    mod = sys.modules["rattr.models.util.serialise"]
    keep = mod.__dict__["__json_converter"]
    mod.__dict__["__json_converter"] = make_json_converter()
    try:
        ser(kind_a, obj_a)
        return ser(kind_b, obj_b)
    finally:
        mod.__dict__["__json_converter"] = keep


def has_dup_ids(kind, obj):
    def dup(f):
        ids = [s.id for s in f._file_ir]
        return len(ids) != len(set(ids))
    if kind == "fileir":
        return dup(obj)
    if kind == "outputirs":
        return dup(obj.target_ir["ir"]) or any(dup(f) for f in obj.import_irs.values())
    return False


# ------------------------------------------------------------------ CLI

def cli(projdir, out, seed):
    env = c18_alias.cli_env(projdir, seed)
    p = subprocess.run([sys.executable, "-m", "rattr", "-o", out, "-w", "none", "target.py"], cwd=str(projdir),
                       env=env, capture_output=True, timeout=120)
    return p.returncode, p.stdout, p.stderr[-400:].decode("utf8", "replace")


# ------------------------------------------------------------------ the import set of the cache document

def _path_sorted(paths):
    """sorted order under a key that separates any two recorded paths: as `Path` compares, or as `str` does"""
    return (len(set(paths)) == len(paths)
            and (paths == sorted(paths) or [Path(p) for p in paths] == sorted(Path(p) for p in paths)))


def judge_import_set(res, label, files, cacheable, forced, root=""):
    """Property oracle on the REAL `imports` list of a harvested cache object: (sorted) strictly increasing on
    the recorded path; (set-order) the same list whatever order the set of infos is iterated in -- the set's
    iteration order forced to chosen permutations (c18_alias.forced_set_orders), deterministic."""
    res.evaluations += 1
    real = [[str(i.filepath), i.filehash] for i in cacheable.imports]
    case = {"project": files, "label": label, "output": "cacheable", "project_root": str(root)}
    # how many members collide under the coarser keys (the reach of the generator)
    import os.path
    paths = [p for p, _ in real]
    for name, key in (("resolved-path", lambda p, h: os.path.realpath(p)), ("filehash", lambda p, h: h),
                      ("file-name", lambda p, h: os.path.basename(p)), ("casefold-path", lambda p, h: p.lower())):
        ks = [key(p, h) for p, h in real]
        worst = max((ks.count(k) for k in ks), default=0)
        res.count(f"import-set:max-members-with-equal-{name}={min(worst, 4)}{'+' if worst > 4 else ''}")
    res.count(f"import-set:size={min(len(real), 8)}{'+' if len(real) > 8 else ''}")
    if not _path_sorted(paths):
        res.violations.append({"signature": "cacheable-imports-not-strictly-sorted-on-filepath",
                               "case": case, "detail": {"imports": real}})
    else:
        res.count("import-set:strictly-sorted-on-filepath")
    if forced is None:
        return
    if "unavailable" in forced:
        res.count("import-set:forced-order:unavailable")
        res.extra["forced_order_unavailable"] = forced["unavailable"]
        return
    if not forced["effective"]:
        res.count("import-set:forced-order:ineffective")
        return
    if forced["base"] != real:
        res.internal_errors.append({"what": "make_cacheable_import_info called twice on one analysis gives two lists",
                                    "case": case, "a": real, "b": forced["base"]})
        return
    outs = {}
    for perm, lst in forced["runs"]:
        outs.setdefault(common.canon(lst), (perm, lst))
    if len(outs) == 1 and next(iter(outs.values()))[1] == real:
        res.count(f"import-set:forced-order:identical-under-{len(forced['runs'])}-orders")
        return
    (pa, la), (pb, lb) = (list(outs.values()) + [(None, real)])[:2]
    if sorted(map(common.canon, la)) == sorted(map(common.canon, lb)):
        sig = "cacheable-order-depends-on-set-order:unsorted-collection:imports"
    else:
        sig = "cacheable-imports-depend-on-set-order:members-differ"
    res.violations.append({"signature": sig, "case": {**case, "set_iteration_order_a": pa, "set_iteration_order_b": pb},
                           "detail": {"imports_a": la, "imports_b": lb,
                                      "how": "make_cacheable_import_info with hash(member) := rank in the given order"}})


# ------------------------------------------------------------------ run

def run(tier, seed, build):
    res = common.Result(PID)
    res.rule = ("objects = (a) OutputIrs before/after result generation, FileResults, CacheableResults harvested from "
                "generated 2-4 file projects (every symbol kind / interface shape / call-target kind, from-import, "
                "module import, star import, imports followed), full and with the builtin part of the symbol table "
                "trimmed; (b) type-directed synthesised Symbol (full kind x interface x target matrix), FileIr "
                "(context depth 0-2, with and without equal-name set members, with duplicate key ids), FileResults, "
                "CacheableResults; (c) import-graph projects (fixed corpus + generated: depth 2-3, fan-out 2-4 at each level "
                "below the target, diamonds, cross-level and sibling edges, cycles, a package, 8 import spellings, "
                "same-named classes in sibling modules): harvested like (a), run through the real CLI (-o ir, results, "
                "cacheable) and an in-process worker under >= 6 / 8 hash seeds, and through the model's import BFS; "
                "(d) import SETS with colliding members (c18_alias: one file under 3-4 names through file links, "
                "directory links, links to a file outside the search path; byte-identical copies; equal file names "
                "in sibling packages; names differing in case; a package directory that is also a search path "
                "entry -- the names imported by the target, a followed import at depth 1-2, or both, 6 import "
                "spellings): like (c), plus make_cacheable_import_info under forced set iteration orders "
                "(deterministic) and the real CLI with -o cacheable -C <file> (stdout and the cache file) under "
                "8 hash seeds. "
                "non-trivial = distinct document with >= 1 non-empty collection")
    rng = random.Random(seed)
    if tier == "quick":
        NPROJ, NCLI, NSEEDS, NSYN, NPERM, NFULL = 48, 16, 4, 500, 3, 4
        # import graphs: NGRAPH projects (fixed corpus first), all through the in-process worker under
        # NWSEEDS hash seeds, the first NGCLI through the real CLI (3 outputs) under NGSEEDS hash seeds
        NGRAPH, NGCLI, NGSEEDS, NWSEEDS = 16, 4, 6, 8
        # import sets with colliding members (c18_alias): NALIAS projects (fixed corpus first) through the
        # harvest, the forced set orders, the worker and the model; NACLI of them through the real CLI with
        # `-o cacheable -C <file>` under NASEEDS hash seeds
        NALIAS, NACLI, NASEEDS = 11, 4, 8
    else:
        NPROJ, NCLI, NSEEDS, NSYN, NPERM, NFULL = 240, 40, 16, 4000, 5, 12
        NGRAPH, NGCLI, NGSEEDS, NWSEEDS = 80, 20, 12, 16
        NALIAS, NACLI, NASEEDS = 48, 16, 12
    tmp = Path(tempfile.mkdtemp(prefix="c18_"))
    objects = []  # (kind, label, obj, source)
    projects = []
    gprojects = []  # import-graph projects: dict(pd, files, label, meta, graph, post, keys)
    phase_t = {}
    t_phase = time.time()
    executor = None

    def phase(name):
        nonlocal t_phase
        now = time.time()
        phase_t[name] = round(phase_t.get(name, 0) + now - t_phase, 2)
        t_phase = now

    try:
        # ---- (a) harvest
        for i in range(NPROJ):
            ties = (i % 3 != 0)
            files = CORPUS[i] if i < len(CORPUS) else gen_project(rng, i, ties)
            pd = tmp / f"p{i}"
            write_project(pd, files)
            out = impl.outcome_of(harvest, pd)
            if out[0] != "ok":
                res.count(f"harvest:{out[0]}:{out[1]}")
                res.skipped_outside_fragment += 1
                continue
            res.count("harvest:ok")
            h = out[1]
            projects.append((pd, files, ties))
            full = i < NFULL
            for label in ("pre", "post"):
                o = h[label] if full else trim_outputirs(h[label])
                objects.append(("outputirs", f"p{i}:{label}" + (":full" if full else ":trim"), o, files["target.py"]))
            objects.append(("results", f"p{i}:results", h["results"], files["target.py"]))
            objects.append(("cacheable", f"p{i}:cacheable", h["cacheable"], files["target.py"]))
            # every harvested symbol as a standalone object (a sample)
            tir = h["post"].target_ir["ir"]
            syms = [s for ir in tir._file_ir.values() for k in ("gets", "sets", "dels", "calls") for s in ir[k]]
            syms += list(tir._file_ir.keys()) + [s for s in tir.context.symbol_table._symbols.values()
                                                 if not isinstance(s, Builtin)]
            for f in h["post"].import_irs.values():
                syms += list(f._file_ir.keys())
            rng.shuffle(syms)
            for s in syms[:12]:
                objects.append(("symbol", f"p{i}:sym", s, None))
            for m, f in list(h["pre"].import_irs.items())[:1]:
                objects.append(("fileir", f"p{i}:import:{m}", trim_fileir(f), None))

        phase("harvest")
        # ---- (a2) import graphs of depth >= 2 (fan-out 2..4 below the target, diamonds, cycles, packages)
        grng = random.Random(f"import-graph:{seed}")
        arng = random.Random(f"import-alias:{seed}")
        gspecs = []
        for gi in range(NGRAPH):
            if gi < len(c18_imports.CORPUS):
                glabel, gfiles = c18_imports.CORPUS[gi]
                gmeta = {"corpus": glabel}
            else:
                gfiles, gmeta = c18_imports.gen_import_graph(grng, gi)
                glabel = f"gen{gi}"
            gspecs.append((glabel, gfiles, gmeta))
        # (a3) import SETS with colliding members: one file under several names (links), equal content, equal
        # file names, ... (c18_alias): same pipeline, plus forced set orders and `-o cacheable -C <file>`
        for ai in range(NALIAS):
            if ai < len(c18_alias.CORPUS):
                glabel, gfiles = c18_alias.CORPUS[ai]
                gmeta = {"corpus": glabel, "depth": "alias", "features": [glabel.split(":in-")[0]]}
            else:
                gfiles, gmeta = c18_alias.gen_alias_project(arng, ai)
                glabel = f"alias:gen{ai}"
            gspecs.append((glabel, gfiles, gmeta))
        orders = c18_alias.standard_orders(random.Random(f"set-order:{seed}"))
        for gi, (glabel, gfiles, gmeta) in enumerate(gspecs):
            pd = tmp / f"g{gi}"
            write_project(pd, gfiles)
            out = impl.outcome_of(harvest, pd, True, orders)
            if out[0] != "ok":
                res.count(f"graph:harvest:{out[0]}:{out[1]}")
                res.skipped_outside_fragment += 1
                continue
            res.count("graph:harvest:ok")
            h = out[1]
            keys = list(h["post"].import_irs)
            res.count(f"graph:depth={gmeta.get('depth', 'corpus')}")
            res.count(f"graph:modules-analysed={min(len(keys), 12)}{'+' if len(keys) > 12 else ''}")
            for f in gmeta.get("features", []):
                res.count(f"graph:feature:{f}")
            for f in gmeta.get("forms", []):
                res.count(f"graph:import-form:{f}")
            hubs = sum(1 for m in h["graph"]["modules"]
                       if m["name"] in h["post"].import_irs
                       and len({i["target"] for i in m["imports"] if i["target"] in h["post"].import_irs}) >= 2)
            res.count(f"graph:imported-modules-importing>=2-followed={min(hubs, 4)}{'+' if hubs > 4 else ''}")
            gprojects.append({"pd": pd, "files": gfiles, "label": glabel, "meta": gmeta, "graph": h["graph"],
                              "post": trim_outputirs(h["post"]), "pre": trim_outputirs(h["pre"]), "keys": keys,
                              "cacheable": h["cacheable"]})
            judge_import_set(res, glabel, gfiles, h["cacheable"], h["forced"], pd)
            if not glabel.startswith("alias:"):
                objects.append(("outputirs", f"g{gi}:post:trim", trim_outputirs(h["post"]), gfiles["target.py"]))
                objects.append(("results", f"g{gi}:results", h["results"], gfiles["target.py"]))
            objects.append(("cacheable", f"g{gi}:cacheable", h["cacheable"], gfiles["target.py"]))
        phase("graph-harvest")

        # ---- hash-seed jobs (real CLI; in-process worker for the import graphs): submitted now, they run
        # in the background while this process does the in-process checks, collected further down
        seeds = list(range(NSEEDS))
        gseeds = list(range(NGSEEDS))
        jobs = []
        for pd, files, ties in projects[:NCLI]:
            for out in ("ir", "results", "cacheable"):
                for s in seeds:
                    jobs.append((pd, out, s))
        pick = [g for g in gprojects if g["label"] in ("hub5", "chain-of-hubs", "stars-nested")]
        pick += [g for g in gprojects if g["label"].startswith("gen")][:max(0, NGCLI - len(pick))]
        if tier != "quick":
            pick = gprojects[:NGCLI]
        for g in pick:
            for out in ("ir", "results", "cacheable"):
                for s in gseeds:
                    jobs.append((g["pd"], out, s))
        executor = cf.ThreadPoolExecutor(max_workers=min(16, os.cpu_count() or 4))
        worker_futs = [(s, executor.submit(c18_imports.run_worker, s, tmp / f"worker_{s}.json", [g["pd"] for g in gprojects]))
                       for s in range(NWSEEDS)] if gprojects else []
        cli_futs = [executor.submit(cli, *j) for j in jobs]
        apick = [g for g in gprojects if g["label"] in ("alias:symlink-file", "alias:symlink-dir")]
        agen = [g for g in gprojects if g["label"].startswith("alias:gen")]
        arest = [g for g in gprojects if g["label"].startswith("alias:") and g not in apick and g not in agen]
        if arest:  # the rest of the fixed corpus takes turns (by check seed)
            arest = arest[seed % len(arest):] + arest[:seed % len(arest)]
        apick = (apick + agen[:1] + arest + agen[1:])[:NACLI]
        ajobs = [(g, s) for g in apick for s in range(NASEEDS)]
        acli_futs = [executor.submit(c18_alias.cli_cache, g["pd"], s) for g, s in ajobs]

        # ---- (b) synthesise
        impl.reset_config()
        for s in all_symbol_shapes(rng):
            objects.append(("symbol", "syn:matrix", s, None))
        for lineno in (1, 7):
            objects.append(("fileir", f"syn:twin:{lineno}", syn_twin(lineno), None))
        for j in range(NSYN):
            r = j % 10
            if r < 4:
                objects.append(("symbol", "syn", syn_symbol(rng), None))
            elif r < 6:
                objects.append(("fileir", "syn:distinct", syn_fileir(rng, True), None))
            elif r == 6:
                objects.append(("fileir", "syn:ties", syn_fileir(rng, False), None))
            elif r == 7:
                objects.append(("results", "syn", syn_results(rng), None))
            elif r == 8:
                objects.append(("cacheable", "syn", syn_cacheable(rng), None))
            else:
                objects.append(("fileir", "syn:dupid", syn_fileir(rng, True, dup_ids=(j % 20 == 9)), None))

        # ---- implementation side, in-process
        model = common.Model()
        reqs, meta = [], []
        history_sigs = set()
        for obj_index, (kind, label, obj, src) in enumerate(objects):
            res.evaluations += 1
            res.count(f"kind:{kind}")
            res.count(f"source:{label.split(':')[0] if label.startswith('syn') else 'harvest'}:{kind}")
            case = {"kind": kind, "label": label}
            enc = ENC[kind](obj)
            so = impl.outcome_of(ser, kind, obj)
            if so[0] != "ok":
                res.violations.append({"signature": f"serialise-crash:{kind}:{so[1]}", "case": {**case, "object": enc},
                                       "detail": list(so[1:])})
                continue
            doc_s = so[1]
            # (valid)
            try:
                doc = pairs_loads(doc_s)
                plain = json.loads(doc_s)
            except Exception as e:  # noqa
                res.violations.append({"signature": f"invalid-json:{kind}", "case": {**case, "object": enc},
                                       "detail": str(e)[:200]})
                continue
            if json.dumps(plain, indent=4) != doc_s:
                res.violations.append({"signature": f"not-plain-json-dump:{kind}", "case": {**case, "object": enc}})
            if kind == "symbol":
                res.count(f"symbol:{enc['k']}:iface={_iface_kind(enc)}:target={_target_kind(enc)}")
            d = common.digest(doc)
            if _nonempty(doc):
                res.nontrivial.add(d)
            res.sample({"kind": kind, "label": label, "document": doc_s[:600]}, cap=5)

            # (history): the bytes of this object must not depend on what this interpreter serialised
            # before. doc_s was produced after ALL earlier objects of this run; compare with a fresh state.
            fo = impl.outcome_of(ser_fresh, kind, obj)
            alone = fo[1] if fo[0] == "ok" else None
            if alone is None:
                res.violations.append({"signature": f"serialise-crash:{kind}:{fo[1]}", "case": {**case, "object": enc}})
            elif alone != doc_s:
                dc = diff_class(pairs_loads(alone), doc)
                # one signature per kind of document (none is ever a known finding; where the bytes differ
                # is in `detail.diff`), so that these do not crowd out the other channels' replays
                sig = f"serialise-depends-on-history:{kind}"
                culprit = None
                if sig not in history_sigs:
                    history_sigs.add(sig)
                    # minimise: ONE earlier object A such that serialise(A); serialise(B) != serialise(B)
                    for (ka, la_, oa, _src) in reversed(objects[max(0, obj_index - 400):obj_index]):
                        so2 = impl.outcome_of(ser_after, ka, oa, kind, obj)
                        if so2[0] == "ok" and so2[1] != alone:
                            culprit = {"kind": ka, "label": la_, "object": ENC[ka](oa)}
                            break
                res.violations.append({"signature": sig, "case": {**case, "B": enc if len(doc_s) < 20000 else "<large>",
                                                                  "A_serialised_before_B": culprit,
                                                                  "history_len": obj_index},
                                       "detail": {"B_alone": alone[:400], "B_after_history": doc_s[:400], "diff": dc}})
            else:
                res.count("history:independent")

            # (canonical, in-process): permuted iteration orders, each from a fresh state (so that state
            # carried over from earlier objects cannot mask an order dependence)
            dup = has_dup_ids(kind, obj)
            if dup:
                res.count("perm:skipped-duplicate-key-ids")
            if kind != "symbol" and not dup and alone is not None:
                prng = random.Random(f"{seed}:{len(meta)}")
                alone_doc = pairs_loads(alone)
                for _ in range(NPERM):
                    po = impl.outcome_of(lambda: ser_fresh(kind, permuted_copy(kind, obj, prng)))
                    if po[0] != "ok":
                        res.violations.append({"signature": f"serialise-crash:{kind}:{po[1]}", "case": {**case, "object": enc}})
                        break
                    if po[1] != alone:
                        dc = diff_class(alone_doc, pairs_loads(po[1]))
                        which = "ir" if kind in ("fileir", "outputirs") else kind
                        sig = order_signature("set-order", which, dc) if dc else f"{which}-bytes-differ:whitespace"
                        res.violations.append({"signature": sig, "case": {**case, "object": enc if len(doc_s) < 20000 else "<large>",
                                                                         "source": src},
                                               "detail": {"a": alone[:300], "diff": dc}})
                        break
                else:
                    res.count("perm:invariant")

            # (round-trip)
            if kind in TYPES:
                ro = impl.outcome_of(lambda: deserialise(doc_s, type=TYPES[kind]))
                if ro[0] != "ok":
                    res.violations.append({"signature": f"roundtrip-crash:{kind}:{ro[1]}", "case": {**case, "object": enc},
                                           "detail": list(ro[1:])})
                    back = None
                else:
                    back = ro[1]
                    if not (back == obj):
                        if has_dup_ids(kind, obj):
                            sig = SIG_DUP_ID
                        else:
                            dd = diff_class(_neutral(canon_obj(kind, enc)), _neutral(canon_obj(kind, ENC[kind](back))))
                            sig = f"roundtrip-not-equal:{kind}:{dd[0] + ':' + dd[1] if dd else 'eq-only'}"
                        res.violations.append({"signature": sig, "case": {**case, "object": enc}})
                    else:
                        res.count("roundtrip:equal")
                    again = ser(kind, back)
                    if dup:
                        pass
                    elif again != doc_s:
                        dc = diff_class(doc, pairs_loads(again))
                        which = "ir" if kind == "fileir" else kind
                        sig = order_signature("set-order", which, dc) if dc else f"{which}-bytes-differ"
                        if not (sig.startswith("ir-order") and sig.endswith("equal-sort-key")):
                            sig = "reserialise-differs:" + sig
                        res.violations.append({"signature": sig, "case": {**case, "object": enc}})
                    else:
                        res.count("reserialise:identical")
            else:
                back = None

            reqs.append(("ser", {"kind": kind, "obj": enc}))
            meta.append(("ser", case, doc, doc_s, None))
            if kind in TYPES and back is not None:
                reqs.append(("structure", {"kind": kind, "doc": doc}))
                meta.append(("structure", case, doc, doc_s, canon_obj(kind, ENC[kind](back))))

        # ---- (c) crafted documents (Tie B for the model's `==` on symbols, `Symbol.pyEq`): one Call listed
        # twice in a `calls` array, keyword arguments in two orders. `kwargs` is a frozendict, so the two are
        # == in Python and the structured set has ONE member (the first); the model must agree.
        impl.reset_config()
        for lineno, kw in ((3, {"k": "a", "j": "b"}), (9, {"é": "x.y", "z": "w", "k": "v"})):
            res.evaluations += 1
            file = Path("synth.py")
            caller = Func(name="caller", interface=CallInterface(args=["a"]),
                          location=Location(lineno=lineno, col_offset=0, end_lineno=lineno + 1, end_col_offset=9, file=file))
            call = Call(name="g", args=CallArguments(args=["a"], kwargs=kw), target=None,
                        location=Location(lineno=lineno + 1, col_offset=4, end_lineno=lineno + 1, end_col_offset=9, file=file))
            base = FileIr(context=Context(parent=None, file=file), file_ir={caller: FunctionIr.new(calls=[call])})
            plain = json.loads(ser("fileir", base))
            (fn_doc,) = plain["function_irs"].values()
            (c1,) = fn_doc["calls"]
            c2 = json.loads(json.dumps(c1))
            c2["args"]["kwargs"] = dict(reversed(list(c1["args"]["kwargs"].items())))
            fn_doc["calls"] = [c1, c2]
            crafted_s = json.dumps(plain, indent=4)
            case = {"kind": "fileir", "label": "crafted:kwargs-order", "document": crafted_s}
            ro = impl.outcome_of(lambda: deserialise(crafted_s, type=FileIr))
            if ro[0] != "ok":
                res.internal_errors.append({"what": "crafted kwargs-order document does not deserialise", "case": case,
                                            "detail": list(ro[1:])})
                continue
            res.count(f"crafted:kwargs-order:members={sum(len(ir['calls']) for ir in ro[1]._file_ir.values())}")
            reqs.append(("structure", {"kind": "fileir", "doc": pairs_loads(crafted_s)}))
            meta.append(("structure", case, pairs_loads(crafted_s), crafted_s, canon_obj("fileir", enc_fileir(ro[1]))))

        phase("in-process")
        # ---- correspondence with the Lean model
        outs = model.batch(reqs)
        for (op, case, doc, doc_s, back_enc), (_, payload), mo in zip(meta, reqs, outs):
            if "__error__" in mo:
                res.disagreements.append({"case": case, "op": op, "model": mo})
                continue
            if op == "ser":
                if mo["doc"] != doc:
                    res.disagreements.append({"case": case, "op": op, "diff": diff_class(doc, mo["doc"]),
                                              "impl": doc_s[:400], "object": payload["obj"] if len(doc_s) < 6000 else "<large>"})
                else:
                    res.count("corr:ser:agree")
                    # the sort-key hypothesis of C18_ir_canonical (json's printer separates the members of
                    # every set), evaluated by the model on this very object
                    if not mo.get("sort_key_injective", True):
                        res.internal_errors.append({"what": "sort key (name, json.dumps) does not separate two "
                                                    "different members of a set: hypothesis SortKeyInj fails",
                                                    "case": case})
                    else:
                        res.count("hyp:SortKeyInj:holds")
                    # the hypothesis that replaced it (FileIrSets / FnIrIsSet: no two members of a set are ==
                    # under the model's Symbol.pyEq) — a real set always satisfies it, so a failure means the
                    # model's == is coarser than Python's
                    if not mo.get("members_are_sets", True):
                        res.internal_errors.append({"what": "the model's == identifies two members of a real set: "
                                                    "hypothesis IsSet fails", "case": case})
                    else:
                        res.count("hyp:IsSet:holds")
                    # the model's json.dumps(sort_keys=True) against the real one (the IR sort key)
                    if mo["sorted_dump"] != json.dumps(json.loads(doc_s), sort_keys=True):
                        res.internal_errors.append({"what": "dumpSorted differs from json.dumps(sort_keys=True)",
                                                    "case": case, "model": mo["sorted_dump"][:300]})
                    # the model's compact printer against json.dumps (ASCII escapes, separators)
                    if mo["compact"] != json.dumps(json.loads(doc_s), separators=(",", ":")):
                        res.internal_errors.append({"what": "JVal.render differs from json.dumps(separators=(',',':'))",
                                                    "case": case, "model": mo["compact"][:300]})
            else:
                if "ok" not in mo:
                    res.disagreements.append({"case": case, "op": op, "model": mo, "impl": "ok"})
                elif canon_obj(case["kind"], mo["ok"]) != back_enc:
                    res.disagreements.append({"case": case, "op": op, "model": str(mo["ok"])[:400], "impl": str(back_enc)[:400]})
                else:
                    res.count("corr:structure:agree")

        phase("model")
        # ---- (canonical, CLI and in-process worker): hash seeds. The jobs were submitted after the harvest
        # and ran in the background.
        def judge_seed_runs(files, out, cmd, runs, channel):
            """runs: [(hash seed, (exit status, bytes, stderr tail))] of ONE analysis."""
            res.evaluations += 1
            case = {"project": {n: s for n, s in files.items()}, "output": out, "cmd": cmd,
                    "seeds": [s for s, _ in runs]}
            if any(r[0] != 0 for _, r in runs):
                res.count(f"{channel}:{out}:nonzero-exit")
                res.skipped_outside_fragment += 1
                if len({r[0] for _, r in runs}) > 1:
                    res.violations.append({"signature": f"{out}-exit-status-depends-on-hash-seed", "case": case})
                return
            outputs = {}
            for s, r in runs:
                outputs.setdefault(r[1], []).append(s)
            ok_json = True
            for b in outputs:
                try:
                    json.loads(b)
                except Exception:  # noqa
                    ok_json = False
            if not ok_json:
                res.violations.append({"signature": f"invalid-json:cli:{out}", "case": case})
                return
            if len(outputs) == 1:
                res.count(f"{channel}:{out}:identical-across-{len(runs)}-seeds")
                return
            bs = list(outputs.items())
            da, db = pairs_loads(bs[0][0]), pairs_loads(bs[1][0])
            dc = diff_class(da, db)
            sig = order_signature("hash-seed", out, dc, da, db) if dc else f"{out}-bytes-differ:whitespace"
            res.count(f"{channel}:{out}:{len(outputs)}-distinct-outputs")
            detail = {"diff": dc, "distinct_outputs": len(outputs)}
            if dc and dc[0] == "dict-key-order":
                # the two key orders (module names of import_irs, ids of a symbol table)
                detail["keys_a"] = [k for k, _ in _at(da, dc[2])["o"]][:40]
                detail["keys_b"] = [k for k, _ in _at(db, dc[2])["o"]][:40]
            res.violations.append({"signature": sig, "case": {**case, "seeds_a": bs[0][1], "seeds_b": bs[1][1]},
                                   "detail": detail})
            # a second, independent difference may hide behind the first one: compare every pair
            for (b1, _), (b2, _) in itertools.combinations(bs[:8], 2):
                d1, d2 = pairs_loads(b1), pairs_loads(b2)
                for dcx in all_diffs(d1, d2):
                    sx = order_signature("hash-seed", out, dcx, d1, d2)
                    if sx != sig:
                        res.violations.append({"signature": sx, "case": case, "detail": {"diff": dcx}})

        outs = [f.result() for f in cli_futs]
        by = {}
        for (pd, out, s), r in zip(jobs, outs):
            by.setdefault((pd, out), []).append((s, r))
        files_of = {p: f for p, f, _ in projects}
        files_of.update({g["pd"]: g["files"] for g in gprojects})
        gdirs = {g["pd"] for g in gprojects}
        for (pd, out), runs in by.items():
            judge_seed_runs(files_of[pd], out, f"python -m rattr -o {out} -w none target.py", runs,
                            "cli:graph" if pd in gdirs else "cli")
        # `-o cacheable -C <file>`: stdout and the written cache file, each across the hash seeds, and against
        # each other
        aby = {}
        for (g, s), r in zip(ajobs, [f.result() for f in acli_futs]):
            aby.setdefault(g["label"], (g, []))[1].append((s, r))
        for label, (g, runs) in aby.items():
            cmd = "python -m rattr -o cacheable -C <fresh file> -w none target.py"
            judge_seed_runs(g["files"], "cacheable", cmd + "  [stdout]", [(s, (r[0], r[1], r[3])) for s, r in runs],
                            "cli:alias")
            if all(r[0] == 0 for _, r in runs):
                if any(r[2] is None for _, r in runs):
                    res.violations.append({"signature": "cache-file-not-written", "case": {"project": g["files"], "cmd": cmd}})
                    continue
                judge_seed_runs(g["files"], "cache-file", cmd + "  [the file]", [(s, (0, r[2], r[3])) for s, r in runs],
                                "cli:alias")
                for s, r in runs:
                    try:
                        same = pairs_loads(r[1]) == pairs_loads(r[2])
                    except Exception:  # noqa  (invalid JSON is reported by judge_seed_runs)
                        same = True
                    if not same:
                        res.violations.append({"signature": "cache-file-differs-from-stdout-document",
                                               "case": {"project": g["files"], "cmd": cmd, "seeds": [s]}})
                        break
                else:
                    res.count("cli:alias:cache-file==stdout-document")
        res.extra["cli_runs_cache_file"] = len(ajobs)
        res.extra["cli_runs"] = len(jobs)
        res.extra["hash_seeds"] = len(seeds)
        res.extra["hash_seeds_import_graphs_cli"] = len(gseeds)
        phase("cli-wait")

        # the in-process worker: every import-graph project under NWSEEDS hash seeds, one process per seed
        wouts = [(s, f.result()) for s, f in worker_futs]
        for s, w in wouts:
            if "error" in w:
                res.internal_errors.append({"what": "hash-seed worker failed", "hashseed": s, "detail": w})
        wouts = [(s, w) for s, w in wouts if "error" not in w]
        for gi, g in enumerate(gprojects):
            recs = [(s, w["projects"][gi]) for s, w in wouts]
            if not recs:
                break
            if any("fail" in r for _, r in recs):
                res.count("worker:graph:analysis-failed")
                if not all("fail" in r for _, r in recs):
                    res.violations.append({"signature": "analysis-outcome-depends-on-hash-seed",
                                           "case": {"project": g["files"], "seeds": [s for s, _ in recs]},
                                           "detail": [(s, r.get("fail")) for s, r in recs]})
                continue
            for out in c18_imports.OUTS:
                if len({r["md5"][out] for _, r in recs}) == 1:
                    res.evaluations += 1
                    res.count(f"worker:graph:{out}:identical-across-{len(recs)}-seeds")
                    continue
                runs = [(s, (0, Path(r["file"][out]).read_bytes(), "")) for s, r in recs]
                judge_seed_runs(g["files"], out, "in-process: parse_and_analyse_file, generate_results_from_ir, "
                                f"serialise ({out}) under PYTHONHASHSEED", runs, "worker:graph")
            g["seed_keys"] = [(s, r["keys"]) for s, r in recs]
        res.extra["hash_seeds_import_graphs_worker"] = len(wouts)
        phase("worker-wait")

        # ---- Tie B for the import BFS: the model's analysis order (Imports.bfs on the graph the real
        # locator and root contexts give) is the key order of import_irs, under every hash seed; and the
        # model's IR document assembled in that order is the implementation's
        greqs = []
        for g in gprojects:
            post = g["post"]
            greqs.append(("ir_document", {
                "flags": g["graph"]["flags"], "modules": g["graph"]["modules"], "target": g["graph"]["target"],
                "irs": sorted([[m, enc_fileir(f)] for m, f in post.import_irs.items()], key=lambda p: p[0]),
                "target_name": post.target_ir["filename"], "target_ir": enc_fileir(post.target_ir["ir"]),
                "cache_infos": g["graph"]["cacheInfos"]}))
        gouts = model.batch(greqs)
        for g, (_, payload), mo in zip(gprojects, greqs, gouts):
            res.evaluations += 1
            case = {"project": g["files"], "label": g["label"], "op": "ir_document"}
            if "__error__" in mo:
                res.disagreements.append({"case": case, "model": mo})
                continue
            if mo["outcome"] != "done" or mo["missing"]:
                res.disagreements.append({"case": case, "what": "model BFS outcome", "model": {k: mo[k] for k in ("outcome", "analysed", "missing")},
                                          "impl_keys": g["keys"]})
                continue
            bad = False
            for s, keys in [("this-process", g["keys"])] + g.get("seed_keys", []):
                if keys != mo["analysed"]:
                    bad = True
                    res.disagreements.append({"case": case, "what": "key order of import_irs is not the model's BFS order",
                                              "hashseed": s, "impl_keys": keys, "model_analysed": mo["analysed"]})
                    break
            if bad:
                continue
            res.count("corr:bfs-order:agree")
            doc_s = ser("outputirs", g["post"])
            if mo["doc"] != pairs_loads(doc_s):
                res.disagreements.append({"case": case, "what": "IR document assembled from the model's BFS",
                                          "diff": diff_class(pairs_loads(doc_s), mo["doc"])})
            else:
                res.count("corr:ir-document:agree")
            real_imports = [[str(i.filepath), i.filehash] for i in g["cacheable"].imports]
            all_paths = [i[0] for l in [g["graph"]["cacheInfos"]["target"]] + [v for _, v in g["graph"]["cacheInfos"]["modules"]]
                         for i in l if i is not None]
            if g["graph"].get("recordedNotOrigin"):
                # model `infoFromFile`: the recorded path is the module spec's origin as given
                res.disagreements.append({"case": case, "what": "CacheableImportInfo.filepath is not Path(spec.origin) as given",
                                          "impl": g["graph"]["recordedNotOrigin"][:4]})
            elif sorted(set(all_paths)) != [str(q) for q in sorted({Path(q) for q in all_paths})]:
                # the model orders paths as strings, `Path` component-wise: they differ only when a directory
                # name is a proper prefix of a sibling's and the next character sorts before '/'
                res.count("corr:cache-imports:skipped:str-order!=Path-order")
                res.skipped_outside_fragment += 1
            elif mo["cache_imports"] != real_imports:
                res.disagreements.append({"case": case, "what": "cacheable imports list", "model": mo["cache_imports"],
                                          "impl": real_imports})
            else:
                res.count("corr:cache-imports:agree")
            for pk, pv in mo.get("perm_invariant", {}).items():
                res.count(f"hyp:{pk}:{'holds' if pv else 'fails'}")
        phase("graph-model")

        # ---- worker self-check: in-process documents == CLI documents up to order inside sorted sets
        for pd, files, ties in projects[:3]:
            rc, b, _ = cli(pd, "results", 0)
            h = impl.outcome_of(harvest, pd)
            if rc == 0 and h[0] == "ok":
                if json.loads(b) != json.loads(ser("results", h[1]["results"])):
                    res.internal_errors.append({"what": "in-process results differ from the CLI's", "project": files})
                else:
                    res.count("selfcheck:cli-vs-inprocess:agree")
    finally:
        if executor is not None:
            executor.shutdown(wait=True, cancel_futures=True)
        shutil.rmtree(tmp, ignore_errors=True)
    res.extra["phase_wall_s"] = phase_t

    res.assumptions = [
        "cattrs and json are trusted: the model states what each registered hook computes on JSON values",
        "[interp] 'compare equal' is Python == on the rattr objects (attrs eq: token and location excluded; sets and dicts order-insensitive)",
        "[interp] the order of the import_irs dict (filled by the import BFS) and of the context symbol table (insertion order) is part of the analysis: no hook sorts them. The import_irs order is modelled (Imports.bfs on the module graph the real locator and root contexts give, imports of a file in symbol-table order; C18_importirs_in_bfs_order, C18_irdocument_canonical) and tied to the code by tieA_import_queue and by op ir_document (model BFS order == key order of the real import_irs in this process and under every worker hash seed); hash-seed independence itself is observed end-to-end: real CLI and an in-process worker, >= 6 / 8 hash seeds, import graphs of depth 2-3 with fan-out 2-4 below the target",
        "the module graph (which module an import symbol resolves to, origins, blacklist / pip / stdlib verdicts, the Import symbols of each root context in symbol-table order) and the CacheableImportInfo of each import symbol are per-case parameters computed by the real code",
        "the cache document's `imports`: the model sorts the recorded paths as STRINGS, the code as `Path`s (component-wise; pinned by tieA_cache_sort_key probe:order); the two orders agree unless a directory name is a proper prefix of a sibling's name and the next character sorts before '/' (space ! \" # $ % & ' ( ) * + , - .): such import sets are outside the compared fragment (counted `corr:cache-imports:skipped:str-order!=Path-order`; none is generated). The recorded path is the module spec's origin as given, never resolved (model `infoFromFile`; checked per case in graph_facts), the hash a function of that path (the project is not written to during a run)",
        "[interp] 'sorted order' for the `imports` list = strictly increasing on the recorded `filepath` (as `Path` or as `str`): a list ordered on another attribute is reported `cacheable-imports-not-strictly-sorted-on-filepath`",
        "forced set iteration order: a CPython set of < 19 members with distinct small non-negative hashes iterates in ascending hash order; members are made through rattr.models.results.util.CacheableImportInfo.from_file, replaced for the call by a subclass whose hash is the member's rank (when the code no longer goes through that name the channel reports `import-set:forced-order:ineffective` and gives no verdict; the hash-seed channels remain)",
        "model `structure` is claimed only for documents the serialiser emits (every key present, declared scalar types)",
        "json.dumps is PROVED injective on the model's JSON values (C18_json_printer_injective) and the sort key (name, json.dumps(member, sort_keys=True)) is proved to separate the members of every set (sortKeyInj_of_isSet); the remaining hypothesis of C18_ir_canonical is the data-type invariant that a member list stands for a Python set (no two members ==, kwargs compared as a frozendict), evaluated by the model on every object (distribution keys hyp:IsSet:holds, hyp:SortKeyInj:holds), a failure is an internal error",
        "model strings are lists of Unicode scalar values: a Python str holding lone surrogates is outside the printer theorem (json.dumps prints chr(0xd83d)+chr(0xde00) and chr(0x1f600) alike)",
        "Python set iteration order is an arbitrary permutation (modelled by list order); permuted-order checks feed lists in place of sets",
    ]
    return res


def _neutral(x):
    if isinstance(x, dict):
        return {"o": [[k, _neutral(v)] for k, v in x.items()]}
    if isinstance(x, list):
        return {"a": [_neutral(v) for v in x]}
    return x


def _iface_kind(enc):
    i = enc.get("iface", "n/a")
    if i is None:
        return "none"
    if i == "any":
        return "any"
    if i == "n/a":
        return "n/a"
    bits = "".join(c for c, k in zip("paVkK", ("posonly", "args", "vararg", "kwonly", "kwarg")) if i[k])
    return bits or "empty"


def _target_kind(enc):
    if enc["k"] != "Call":
        return "n/a"
    t = enc["target"]
    return "none" if t is None else f"{t['k']}({_iface_kind(t)})"


def _nonempty(doc):
    if isinstance(doc, dict):
        if "a" in doc:
            return len(doc["a"]) > 0 or False
        if "o" in doc:
            return any(_nonempty(v) for _, v in doc["o"]) or False
    return False


def replay(path):
    j = json.load(open(path))
    print(json.dumps(j, indent=1)[:20000])
    case = j.get("case", {})
    if "project" in case:
        import hashlib
        tmp = Path(os.path.realpath(tempfile.mkdtemp(prefix="c18_replay_")))
        try:
            write_project(tmp, case["project"])
            if "set_iteration_order_a" in case:
                # the in-process channel: make_cacheable_import_info under the two forced set orders
                old = case.get("project_root", "")
                reloc = lambda l: [str(tmp) + p[len(old):] if old and p.startswith(old) else p for p in l]  # noqa: E731
                perms = [reloc(case[k]) for k in ("set_iteration_order_a", "set_iteration_order_b") if case.get(k)]
                h = harvest(tmp, False, lambda paths: [[p for p in perm if p in paths] + [p for p in paths if p not in perm]
                                                       for perm in perms])
                for perm, lst in h["forced"]["runs"]:
                    print("set iteration order:", [Path(p).name for p in perm])
                    print("  imports:", [Path(p).name for p, _ in lst])
                return 0
            for s in case.get("seeds", [0, 1, 2, 3]):
                if "-C" in case.get("cmd", ""):
                    rc, out, data, err = c18_alias.cli_cache(tmp, s, "replay")
                    print(f"PYTHONHASHSEED={s} exit={rc} stdout md5={hashlib.md5(out).hexdigest()} "
                          f"cache file md5={hashlib.md5(data or b'').hexdigest()}")
                    continue
                rc, out, err = cli(tmp, case["output"], s)
                print(f"PYTHONHASHSEED={s} exit={rc} md5={hashlib.md5(out).hexdigest()}")
        finally:
            shutil.rmtree(tmp, ignore_errors=True)
    return 0

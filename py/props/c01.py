"""C01 — every access in a function body is reported (no missed get/set/del/call)."""
from __future__ import annotations

import random
import warnings

import common
from props import accessspec as spec
from props import c01match as cm
from props import c01star as cs
from props import c01x as cx
from props import visitlib as vl

PID = "C01"
TABLES = ["RC", "C01"]

WITNESSES = '''
def w_slice(a, b):
    return a.x[b.y].z
def w_slice_bounds(i, j, k):
    x = i[j.s:k.t]
def w_inner_call(a, c):
    a.b(c.d).e()
def w_xattr_extra(a, b, c, d):
    setattr(a, 'x', b.y)
    getattr(c, 'z', d.w)
def w_callee_operands(a, b, c, f, p, q):
    (a or b)(c)
    f(p)(q)
def w_deep_base(c, d):
    (c + d).y.z
def w_sorted(xs, a):
    sorted(xs, reverse=a.r)
def w_defaultdict(a):
    defaultdict(a.factory, a.extra)
def w_lambda_assign(a):
    g = lambda w: w.k
def w_namedtuple_assign(a):
    P = namedtuple('P', a.fields)
def w_ann_class(a, b):
    x: a.T = Cls(b)
def w_nonliteral(a, n):
    getattr(a, n.m)
'''


def run(tier, seed, build):
    warnings.simplefilter("ignore")
    res = common.Result(PID)
    res.rule = ("[per function] generated modules (fixed preamble of module-level classes/functions/lambda/namedtuple/imports + 6 functions "
                "whose bodies are drawn from every statement kind x expression kind x context, nested to depth 3, every "
                "attribute name unique) + hand-written witnesses; per function: real FunctionAnalyser vs Lean model "
                "(IR sets with basenames, call records, diagnostics in order, outcome), then the spec walk (every child of "
                "every node) demands every access in the real IR; the same for modules whose bodies are dense in displays (tuple / "
                "list / set / dict with * elements and ** spreads, nested, under return / yield / assignment / arguments / headers). "
                "[per file] filegen modules + modules made of callables only (functions, classes of every base family with "
                "initialiser / static methods, named lambdas): real root context + FileAnalyser vs the Lean model, then for every "
                "callable the specification finds in the source the real FileIr must have an entry holding every access of its "
                "body; [CLI] two-file projects (target + followed import, flat or package): the same oracle on `-o ir` (target "
                "and import) and on `-o results`. [match] the same three levels (per function — the model asked through the typed "
                "`Match.stmt` encoding AND the generic one —, whole files, two-file projects in-process and through the CLI) on bodies "
                "dense in `match` statements over the whole pattern grammar (value / literal / singleton / capture / wildcard / "
                "sequence with star / mapping with dotted keys and **rest / class with positional and keyword sub-patterns / or / "
                "group / `as` around each of them, guards and bodies using the captures, nested); every pattern kind, every `as` "
                "wrapping and every load-under-`as` must be reached by the run. [star] the same three levels under root contexts produced by "
                "`compile_root_context(ast).expand_starred_imports()`: projects with local star-importable modules (flat / package `__init__` "
                "re-exporting by `*`, absolute, relative, chained / target inside the package / target = `__init__` / two stars / next to a "
                "non-local star; star line before or after the file's own definitions; helper modules binding the same names as the target and "
                "their own builtins), bodies dense in getattr / hasattr / setattr / delattr with a literal name (every base shape, every position), "
                "sorted(key=…), defaultdict(…) and names only the star supplies; per function (real expanded context, model `analyse_fn`), whole "
                "files (model `Pipeline2.rootOf` / `analyseAt`, ops star_root / star_file), projects in-process + CLI with the star in the target or "
                "in a followed import; all four getattr-family builtins must be demanded by the run. non-trivial = distinct callable with >= 3 accesses")
    rng = random.Random(seed)
    n_modules = 60 if tier == "quick" else 900
    model = common.Model()
    wit_names = [l.split("(")[0][4:] for l in WITNESSES.splitlines() if l.startswith("def ")]
    from props.bodygen import PREAMBLE
    cases = vl.run_batch(rng, n_modules, model, extra_sources=[(PREAMBLE + WITNESSES, wit_names)])
    cases += vl.run_file_batch(rng, n_modules // 3, model)
    # displays (tuple / list / set / dict with * elements and ** spreads) in every position, above all under `return`
    rrng = random.Random(seed + 7003)
    ret_names = [l.split("(")[0][4:] for l in cx.RET_WITNESSES.splitlines() if l.startswith("def ")]
    ret_sources = [(PREAMBLE + cx.RET_WITNESSES, ret_names)] + [cx.gen_ret_module(rrng) for _ in range(30 if tier == "quick" else 400)]
    cases += vl.run_batch(rrng, 0, model, extra_sources=ret_sources)
    for c in cases:
        res.evaluations += 1
        case = {"function": c.fn_src}
        res.count("outcome:" + c.im["outcome"] + (":" + c.im["exc"] if c.im["outcome"] != "ok" else ""))
        if c.diff is not None:
            res.disagreements.append({"case": case, "diff": c.diff[:2000]})
        if c.im["outcome"] != "ok":
            continue            # no IR to judge (crashes / fatals are C07's)
        classes = spec.local_class_names(c.fn, vl.MODULE_CLASSES)
        accs = spec.accesses(c.fn, classes)
        if len(accs) >= 3:
            res.nontrivial.add(common.digest(c.fn_src))
        have = {k: {n[0] for n in c.im[k + "s"]} for k in ("get", "set", "del")}
        have["call"] = {x["name"] for x in c.im["calls"]}
        for a in accs:
            res.count("position:" + (a.tags[0] if a.tags else "plain"))
            if a.name in have[a.kind]:
                continue
            if a.tags:
                sig = "missed-access:" + a.tags[0]
            elif cx.match_position(a.path) is not None:
                sig = "missed-access:" + cx.match_position(a.path)
            elif cx.xattr_signature(a) is not None:
                sig = "missed-access:" + cx.xattr_signature(a)
            else:
                sig = "missed-access:other:" + "/".join(a.path[-2:])
            res.count("verdict:" + sig)
            res.violations.append({"signature": sig, "case": case, "missing": {"kind": a.kind, "name": a.name,
                                   "line": a.node.lineno, "col": a.node.col_offset, "path": list(a.path), "tags": list(a.tags)}})
        res.sample({"function": c.fn_src, "gets": c.im["gets"][:6]}, cap=3)
    # whole files: which callables get an IR (real S2+S4 vs model), then the oracle on the real FileIr
    file_cases = __import__("props.filestage").filestage.run_file_stage(
        res, random.Random(seed + 7001), 120 if tier == "quick" else 1500, model)
    for fc in file_cases:
        if fc.skipped is None:
            cx.judge_file_case(res, fc, "filestage")
    cx.run_unit_stage(res, random.Random(seed + 7005), 60 if tier == "quick" else 700, model)
    cx.run_project_stage(res, random.Random(seed + 7007), *((36, 8) if tier == "quick" else (400, 40)))
    # `match` statements: every pattern kind x wrapper x position (py/props/c01match.py, RattrModel/Match.lean)
    cm.run_function_stage(res, random.Random(seed + 7011), 30 if tier == "quick" else 400, model)
    cm.run_file_stages(res, random.Random(seed + 7013), *((16, 8, 3) if tier == "quick" else (200, 60, 12)), model)
    # star-expanded root contexts (py/props/c01star.py; RattrModel/Pipeline2.lean `rootOf` / `analyseAt`)
    cs.run_function_stage(res, random.Random(seed + 7017), 8 if tier == "quick" else 100, model)
    cs.run_file_stage(res, random.Random(seed + 7019), 10 if tier == "quick" else 120, model)
    cs.run_project_stage(res, random.Random(seed + 7023), *((5, 1) if tier == "quick" else (60, 8)))
    unreached_star = cs.reach_summary(res.distribution)
    if unreached_star:
        res.internal_errors.append({"what": "the star-import stages did not reach part of their input class", "unreached": unreached_star})
    unreached = cm.reach_summary(res.distribution)
    if unreached:
        res.internal_errors.append({"what": "the match generator did not reach some pattern kinds / wrappers", "unreached": unreached})
    res.assumptions = [
        "[interp] nested def / lambda / class bodies are exempt from the lower bound (documented unsupported, diagnosed)",
        "[interp] a direct getattr-family call with a literal name is the attribute access (no call record demanded)",
        "functions that end in fatal / crash have no IR and are judged by C07",
        "[interp] 'that rattr analyses' (whole-file stages): module-level def / async def, `name = lambda …`, the single plain "
        "`__init__` of a module-level class (whatever its bases are spelled like), `@staticmethod` methods; undecorated, not "
        "excluded by pattern, the only binding of their name in the module, not re-using a builtin's name (that is diagnosed "
        "with an error and not analysed). Direct children of the module MUST have an IR entry; the same shapes nested in a "
        "compound statement are judged when rattr has an entry for them",
        "`-o results` of the target: the final per-function object must still contain the function's own accesses",
        "[interp] the loads of a `match` pattern are the dotted name of a value pattern, the class expression of a class pattern "
        "and a dotted mapping key (ordinary Load expressions of the AST), wherever in the pattern they sit; names a pattern BINDS "
        "(captures, `as` names, `*rest`, `**rest`) are not attribute / variable accesses of the kind the property lists and are "
        "not demanded under sets (uses of them in the guard / body are demanded under gets like any other name)",
    ]
    return res


def replay(path):
    import json
    print(json.dumps(json.load(open(path)), indent=1)[:5000])
    return 0

"""C08, three further families (round 4).

U  UNRESOLVABLE callees: the callee Python's scoping rules pick has NO IR of its own (a nested def / nested async def / a
   lambda bound to a local name / a nested class / a module-level `@rattr_ignore`d function or class) crossed with every
   placement {absent, function same signature, function other signature, lambda | class with init} of a SAME-NAMED
   module-level symbol in the other modules of the project (the followed import, an import of the import, the target),
   the call being made in the target, inside the followed import, or directly through the module (`uimp1.f(v)`).
   Oracle: "otherwise unresolvable targets contribute only the call itself": no distinctive attribute of ANOTHER module's
   homonym may appear in the caller's entry.

R  REDEFINITION: one module-level name bound twice (or three times): every ordered pair of binding kinds {def, async def,
   lambda, class with / without __init__, from-import, @rattr_ignore'd def}, same / other signature, the caller written
   before / between / after the bindings, in the target and in a followed import (+ called directly through the module);
   def in if/else branches, conditional redefinition, try/except, static methods.
   Oracle: Python's module namespace holds the LAST binding when the call runs; for the conditional forms either binding.

O  ORDER / STATE: the same name used as the real plugin-handled builtin (sorted, getattr, setattr, hasattr, delattr,
   collections.defaultdict in two spellings) in one function and as a PARAMETER (positional, keyword-only, of a nested def,
   of a lambda) in another function, in both orders, in one file, in a followed import, and across the two files.
   Oracle: (metamorphic) a function's results entry is the same in every layout it appears in — it must not depend on
   what was analysed before; (property) the call through the parameter is reported and nothing is inlined / no
   plugin treatment is applied for it.

Signatures are computed from the INPUT row and the class of what fails (foreign body inlined / last binding not inlined /
entry differs / call not reported), never from the spelling of what rattr answered.
"""
from __future__ import annotations

import itertools

IGN = "from rattr.analyser.annotations import rattr_ignore\n"


def marks_of(entry):
    """the distinctive attributes (last component) found in an entry"""
    return sorted({n.rsplit(".", 1)[-1] for k in ("gets", "sets", "dels") for n in entry[k] if "mark_" in n})


# ====================================================================== family U

U_KINDS = {
    # kind -> (text, is-class, module-level?)
    "nested-def": ("nested function", False, False),
    "nested-async-def": ("nested async function", False, False),
    "local-lambda": ("lambda bound to a local name", False, False),
    "nested-class": ("nested class", True, False),
    "ignored-def": ("@rattr_ignore'd module-level function", False, True),
    "ignored-class": ("@rattr_ignore'd module-level class", True, True),
}
U_FLAV_TEXT = {"D": "function,same-signature", "E": "function,other-signature", "L": "lambda,same-signature",
               "I": "class-with-init,same-signature", "A": "absent"}
U_SITES = {"target": ("target", ("uimp1", "uimp2")), "import": ("uimp1", ("target", "uimp2")),
           "direct-through-module": ("uimp1", ("target", "uimp2"))}


def u_homonym(flav, mod, n):
    m = f"mark_{mod}_{n}"
    if flav == "D":
        return f"def {n}(a):\n    return a.{m}\n"
    if flav == "E":
        return f"def {n}(a, b=None):\n    return a.{m}\n"
    if flav == "L":
        return f"{n} = lambda a: a.{m}\n"
    if flav == "I":
        return f"class {n}:\n    def __init__(self, a):\n        self.s = a.{m}\n"
    return None


def u_own(kind, n):
    """(module-level definition or None, caller source) — the caller is `c_<n>(v)`"""
    m = f"mark_own_{n}"
    if kind == "nested-def":
        return None, f"def c_{n}(v):\n    def {n}(a):\n        return a.{m}\n    return {n}(v)\n"
    if kind == "nested-async-def":
        return None, f"def c_{n}(v):\n    async def {n}(a):\n        return a.{m}\n    return {n}(v)\n"
    if kind == "local-lambda":
        return None, f"def c_{n}(v):\n    {n} = lambda a: a.{m}\n    return {n}(v)\n"
    if kind == "nested-class":
        return None, (f"def c_{n}(v):\n    class {n}:\n        def __init__(self, a):\n            self.s = a.{m}\n"
                      f"    x = {n}(v)\n    return x\n")
    if kind == "ignored-def":
        return f"@rattr_ignore\ndef {n}(a):\n    return a.{m}\n", f"def c_{n}(v):\n    return {n}(v)\n"
    if kind == "ignored-class":
        return (f"@rattr_ignore\nclass {n}:\n    def __init__(self, a):\n        self.s = a.{m}\n",
                f"def c_{n}(v):\n    x = {n}(v)\n    return x\n")
    raise KeyError(kind)


U_HEAD = {"target.py": "import uimp1\n" + IGN, "uimp1.py": "import uimp2\n" + IGN, "uimp2.py": ""}


def u_rows():
    rows = []
    for kind, (_, is_cls, modlevel) in U_KINDS.items():
        flavs = "ADI" if is_cls else "ADEL"
        for site, (home, others) in U_SITES.items():
            if site == "direct-through-module" and not modlevel:
                continue
            for cfg in itertools.product(flavs, repeat=2):
                if set(cfg) == {"A"}:
                    continue
                n = f"u_{kind.replace('-', '')}_{site[0]}_{''.join(cfg)}"
                parts = {"target.py": [], "uimp1.py": [], "uimp2.py": []}
                own_def, caller = u_own(kind, n)
                hf = home + ".py"
                if own_def:
                    parts[hf].append(own_def)
                for flav, mod in zip(cfg, others):
                    h = u_homonym(flav, mod, n)
                    if h:
                        parts[mod + ".py"].append(h)
                if site == "target":
                    parts["target.py"].append(caller)
                    name = f"c_{n}"
                elif site == "import":
                    parts["uimp1.py"].append(caller)
                    parts["target.py"].append(f"def cx_{n}(v):\n    return uimp1.c_{n}(v)\n")
                    name = f"cx_{n}"
                else:
                    parts["target.py"].append(f"def cd_{n}(v):\n    x = uimp1.{n}(v)\n    return x\n")
                    name = f"cd_{n}"
                where = "+".join(f"{mod}({U_FLAV_TEXT[f]})" for f, mod in zip(cfg, others) if f != "A")
                rows.append({"name": name, "n": n, "kind": kind, "site": site, "cfg": "".join(cfg), "parts": parts,
                             "sig": f"foreign-body-inlined-for-callee-without-ir:{kind}:call-in-{site}:same-name-in={where}",
                             "row": ("callee-without-ir", kind, site, "".join(cfg))})
    return rows


def assemble(head, rows, rng=None, order=None):
    """file -> source: the head, then every row's snippets (row order shuffled by `rng` when given)"""
    rows = list(rows)
    if rng is not None:
        rng.shuffle(rows)
    out = {}
    for f, h in head.items():
        out[f] = h + "\n" + "\n".join(s for r in rows for s in r["parts"].get(f, []))
    return out


def single(head, row):
    return {f: h + "\n" + "\n".join(row["parts"].get(f, [])) for f, h in head.items()}


def judge_u(res, results, rows, common):
    seen = set()
    for r in rows:
        res.evaluations += 1
        res.nontrivial.add(common.digest(["u", r["row"]]))
        seen.add(r["row"])
        res.count(f"unresolvable-row:{r['kind']}|call-in-{r['site']}")
        case = {"row": list(r["row"]), "callee": U_KINDS[r["kind"]][0], "caller": r["name"], "files": single(U_HEAD, r)}
        entry = results.get(r["name"])
        if entry is None:
            res.violations.append({"signature": "caller-missing-from-results", "case": case})
            continue
        got = marks_of(entry)
        foreign = [g for g in got if not g.startswith("mark_own_")]
        call = (f"uimp1.c_{r['n']}()" if r["site"] == "import" else f"uimp1.{r['n']}()" if r["site"] != "target" else r["n"] + "()")
        if foreign:
            res.count("verdict:" + r["sig"])
            res.violations.append({"signature": r["sig"], "case": case, "marks": got})
        elif call not in entry["calls"]:
            sig = f"call-not-reported:callee-without-ir:{r['kind']}:call-in-{r['site']}"
            res.count("verdict:" + sig)
            res.violations.append({"signature": sig, "case": case, "calls": entry["calls"]})
        else:
            res.count("verdict:holds:unresolvable:only-the-call-itself")
    return seen


# ====================================================================== family R

R_KINDS = {"def": "function", "async": "function", "lam": "function", "clsI": "class-with-init",
           "clsN": "class-without-init", "imp": "from-import", "ign": "ignored-def"}
R_KIND_TEXT = {"def": "def", "async": "async-def", "lam": "lambda", "clsI": "class-with-init", "clsN": "class-without-init",
               "imp": "from-import", "ign": "rattr_ignore-def"}
# pairs whose LAST binding is a class with __init__ after a non-class binding: ClassAnalyser raises ValueError ("class … is
# not in the current context") — a crash of the whole run (C07's subject), no results, nothing inlined: left out
R_CRASHES = {(a, "clsI") for a in ("def", "async", "lam", "imp", "ign")}


def r_binding(kind, mod, n, i, sig="a"):
    """(source, mark or None) of the i-th binding (1-based) of name n in module `mod`"""
    m = f"mark_{mod}_{n}_b{i}"
    if kind == "def":
        return f"def {n}({sig}):\n    return a.{m}\n", m
    if kind == "async":
        return f"async def {n}({sig}):\n    return a.{m}\n", m
    if kind == "lam":
        return f"{n} = lambda {sig}: a.{m}\n", m
    if kind == "clsI":
        return f"class {n}:\n    def __init__(self, {sig}):\n        self.s = a.{m}\n", m
    if kind == "clsN":
        return f"class {n}:\n    kind = {i}\n", None
    if kind == "imp":
        return f"from rlib{i} import {n}\n", f"mark_rlib{i}_{n}"
    if kind == "ign":
        return f"@rattr_ignore\ndef {n}({sig}):\n    return a.{m}\n", None
    raise KeyError(kind)


def indent(src):
    return "".join("    " + ln + "\n" for ln in src.splitlines())


R_HEAD = {"target.py": "import os\nimport rimp\n" + IGN, "rimp.py": "import os\n" + IGN, "rlib1.py": "", "rlib2.py": "", "rlib3.py": ""}
R_FORMS = ("sequential", "if-else-branches", "conditional-redefinition", "try-except")


def r_specs():
    """(kinds, form, signature variant)"""
    out = []
    kinds = list(R_KINDS)
    for a, b in itertools.product(kinds, repeat=2):
        if (a, b) not in R_CRASHES:
            out.append(((a, b), "sequential", "same-signature"))
    fun = ("def", "async", "lam")
    for a, b in itertools.product(fun, repeat=2):
        out.append(((a, b), "sequential", "other-parameter-name"))
        out.append(((a, b), "sequential", "extra-parameter"))
    out.append((("clsI", "clsI"), "sequential", "extra-parameter"))
    for t in (("def", "def", "def"), ("lam", "def", "lam"), ("def", "lam", "def"), ("def", "clsN", "def"),
              ("clsI", "clsI", "clsI")):
        out.append((t, "sequential", "same-signature"))
    for form in R_FORMS[1:]:
        for a, b in (("def", "def"), ("lam", "def"), ("def", "lam"), ("async", "def"), ("clsI", "clsI")):
            out.append(((a, b), form, "same-signature"))
    return out


def r_rows():
    rows = []
    for site in ("target", "import", "direct-through-module"):
        mod = "target" if site == "target" else "rimp"
        for kinds, form, sigv in r_specs():
            coarse = [R_KINDS[k] for k in kinds]
            if site == "direct-through-module" and (set(coarse) != {"function"} or form != "sequential"):
                continue
            n = "r_" + "_".join(kinds) + "_" + {"sequential": "s", "if-else-branches": "b", "conditional-redefinition": "c",
                                                "try-except": "t"}[form] + {"same-signature": "", "other-parameter-name": "n",
                                                                            "extra-parameter": "x"}[sigv] + "_" + site[0]
            binds, marks = [], []
            for i, k in enumerate(kinds, 1):
                sig = "a"
                if i == len(kinds) and sigv == "extra-parameter":
                    sig = "z, a"
                src, m = r_binding(k, mod, n, i, sig)
                if i == len(kinds) and sigv == "other-parameter-name":
                    src = src.replace("(a)", "(q)").replace("lambda a:", "lambda q:").replace(" a.mark", " q.mark")
                binds.append(src)
                marks.append(m)
            args = "v, v" if sigv == "extra-parameter" else "v"

            def caller(j):
                return f"def c{j}_{n}(v):\n    x = {n}({args})\n    return x\n"

            parts = {f: [] for f in R_HEAD}
            f = mod + ".py"
            for i, k in enumerate(kinds, 1):
                if k == "imp":
                    parts[f"rlib{i}.py"].append(f"def {n}(a):\n    return a.mark_rlib{i}_{n}\n")
            if form == "sequential":
                body = [caller(0)]
                for j, b in enumerate(binds, 1):
                    body += [b, caller(j)]
                cand = [marks[-1]]
                last = f"c{len(binds)}"
                callers = [f"c{j}" for j in range(len(binds) + 1)]
            elif form == "if-else-branches":
                body = [caller(0), "if os.environ:\n" + indent(binds[0]) + "else:\n" + indent(binds[1]), caller(1)]
                cand, callers = marks, ["c0", "c1"]
            elif form == "conditional-redefinition":
                body = [caller(0), binds[0], "if os.environ:\n" + indent(binds[1]), caller(1)]
                cand, callers = marks, ["c0", "c1"]
            else:
                body = [caller(0), "try:\n" + indent(binds[0]) + "except Exception:\n" + indent(binds[1]), caller(1)]
                cand, callers = marks, ["c0", "c1"]
            parts[f] += body
            pair = "-then-".join(coarse)
            fine = "-then-".join(R_KIND_TEXT[k] for k in kinds)
            for c in callers:
                if site == "target":
                    name = f"{c}_{n}"
                elif site == "import":
                    name = f"cx_{c}_{n}"
                    parts["target.py"].append(f"def {name}(v):\n    x = rimp.{c}_{n}(v)\n    return x\n")
                else:
                    if c != callers[-1]:
                        continue
                    name = f"cd_{n}"
                    parts["target.py"].append(f"def {name}(v):\n    x = rimp.{n}({args})\n    return x\n")
                rows.append({"name": name, "n": n, "kinds": kinds, "form": form, "sigv": sigv, "site": site, "parts": parts,
                             "cand": [m for m in cand], "all_marks": [m for m in marks if m],
                             "caller_position": {"c0": "before-the-bindings"}.get(c, "after-the-bindings" if c == callers[-1]
                                                                                else "between-the-bindings"),
                             "sigbase": f"redefinition:{pair}:{form}:{sigv}:call-in-{site}",
                             "row": ("redefinition", fine, form, sigv, site, c)})
    return rows


def judge_r(res, results, rows, common):
    seen = set()
    for r in rows:
        res.evaluations += 1
        res.nontrivial.add(common.digest(["r", r["row"]]))
        seen.add(r["row"])
        res.count(f"redefinition-row:{r['form']}|{'-then-'.join(R_KINDS[k] for k in r['kinds'])}|call-in-{r['site']}")
        case = {"row": list(r["row"]), "caller": r["name"], "caller-written": r["caller_position"],
                "python calls": ("the LAST binding" if r["form"] == "sequential" else "either binding") +
                f" (distinctive attribute: {[m for m in r['cand']]})", "files": single(R_HEAD, r)}
        entry = results.get(r["name"])
        if entry is None:
            res.violations.append({"signature": "caller-missing-from-results", "case": case})
            continue
        got = marks_of(entry)
        allowed = {m for m in r["cand"] if m}
        foreign = [g for g in got if g not in allowed]
        must = allowed if None not in r["cand"] else set()
        if foreign:
            what = "inlined-from-a-dropped-binding" if set(foreign) <= set(r["all_marks"]) else "inlined-wrong-callee"
        elif must and not (set(got) & must):
            what = "last-binding-not-inlined" if r["form"] == "sequential" else "no-binding-inlined"
        else:
            res.count("verdict:holds:redefinition:" + ("inlined-the-binding-python-calls" if got else "nothing-to-inline"))
            continue
        sig = r["sigbase"] + ":" + what
        res.count("verdict:" + sig)
        res.violations.append({"signature": sig, "case": case, "marks": got, "expected": sorted(allowed)})
    return seen


# ====================================================================== family O

O_HEAD = ("from collections import defaultdict\nimport collections\n\nCONFIG = object()\n\n"
          "def make():\n    return CONFIG.mark_made\n\ndef helper(a):\n    return a.mark_helper\n\n"
          "def apply_unknown(f, xs):\n    return xs\n\n")

# name -> (parameter name, real-use body, call through the name (expression statement), reported call id,
#          attribute a plugin treatment would add to the entry of the PARAMETER-use function (must be absent) or None)
O_NAMES = {
    "sorted": ("sorted", "return sorted(xs, key=lambda i: i.mark_rank)", "sorted(xs, key=lambda i: i.mark_prank)", "sorted()",
               "xs.mark_prank"),
    "getattr": ("getattr", "return getattr(xs, 'mark_ga')", "getattr(xs, 'mark_pga')", "getattr()", "xs.mark_pga"),
    "hasattr": ("hasattr", "return hasattr(xs, 'mark_ha')", "hasattr(xs, 'mark_pha')", "hasattr()", "xs.mark_pha"),
    "setattr": ("setattr", "setattr(xs, 'mark_sa', 1)", "setattr(xs, 'mark_psa', 1)", "setattr()", "xs.mark_psa"),
    "delattr": ("delattr", "delattr(xs, 'mark_da')", "delattr(xs, 'mark_pda')", "delattr()", "xs.mark_pda"),
    "defaultdict": ("defaultdict", "t = defaultdict(make)\n    return t", "defaultdict(make)", "defaultdict()", "mark_made"),
    "collections.defaultdict": ("collections", "t = collections.defaultdict(make)\n    return t", "collections.defaultdict(make)",
                                "collections.defaultdict()", "mark_made"),
    # controls: a builtin without plugin, a module-level function
    "len": ("len", "return len(xs)", "len(xs)", "len()", None),
    "helper": ("helper", "return helper(xs)", "helper(xs)", "helper()", "mark_helper"),
}
XATTR = ("getattr", "setattr", "hasattr", "delattr")
O_BINDERS = ("positional-parameter", "keyword-only-parameter", "nested-def-parameter", "lambda-parameter")


def o_tag(n):
    return n.replace(".", "_")


def o_functions():
    """name -> {fname: (source, role, n, binder)} for the real uses and the parameter uses"""
    real, par = {}, {}
    for n, (p, rbody, pcall, _cid, _forb) in O_NAMES.items():
        t = o_tag(n)
        real[f"real_{t}"] = (f"def real_{t}(xs):\n    {rbody}\n", "real-use", n, None)
        par[f"par_pos_{t}"] = (f"def par_pos_{t}(xs, {p}):\n    return {pcall}\n", "parameter-use", n, O_BINDERS[0])
        par[f"par_kw_{t}"] = (f"def par_kw_{t}(xs, *, {p}):\n    return {pcall}\n", "parameter-use", n, O_BINDERS[1])
        par[f"par_nested_{t}"] = (f"def par_nested_{t}(xs):\n    def inner({p}):\n        return {pcall}\n    return inner\n",
                                  "parameter-use", n, O_BINDERS[2])
        par[f"par_lam_{t}"] = (f"def par_lam_{t}(xs, fs):\n    return apply_unknown(lambda {p}: {pcall}, fs)\n",
                               "parameter-use", n, O_BINDERS[3])
    return real, par


def o_cx(fname, src):
    """the target-side caller of the import's function `fname`"""
    nargs = src.split("(", 1)[1].split(")", 1)[0]
    params = [a.strip().lstrip("*").strip() for a in nargs.split(",") if a.strip() not in ("*",)]
    call = []
    kw = False
    for a in nargs.split(","):
        a = a.strip()
        if a == "*":
            kw = True
            continue
        call.append(f"{a}=p_{a}" if kw else f"p_{a}")
    return f"def cx_{fname}({', '.join('p_' + a for a in params)}):\n    return olib.{fname}({', '.join(call)})\n"


# layout -> (what the target holds, what the followed import `olib` holds (None: no import)); R = the real uses, P = the
# parameter uses, XR / XP = target-side callers of the import's R / P functions
O_LAYOUTS = {
    "alone:parameter-uses": (["P"], None),
    "alone:real-uses": (["R"], None),
    "same-file:real-uses-first": (["R", "P"], None),
    "same-file:parameter-uses-first": (["P", "R"], None),
    "followed-import:alone:parameter-uses": (["XP"], ["P"]),
    "followed-import:alone:real-uses": (["XR"], ["R"]),
    "followed-import:real-uses-first": (["XR", "XP"], ["R", "P"]),
    "followed-import:parameter-uses-first": (["XP", "XR"], ["P", "R"]),
    "across-files:real-uses-in-target,parameter-uses-in-import": (["R", "XP"], ["P"]),
    "across-files:parameter-uses-in-target,real-uses-in-import": (["P", "XR"], ["R"]),
    # the target is given by a path OUTSIDE the module search path (cwd = a sibling directory): it has no module name
    "file-outside-the-module-search-path:parameter-uses": (["P"], None),
    "file-outside-the-module-search-path:real-uses": (["R"], None),
}
O_OUTSIDE = "file-outside-the-module-search-path"


def o_projects(rng):
    real, par = o_functions()
    groups = {"R": real, "P": par,
              "XR": {f"cx_{k}": (o_cx(k, v[0]),) + ("caller-of-import's-" + v[1],) + v[2:] for k, v in real.items()},
              "XP": {f"cx_{k}": (o_cx(k, v[0]),) + ("caller-of-import's-" + v[1],) + v[2:] for k, v in par.items()}}
    order = {g: list(fs) for g, fs in groups.items()}
    for g in order.values():
        rng.shuffle(g)
    out = []
    for layout, (tg, ig) in O_LAYOUTS.items():
        files = {"target.py": ("import olib\n" if ig else "") + O_HEAD + "\n".join(groups[g][k][0] for g in tg for k in order[g])}
        if ig:
            files["olib.py"] = O_HEAD + "\n".join(groups[g][k][0] for g in ig for k in order[g])
        fns = {k: groups[g][k] for g in tg for k in order[g]}
        out.append({"layout": layout, "files": files, "functions": fns, "groups": (tg, ig), "outside": layout.startswith(O_OUTSIDE)})
    return out, groups


def o_single(proj, fname, groups):
    """the minimal project for ONE function in a layout: the function, its same-name counterpart(s), in the layout's order"""
    tg, ig = proj["groups"]
    n = proj["functions"][fname][2]

    def pick(gs):
        return "\n".join(groups[g][k][0] for g in gs for k in groups[g] if groups[g][k][2] == n and
                         (groups[g][k][1].endswith("real-use") or k.replace("cx_", "") == fname.replace("cx_", "")))

    files = {"target.py": ("import olib\n" if ig else "") + O_HEAD + pick(tg)}
    if ig:
        files["olib.py"] = O_HEAD + pick(ig)
    return files


def o_property(res, n, binder, layout, canon, case):
    """the call through the parameter is reported, nothing is inlined / treated by a plugin; True when a violation was filed"""
    p, _rb, _pc, cid, forbidden = O_NAMES[n]
    names = canon["gets"] + canon["sets"] + canon["dels"]
    bad = forbidden is not None and any(x == forbidden or x.endswith("." + forbidden) for x in names)
    pre = f"call-through-parameter-named-like-plugin-target:{n}:" + (f"{binder}:" if binder else "") + layout
    # getattr / setattr / hasattr / delattr with a constant name are NAMED like the attribute access they stand for
    # (`getattr(xs, 'k')` is `xs.k`, so the call reads `xs.k()`) — the namer's business, whatever `getattr` is bound to
    reported = cid in canon["calls"] or (n in XATTR and f"xs.{forbidden.split('.')[-1]}()" in canon["calls"])
    if not reported:
        sig = pre + ":call-not-reported"
    elif bad or (n.endswith("defaultdict") and "make()" in canon["calls"]):
        sig = pre + ":treated-as-the-real-callee"
    else:
        res.count("verdict:holds:order:parameter-call-reported-not-inlined")
        return False
    res.count("verdict:" + sig)
    res.violations.append({"signature": sig, "case": case, "entry": canon})
    return True


def judge_o(res, projs, outs, groups, common):
    """`outs`: per project the results dict (or None)"""
    seen = set()
    base = {}
    for proj, results in zip(projs, outs):
        if results is None:
            continue
        for fname, (src, role, n, binder) in proj["functions"].items():
            res.evaluations += 1
            row = ("order", proj["layout"], fname)
            res.nontrivial.add(common.digest(list(row)))
            seen.add(row)
            res.count(f"order-row:{proj['layout']}|{role}")
            entry = results.get(fname)
            case = {"row": list(row), "function": fname, "role": role, "name": n, "binder": binder, "layout": proj["layout"],
                    "files": o_single(proj, fname, groups)}
            if proj.get("outside"):
                case["files"] = {"files/" + k: v for k, v in case["files"].items()}
                case["run"] = "mkdir cwd; cd cwd; python -m rattr -o results ../files/target.py"
            if entry is None:
                res.violations.append({"signature": "caller-missing-from-results", "case": case})
                continue
            canon = {k: sorted(entry[k]) for k in ("gets", "sets", "dels", "calls")}
            fired = False
            if role == "parameter-use" and proj.get("outside"):
                fired = o_property(res, n, None, proj["layout"].split(":")[0], canon, case)
            # ---- metamorphic: the entry is the same as in the first (smallest) layout the function appears in
            if fired:
                pass
            elif fname not in base:
                base[fname] = (proj["layout"], canon)
                res.count("verdict:holds:order:baseline")
            elif base[fname][1] != canon:
                sig = f"entry-depends-on-what-was-analysed-before:{n}:{role}" + (f":{binder}" if binder else "") + f":{proj['layout']}"
                res.count("verdict:" + sig)
                res.violations.append({"signature": sig, "case": case, "entry": canon,
                                       "entry in layout " + base[fname][0]: base[fname][1]})
            else:
                res.count("verdict:holds:order:same-entry-as-alone")
            # ---- property: the call through the parameter is reported, nothing is inlined / treated by a plugin
            if role == "parameter-use" and not proj.get("outside"):
                o_property(res, n, binder, proj["layout"], canon, case)
    return seen

"""C14 — provenance of the names an IR holds after result generation.

The IR "describes each function's own body only"; the known defect (callee names folded into the caller's sets) is
pinned exactly: what is folded into `f` are the names of the functions `f` reaches through resolvable calls, re-based
on the caller's arguments and CARRYING THE LOCATION WHERE THE CALLEE WROTE THE ACCESS. A `Name`'s equality ignores
its location, so neither the results nor a location-blind comparison of the IR can see a name that carries the
location of some other, unrelated access. This oracle does:

    every member of gets/sets/dels of a function `f` AFTER generation is located (file, line, column) where a
    member of the SAME set kind with the SAME attribute tail (the name with its base replaced: `probe.value` and
    `sensor.value` share `<base>.value`) was located BEFORE generation in `f` itself or in a function reachable
    from `f` through resolvable calls.

`located`: [name, basename, file, lineno, col_offset]. The Lean model states the same for the located engine
(`RattrModel/Provenance.lean`: `foldLocated`, theorems `C14_located_*`).
"""
from __future__ import annotations

import os

KINDS = ("gets", "sets", "dels")


def tail(name, basename):
    """The access with its base name taken out (`unbind_name` replaces the first occurrence of the base name, which
    is a prefix of the name up to a leading `*`)."""
    return name.replace(basename, "\0", 1)


def norm_file(f, root=None):
    """File names as rattr prints them are relative (the target) or absolute (followed imports)."""
    if f is None:
        return None
    f = str(f)
    if root is not None:
        f = os.path.normpath(os.path.join(str(root), f))
        r = os.path.realpath(str(root))
        f = os.path.realpath(f)
        if f.startswith(r + os.sep):
            f = f[len(r) + 1:]
    return f


def closure(edges):
    """edges: list (per function) of iterables of function indices -> list of frozensets (reflexive-transitive)."""
    n = len(edges)
    out = []
    for i in range(n):
        seen, todo = {i}, [i]
        while todo:
            k = todo.pop()
            for j in edges[k]:
                if isinstance(j, int) and 0 <= j < n and j not in seen:
                    seen.add(j)
                    todo.append(j)
        out.append(frozenset(seen))
    return out


def provenance_violations(pre, post, edges, root=None):
    """pre / post: flat lists (same order, same length) of {"name", "file", "locs": {kind: [located]}}.
    edges[i]: indices of the functions the calls of function i resolve to.
    -> list of {"function", "kind", "name", "at", "class"}; class is
       'in-a-file-the-function-never-reaches'  (no reachable function lives in, or has a name located in, that file)
       'at-a-place-no-reachable-function-accesses-it' (right file, but no reachable function has such an access there)"""
    reach = closure(edges)
    out = []
    origin = []
    for f in pre:
        o = {k: set() for k in KINDS}
        files = {norm_file(f.get("file"), root)}
        for k in KINDS:
            for name, base, file, line, col in f["locs"][k]:
                o[k].add((norm_file(file, root), line, col, tail(name, base)))
                files.add(norm_file(file, root))
        origin.append((o, files))
    for i, f in enumerate(post):
        if f is None:
            continue
        for k in KINDS:
            allowed, files = None, None
            for name, base, file, line, col in f["locs"][k]:
                if allowed is None:
                    allowed, files = set(), set()
                    for g in reach[i]:
                        allowed |= origin[g][0][k]
                        files |= origin[g][1]
                nf = norm_file(file, root)
                if (nf, line, col, tail(name, base)) in allowed:
                    continue
                cls = ("at-a-place-no-reachable-function-accesses-it" if nf in files
                       else "in-a-file-the-function-never-reaches")
                out.append({"function": f["name"], "kind": k, "name": name, "at": [nf, line, col], "class": cls})
    return out


def flat_of_snapshot(snap):
    """(flat list of functions, sizes per module) of a c14multi.snapshot_all."""
    mods = [snap["target"]] + [s for _, s in snap["imports"]]
    return [f for s in mods for f in s["fns"]], [len(s["fns"]) for s in mods]


def located_of_doc_fn(fir):
    locs = {}
    for k in KINDS:
        locs[k] = [[e["name"], e.get("basename", e["name"]), e["location"]["file"], e["location"]["lineno"],
                    e["location"]["col_offset"]] for e in fir.get(k, []) if isinstance(e, dict) and "location" in e]
    return locs


def flat_of_document(doc, like):
    """The functions of a serialised IR document in the order of the flat snapshot list `like_mods`
    (`like`: c14multi.snapshot_all). A function the document does not show under a unique name is None."""
    mods = [("target", doc["target_ir"]["ir"]["function_irs"], like["target"])]
    for name, s in like["imports"]:
        mods.append((name, doc["import_irs"].get(name, {}).get("function_irs", {}), s))
    out = []
    for _, firs, s in mods:
        names = [f["name"] for f in s["fns"]]
        for f in s["fns"]:
            if names.count(f["name"]) != 1 or f["name"] not in firs:
                out.append(None)
            else:
                out.append({"name": f["name"], "file": f["file"], "locs": located_of_doc_fn(firs[f["name"]])})
    return out

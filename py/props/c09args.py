"""C09, stage A — the recorded spelling of every positional / keyword argument, for ARBITRARY argument
expressions, in every kind of call site.

The body-generator stage of py/props/c09.py draws argument expressions from the generic body
generator (names, short chains, a few literals). `arg_name` / `kwarg_name` call a namer of their own
(the deprecated `get_fullname(..., safe=True)`), so a defect in WHICH namer they call, or in how they
treat one class of expression, only shows on argument expressions of that class. This stage
enumerates the whole nameable grammar in the argument slot:

  * expressions: tree specs over the templates of the C10 namer stage (py/props/c10.py: one shape per
    (ast.expr class, child slot)): attribute / subscript / call steps with 0-3 inner arguments, the four
    getattr-family builtins with literal / non-literal / missing / extra arguments and the hole in the
    object and in the name position, calls and method calls ON getattr results, nested getattr,
    `getattr.x(...)`, every other expression class (lambda, displays, comprehensions, operators,
    f-strings, walrus, await, yield, conditional, comparison, slices) as the root or below a step —
    exhaustive to depth 3 over the reduced alphabet, depth 2 over the full one, plus seeded random
    deeper trees. A tree is kept when it round-trips through source (`ast.unparse` + `ast.parse`) and
    the probe function compiles, so every probe is a real program.
  * call sites (slots): function call (first / second positional + keyword), method call, starred,
    call nested in an argument, constructor assigned (name / attribute / walrus), returned (bare / in a
    list), discarded. Full product for the small expression set, rotation (by index + seed) for the rest.
  * channels: `ir` — the real FunctionAnalyser in the real root context (+ Tie B with the Lean
    function-analyser model, op `analyse_fn`, and with the Lean namer `oldNames`, op `arg_spell`);
    `cli-ir` / `cli-results` — the whole file through `python -m rattr -o ir|results` (the record as
    serialised, and the callee's accesses attributed to the argument end-to-end); `import-ir` /
    `import-results` — the callees live in a followed import.
  * oracle: the documented spelling = Lean `Spec.spell` (lean/RattrModel/Spec/Spell.lean) through the
    driver; `Spec.argDoc` (lean/RattrModel/Spec/ArgSpell.lean) = the decidable class of argument
    expressions for which `C09_arg_documented` proves the model's recorder produces it. Both are
    re-computed independently in Python on the real `ast` node (disagreement = internal error).
"""
from __future__ import annotations

import ast
import json
import os
import shutil
import subprocess
import sys
import tempfile
from pathlib import Path

import common
from props import accessspec as spec
from props import c10 as nm
from props import visitlib as vl

XATTRS = nm.XATTRS
H = nm.HOLE
NAMEABLE = (ast.Name, ast.Attribute, ast.Subscript, ast.Starred, ast.Call)
NODE_WITH_NAME = (ast.Name, ast.Attribute, ast.Subscript, ast.Starred)

# every free variable of the templates is a parameter of the probe function
PARAMS = "a, i, p, q, r, o, n, d, y, x, c, b, t, k, v, f, u"

HEADER = '''\
class Job:
    def __init__(self, spec, owner=None):
        self.plan = spec.steps
        self.user = owner.uid


def helper(p, q=None):
    return p.pp, q.qq


def other(z):
    return z.zz
'''

# ------------------------------------------------------------------ expressions

PLAIN = [f"{H}.x|", f"{H}[i]|", f"{H}()|", f"{H}(p)|", f"{H}(p, 'q')|", f"{H}(p, q, r)|"]
PLAIN_RICH = [f"{H}(p, k=q)|", f"{H}(*p)|", f"{H}(**d)|", f"{H}[1:2]|", f"{H}[i, 0]|", f"{H}['k']|", f"{H}.pick|",
              f"{H}(v, 'name')|", f"{H}('s', 'k')|"]


def xshapes(fn):
    return nm._xattr_shapes(fn)


# the reduced alphabet of the depth-3 enumeration: steps the namers descend into, one builtin
G_FULL = PLAIN + xshapes("getattr")
G_OUTER = PLAIN + [f"getattr({H}, 'k')|", f"getattr({H}, n)|", f"getattr({H}, 'k', d)|"]
LEAVES3 = ["a|", "getattr|", "1|"]
LEAVES2 = ["a|", "1|"]

# always present whatever the seed: one witness per mechanism (the first is the README example shape)
CURATED = [
    "a.method(p, q).result_attr['some key']",
    "getattr(a, 'cfg').pick(v, 'name')", "getattr(a, 'alt').load(v, a)", "getattr(a, 'queue').pop(v, 'last')",
    "getattr(a, 'cfg')(v, 'name')", "getattr(a, 'cfg').pick(v)", "getattr(a, 'cfg')()", "getattr.x(p, 'q')",
    "getattr(getattr(a, 'b'), 'c')", "getattr(getattr(a, 'b').m(p, 'q'), 'c')", "getattr(a.b[0], 'k').m(p, 'q').z",
    "hasattr(a, 'k').m(p, 'q')", "setattr(a, 'k', v)(p, 'q')", "delattr(a, 'k')[0](p, 'q')",
    "getattr(a, n).m(p, 'q')", "getattr(a, 'k', d).m(p, 'q', r)", "a.m(getattr(p, 'q'), 'k')",
    "(a + y).m(p, 'q')", "(lambda: 0)(p, 'q')", "[a, y][0](p, 'q')", "f'{a}'.format(p, 'q')", "(a if c else d).m(p, 'q')",
    "(t := a).m(p, 'q')", "(await a).m(p, 'q')", "getattr(a + y, 'k')", "getattr(a(), 'k')", "getattr(a)",
]


def enumerate_exprs(tier, rng):
    """-> list of (tree spec | None, source of the expression)"""
    trees = []
    if tier == "quick":
        trees += nm.enumerate_trees([G_FULL, G_FULL, G_OUTER], LEAVES3, [])
        for fn in ("hasattr", "setattr", "delattr"):
            steps = PLAIN + xshapes(fn)
            trees += nm.enumerate_trees([steps, steps], LEAVES2, [])
        trees += nm.enumerate_trees([nm.RELEVANT + PLAIN_RICH], nm.LEAVES, nm.IRRELEVANT)
        n_rand = 300
    else:
        trees += nm.enumerate_trees([G_FULL, G_FULL, G_FULL], LEAVES3 + ["'s'|", "[]|"], [])
        for fn in ("hasattr", "setattr", "delattr"):
            steps = PLAIN + xshapes(fn)
            trees += nm.enumerate_trees([steps, steps, steps], LEAVES2, [])
        trees += nm.enumerate_trees([nm.RELEVANT + PLAIN_RICH, nm.RELEVANT], nm.LEAVES, nm.IRRELEVANT)
        n_rand = 4000
    # every other expression class in every slot, as the root and below one / two steps
    other = [[s, t] for s in nm.IRRELEVANT for t in nm.REPS]
    trees += other
    below1 = [[s, o] for o in other if o[1] == ["a|"] for s in G_FULL + PLAIN_RICH]
    trees += below1
    trees += [[s, o] for o in below1 if o[0] in (f"{H}.x|", f"getattr({H}, 'k')|", f"{H}()|") for s in G_OUTER]
    for _ in range(n_rand):
        t = nm.random_tree(rng, 6)
        if rng.random() < 0.5:
            t = [rng.choice(PLAIN + PLAIN_RICH), t]
        trees.append(t)
    out, seen = [], set()
    for e in CURATED:
        seen.add(e)
        out.append((None, e))
    for t in trees:
        try:
            node = nm.build_located(t)
            src = ast.unparse(node)
            back = ast.parse(src, mode="eval").body
        except Exception:  # noqa
            continue
        if ast.dump(back) != ast.dump(node) or src in seen:
            continue            # an AST no source text produces (e.g. a Starred below an Attribute)
        seen.add(src)
        out.append((t, src))
    return out


# ------------------------------------------------------------------ call sites


class Slot:
    def __init__(self, sid, body, callee, kw=None, files=("cli",), e2e=()):
        self.id = sid
        self.body = body            # `{E}` = the positional occurrence, `{K}` = `, kw={E}` or nothing
        self.callee = callee
        self.kw = kw
        self.files = files
        self.e2e = e2e              # (section, suffix for the positional, suffix for the keyword occurrence)


SLOTS = [
    Slot("fn", "return helper({E}{K})", "helper", kw="q", files=("cli", "import"), e2e=(".pp", ".qq")),
    Slot("fn-second", "helper(a.v, {E})\n    return a", "helper", files=("cli", "import"), e2e=(".qq", None)),
    Slot("method", "return a.meth({E}{K})", "a.meth", kw="k", files=("cli", "import")),
    Slot("inner", "return helper(other({E}))", "other", files=("cli", "import"), e2e=(".zz", None)),
    Slot("ctor-assigned", "job = Job({E}{K})\n    return job", "Job", kw="owner", e2e=(".steps", ".uid")),
    Slot("ctor-attr", "a.job = Job({E}{K})", "Job", kw="owner", e2e=(".steps", ".uid")),
    Slot("ctor-walrus", "if (job := Job({E}{K})):\n        return job", "Job", kw="owner", e2e=(".steps", ".uid")),
    Slot("ctor-returned", "return Job({E}{K})", "Job", kw="owner", e2e=(".steps", ".uid")),
    Slot("ctor-returned-list", "return [a, Job({E}{K})]", "Job", kw="owner", e2e=(".steps", ".uid")),
    Slot("ctor-discarded", "Job({E}{K})\n    return a", "Job", kw="owner", e2e=(".steps", ".uid")),
    Slot("fn-star", "return helper(*{E})", "helper", files=("cli", "import")),
]
SLOT = {s.id: s for s in SLOTS}
ROTATION = [s for s in SLOTS if s.id != "fn-star"]


class Probe:
    __slots__ = ("k", "slot", "tree", "expr", "name", "src_fn", "fn", "call", "node", "arg_node", "with_kw",
                 "S", "flags", "doc", "abort", "lean", "want", "im", "verdicts", "is_async")


def make_probe(k, slot, tree, expr):
    """None when the expression cannot stand in this slot (does not compile)."""
    node = ast.parse(expr, mode="eval").body
    starred = isinstance(node, ast.Starred)
    is_async = any(isinstance(n, (ast.Await, ast.AsyncFor, ast.AsyncWith)) or
                   (isinstance(n, ast.comprehension) and n.is_async) for n in ast.walk(node))
    for with_kw in ((True, False) if slot.kw and not starred else (False,)):
        if slot.id == "fn-star" and starred:
            return None
        body = slot.body.replace("{K}", f", {slot.kw}={expr}" if with_kw else "").replace("{E}", expr)
        name = f"g{k}_{slot.id.replace('-', '_')}"
        src = f"{'async ' if is_async else ''}def {name}({PARAMS}):\n    {body}\n"
        try:
            compile(src, "<probe>", "exec", dont_inherit=True)
        except SyntaxError:
            continue
        p = Probe()
        p.k, p.slot, p.tree, p.expr, p.name, p.src_fn, p.with_kw, p.is_async = k, slot, tree, expr, name, src, with_kw, is_async
        p.node = node
        p.arg_node = ast.Starred(value=node, ctx=ast.Load()) if slot.id == "fn-star" else node
        p.verdicts = []
        return p
    return None


def generate(tier, rng, seed):
    exprs = enumerate_exprs(tier, rng)
    probes = []
    k = 0
    n_small = len(CURATED)
    n_thinned = 0
    for j, (tree, e) in enumerate(exprs):
        depth = 0
        t = tree
        while t is not None and len(t) > 1:
            depth += 1
            t = t[1]
        small = j < n_small or (tree is not None and depth <= 1 and tree[-1] in (["a|"], ["getattr|"], ["1|"])) or \
            (tree is not None and depth == 2 and tree[0] in PLAIN[1:] and tree[1][0].startswith("getattr(") and tree[1][1] == ["a|"])
        slots = SLOTS if small else [ROTATION[(j + seed) % len(ROTATION)]]
        if not small and j >= n_small and abort_class(ast.parse(e, mode="eval").body) is not None and (j + seed) % 4 != 0:
            n_thinned += 1
            continue        # the recorder cannot answer (three syntactic classes, see abort_class): a quarter of them is plenty
        if not small and (j + seed) % 23 == 0:
            slots = slots + [SLOT["fn-star"]]
        for s in slots:
            k += 1
            p = make_probe(k, s, tree, e)
            if p is None and not small:
                k += 1
                p = make_probe(k, SLOT["fn"], tree, e)
            if p is not None:
                probes.append(p)
    generate.thinned = n_thinned
    return probes


# ------------------------------------------------------------------ the documented fragment, independently of the Lean definitions


def is_str_const(n):
    return isinstance(n, ast.Constant) and isinstance(n.value, str)


def direct_xattr(n):
    return isinstance(n, ast.Call) and isinstance(n.func, ast.Name) and n.func.id in XATTRS


def py_lit_pair(fn, args):
    if len(args) < 2 or not is_str_const(args[1]):
        return False
    obj = args[0]
    if isinstance(obj, ast.Call):
        return isinstance(obj.func, ast.Name) and obj.func.id == fn and py_lit_pair(fn, obj.args)
    if isinstance(obj, NODE_WITH_NAME):
        return py_doc(obj, strict=True)
    return False


def py_doc(n, strict=False):
    """`Spec.argDoc` (strict=False) / `Spec.strictDoc`: every getattr-family call the spelling is read
    through is a direct call with a literal name whose object is a variable-based chain or a nested
    call of the same builtin (recursively)."""
    if isinstance(n, ast.Name):
        return True
    if isinstance(n, (ast.Attribute, ast.Subscript, ast.Starred)):
        return py_doc(n.value, strict)
    if isinstance(n, ast.Call):
        if isinstance(n.func, ast.Name):
            return py_lit_pair(n.func.id, n.args) if n.func.id in XATTRS else True
        return py_doc(n.func, strict)
    return not strict


def abort_class(n, safe=True):
    """Which getattr-family call on the path the spelling is read through has NO spelling rattr can
    produce (syntactic; in the order Python evaluates): None, or
      too-few-args          a direct getattr-family call with fewer than two positional arguments
      xattr-object-is-call  its object is a call other than a direct call of the same builtin
      xattr-object-unnameable  its object is not a name / attribute / subscript / starred / call, or is a
                            chain that does not end in a variable."""
    if isinstance(n, ast.Name):
        return None
    if isinstance(n, ast.Call):
        r = abort_class(n.func, safe)
        if r:
            return r
        return _pair_abort(n.func.id, n) if direct_xattr(n) else None
    if isinstance(n, (ast.Attribute, ast.Subscript, ast.Starred)):
        return abort_class(n.value, safe)
    return None if safe else "xattr-object-unnameable"


def _pair_abort(fn, call):
    if len(call.args) < 2:
        return "too-few-args"
    obj, attr = call.args[0], call.args[1]
    if not is_str_const(attr):
        r = abort_class(attr, True)
        if r:
            return r
    if isinstance(obj, ast.Call):
        if not (isinstance(obj.func, ast.Name) and obj.func.id == fn):
            return "xattr-object-is-call"
        return _pair_abort(fn, obj)
    if not isinstance(obj, NODE_WITH_NAME):
        return "xattr-object-unnameable"
    return abort_class(obj, False)


MODEL_ABORT = {"too-few-args": {"fatal": "tooFewArgs"}, "xattr-object-is-call": {"fatal": "nestedOtherCall"}}


def expr_class(n):
    """Coarse syntactic class of an argument expression (for signatures)."""
    if not isinstance(n, NAMEABLE):
        return "stand-in"
    direct = indirect = False
    for s in _spine(n):
        if isinstance(s, ast.Call):
            if direct_xattr(s):
                direct = True
            elif nm.chainbase(s.func) in XATTRS:
                indirect = True
    if indirect:
        return "call-on-xattr-result"
    if direct:
        return "xattr-call"
    return "chain" if nm.chainbase(n) is not None else "stand-in-chain"


def _spine(node):
    out = []
    while True:
        out.append(node)
        if isinstance(node, ast.Call):
            node = node.func
        elif isinstance(node, (ast.Attribute, ast.Subscript, ast.Starred)):
            node = node.value
        else:
            return out


# ------------------------------------------------------------------ documented spellings (Lean, through the driver)


def attach_spec(probes, model, res):
    reqs = [("arg_spell", {"expr": nm.encode(p.arg_node)}) for p in probes]
    outs = model.batch(reqs)
    ok = []
    for p, mo in zip(probes, outs):
        if "__error__" in mo:
            res.internal_errors.append({"what": "driver op arg_spell failed", "expr": p.expr, "err": mo})
            continue
        flags = set()
        want = list(nm.readme(p.arg_node, flags))
        if mo["spec"] != want:
            res.internal_errors.append({"what": "Lean Spec.spell/base disagrees with the Python README oracle",
                                        "expr": p.expr, "lean": mo["spec"], "python": want})
            continue
        p.S, p.flags, p.lean = mo["spec"][1], flags, mo
        p.doc = py_doc(p.arg_node)
        p.abort = abort_class(p.arg_node)
        if mo["doc"] != p.doc:
            res.internal_errors.append({"what": "Lean Spec.argDoc disagrees with the Python fragment predicate",
                                        "expr": p.expr, "lean": mo["doc"], "python": p.doc})
            continue
        # the theorem C09_arg_documented, observed: inside the fragment the model's recorder spells the README name
        if p.doc and mo["old_safe"].get("ok", [None, None])[1] != p.S:
            res.internal_errors.append({"what": "model oldNames differs from Spec.spell inside Spec.argDoc (contradicts C09_arg_documented)",
                                        "expr": p.expr, "model": mo["old_safe"], "spec": p.S})
            continue
        # the Python abort classes are exactly the failures of the model's recorder
        want_fail = MODEL_ABORT.get(p.abort) if p.abort else None
        got = mo["old_safe"]
        consistent = ("ok" in got) if p.abort is None else (
            got == want_fail if want_fail else "raised" in got)
        if not consistent:
            res.internal_errors.append({"what": "syntactic abort class disagrees with the model's oldNames outcome",
                                        "expr": p.expr, "abort_class": p.abort, "model": got})
            continue
        ok.append(p)
    return ok


# ------------------------------------------------------------------ oracle


def locate_call(p, fn):
    """The slot's call expression inside the parsed probe function."""
    dump = ast.dump(p.arg_node)
    for st in fn.body:
        for n in ast.walk(st):
            if isinstance(n, ast.Call) and spec.wcb(spec.spell(n.func)) == p.slot.callee and \
                    any(ast.dump(a) == dump for a in n.args):
                return n
    raise AssertionError("slot call not found: " + p.src_fn)


def expectation(p, fn):
    call = locate_call(p, fn)
    inst = spec.expected_self(call, spec.parent_map(fn), "Job") if p.slot.callee == "Job" else None
    dump = ast.dump(p.arg_node)
    args, slots = ([inst] if inst is not None else []), []
    for a in call.args:
        if ast.dump(a) == dump:
            slots.append(("positional", len(args)))
            args.append(p.S)
        else:
            args.append(spec.spell(a))
    kwargs = {}
    for kw in call.keywords:
        if kw.arg is None:
            continue
        if ast.dump(kw.value) == dump:
            slots.append(("keyword", kw.arg))
            kwargs[kw.arg] = p.S
        else:
            kwargs[kw.arg] = spec.spell(kw.value)
    return {"callee": p.slot.callee, "instance": inst, "args": args, "kwargs": kwargs, "slots": slots}


def judge_record(p, recs, outcome):
    """recs: [(args list, kwargs dict)] recorded under the slot's callee; outcome: 'ok' | 'fatal' | 'crash'.
    -> list of (signature, detail)"""
    w = p.want
    judged_spelling = "interp" not in p.flags
    cls = expr_class(p.arg_node)
    if not recs:
        if outcome == "ok":
            return [("call-record-missing", {"want": w})]
        if p.abort == "too-few-args":
            return [("~not-judged:too-few-args", None)]
        if p.abort:
            return [(f"argument-unrecorded:{p.abort}", {"want": w, "outcome": outcome})]
        return [(f"argument-unrecorded:spellable-argument:{cls}", {"want": w, "outcome": outcome})]
    if (w["args"], w["kwargs"]) in recs:
        return []
    out = []
    # closest record: same number of positionals if there is one
    args, kwargs = min(recs, key=lambda r: (len(r[0]) != len(w["args"]), sorted(r[1]) != sorted(w["kwargs"])))
    if len(args) != len(w["args"]):
        if w["instance"] is not None and args == w["args"][1:]:
            return [(f"instance-argument-wrong:{p.slot.id}", {"want": w, "recorded": recs})]
        return [(f"positional-arguments-dropped-or-added:{p.slot.id}", {"want": w, "recorded": recs})]
    if sorted(kwargs) != sorted(w["kwargs"]):
        return [(f"keyword-arguments-dropped-or-added:{p.slot.id}", {"want": w, "recorded": recs})]
    slot_pos = {pos for kind, pos in w["slots"] if kind == "positional"}
    slot_kw = {key for kind, key in w["slots"] if kind == "keyword"}
    for j, (g, e) in enumerate(zip(args, w["args"])):
        if g == e:
            continue
        if j in slot_pos:
            if judged_spelling:
                out.append((f"argument-misspelled:positional:{cls}", {"position": j, "recorded": g, "documented": e}))
            else:
                out.append(("~not-judged:interp-nonliteral-or-short-xattr", None))
        elif j == 0 and w["instance"] is not None:
            out.append((f"instance-argument-wrong:{p.slot.id}", {"recorded": g, "documented": e}))
        else:
            out.append((f"fixed-argument-misspelled:{p.slot.id}", {"position": j, "recorded": g, "documented": e}))
    for key, e in w["kwargs"].items():
        g = kwargs[key]
        if g == e:
            continue
        if key in slot_kw:
            if judged_spelling:
                out.append((f"argument-misspelled:keyword:{cls}", {"keyword": key, "recorded": g, "documented": e}))
            else:
                out.append(("~not-judged:interp-nonliteral-or-short-xattr", None))
        else:
            out.append((f"fixed-argument-misspelled:{p.slot.id}", {"keyword": key, "recorded": g, "documented": e}))
    return out


def case_of(p, channel, extra=None):
    c = {"stage": "args", "channel": channel, "slot": p.slot.id, "expr": p.expr, "tree": p.tree, "function": p.name,
         "source": HEADER + "\n\n" + p.src_fn, "documented": {"spelling": p.S, "in_fragment": p.doc, "abort_class": p.abort}}
    if extra:
        c.update(extra)
    return c


def record_verdicts(res, p, channel, vs, extra=None):
    """Counts and files the verdicts of one probe in one channel."""
    real = [(s, d) for s, d in vs if not s.startswith("~")]
    for s, _ in vs:
        if s.startswith("~"):
            res.count(f"args:{channel}:{s[1:]}")
            res.skipped_outside_fragment += 1
    if not vs:
        res.count(f"args:{channel}:verdict:holds")
    for sig, detail in real:
        full = sig if channel == "ir" else f"{channel}:{sig}"
        res.count(f"args:{channel}:verdict:" + ":".join(sig.split(":")[:2]))
        res.violations.append({"signature": full, "case": case_of(p, channel, extra), "detail": detail})
    return real


# ------------------------------------------------------------------ channel ir

CHUNK = 32


def run_ir(probes, model):
    """Real FunctionAnalyser on every probe, in modules of CHUNK probes, and the Lean function-analyser
    model on the same functions (op `analyse_fns`: one root context per module).
    -> [(probe, im, model output)]"""
    out, reqs, groups = [], [], []
    for j in range(0, len(probes), CHUNK):
        ps = probes[j:j + CHUNK]
        src = HEADER + "".join("\n\n" + p.src_fn for p in ps)
        tree, ctx = vl.prepare(src)
        fns = {n.name: n for n in tree.body if isinstance(n, (ast.FunctionDef, ast.AsyncFunctionDef))}
        fn_reqs = []
        for p in ps:
            fn = fns[p.name]
            p.want = expectation(p, fn)
            fn_reqs.append({"params": vl.params_json(fn.args), "body": [vl.enc(st) for st in fn.body]})
        reqs.append(("analyse_fns", {"env": vl.env_json(), "root": vl.root_snapshot(ctx), "module": "target", "fns": fn_reqs}))
        for p in ps:
            im, _ = vl.analyse_function(fns[p.name], ctx)
            p.im = im
        groups.append(ps)
    outs = model.batch(reqs)
    for ps, mo in zip(groups, outs):
        mos = mo["outs"] if "__error__" not in mo else [mo] * len(ps)
        for p, m in zip(ps, mos):
            out.append((p, p.im, m))
    return out


def recs_of(calls, callee):
    return [(list(c["args"]), dict(map(tuple, c["kwargs"])) if not isinstance(c["kwargs"], dict) else dict(c["kwargs"]))
            for c in calls if c["name"] == callee]


IMPL_FAIL = {"xattr-too-few-old": {"fatal": "tooFewArgs"}, "xattr-nested-old": {"fatal": "nestedOtherCall"}}


def namer_tie(p, im, recs):
    """Tie B at the level of the consumer: what `arg_name` answered (seen in the record, or in how the
    analysis ended before the record) vs the Lean model of the deprecated namer on the same expression."""
    mo = p.lean["old_safe"]
    if recs:
        got = set()
        for args, kwargs in recs:
            for kind, pos in p.want["slots"]:
                if kind == "positional" and pos < len(args):
                    got.add(args[pos])
                if kind == "keyword" and pos in kwargs:
                    got.add(kwargs[pos])
        if "ok" not in mo:
            return f"recorded {sorted(got)} but the model's namer does not answer: {mo}"
        if got != {mo["ok"][1]}:
            return f"recorded {sorted(got)} vs model {mo['ok'][1]!r}"
        return None
    if im["outcome"] == "ok":
        return None         # a missing record is the oracle's business
    if "ok" in mo:
        return f"analysis ended {im['outcome']}/{im['exc']} before the record; the model's namer answers {mo['ok'][1]!r}"
    if im["outcome"] == "fatal":
        want = IMPL_FAIL.get(im["exc"])
        return None if want == mo else f"fatal {im['exc']} vs model {mo}"
    return None if mo.get("raised") == im["exc"] else f"crash {im['exc']} vs model {mo}"


# ------------------------------------------------------------------ file channels


def cli(project, target, output, extra=()):
    env = dict(os.environ, PYTHONDONTWRITEBYTECODE="1", PYTHONWARNINGS="ignore")
    p = subprocess.run([sys.executable, "-m", "rattr", "-o", output, "-w", "none", *extra, target], cwd=str(project), env=env,
                       capture_output=True, text=True, timeout=600)
    r = {"exit": p.returncode, "stderr": p.stderr[-1500:], "doc": None}
    if p.returncode == 0:
        try:
            r["doc"] = json.loads(p.stdout)
        except Exception as e:  # noqa
            r["stderr"] = f"unparseable stdout ({type(e).__name__}): " + p.stdout[:300]
    return r


def ir_records(doc, fname, callee):
    fir = doc["target_ir"]["ir"]["function_irs"].get(fname)
    if fir is None:
        return None
    return [(list(c["args"]["args"]), dict(c["args"]["kwargs"])) for c in fir["calls"] if c["name"] == callee]


def judge_e2e(p, ent):
    """The callee's accesses are attributed to the argument: `helper(E)` with `def helper(p): p.pp`
    makes the caller get `<spelling of E>.pp`."""
    out = []
    if "interp" in p.flags or not p.slot.e2e:
        return out
    cls = expr_class(p.arg_node)
    kinds = [k for k, _ in p.want["slots"]]
    for kind, suffix in zip(("positional", "keyword"), p.slot.e2e):
        if suffix is None or kind not in kinds:
            continue
        name = p.S + suffix
        if name not in ent.get("gets", []):
            rooted = sorted(x for x in ent.get("gets", []) if x.endswith(suffix))
            out.append((f"callee-access-misattributed:{kind}:{cls}", {"want_get": name, "gets_with_that_suffix": rooted}))
    return out


def run_files(res, probes, tier, seed):
    """cli-ir / cli-results on the file holding the probes; import-ir / import-results with the callees
    in a followed import. Only probes whose in-process analysis ended ok can share a file."""
    okp = [p for p in probes if p.im["outcome"] == "ok"]
    cap = 1500 if tier == "quick" else 6000
    if len(okp) > cap:
        # the small set (full slot product) always; of the rest a seed-dependent stride
        stride = -(-len(okp) // cap)
        okp = [p for j, p in enumerate(okp) if p.k <= 400 or (j + seed) % stride == 0]
    res.extra["args_file_probes"] = len(okp)
    project = Path(tempfile.mkdtemp(prefix="rattr-c09args-"))
    try:
        _one_file(res, project, okp, "cli", HEADER, ())
        imp = [p for p in okp if "import" in p.slot.files]
        (project / "lib.py").write_text(HEADER)
        _one_file(res, project, imp, "import", "from lib import helper, other\n", ("-f", "1"))
    finally:
        shutil.rmtree(project, ignore_errors=True)


def _one_file(res, project, ps, channel, header, extra):
    if not ps:
        return
    src = header + "".join("\n\n" + p.src_fn for p in ps)
    (project / "target.py").write_text(src)
    r_ir = cli(project, "target.py", "ir", extra)
    r_res = cli(project, "target.py", "results", extra)
    res.count(f"args:{channel}-ir:exit:{r_ir['exit']}")
    res.count(f"args:{channel}-results:exit:{r_res['exit']}")
    for label, r in ((f"{channel}-ir", r_ir), (f"{channel}-results", r_res)):
        if r["exit"] != 0 or r["doc"] is None:
            bad = _bisect(project, ps, header, label.split("-")[1], extra)
            p = bad or ps[0]
            res.violations.append({"signature": f"{label}:run-fails-on-probes-the-function-analyser-accepts",
                                   "case": case_of(p, label, {"module_header": header}), "detail": {"exit": r["exit"], "stderr": r["stderr"][-600:]}})
    for p in ps:
        if r_ir["doc"] is not None:
            res.evaluations += 1
            res.nontrivial.add(common.digest(["args", channel + "-ir", p.slot.id, p.expr]))
            recs = ir_records(r_ir["doc"], p.name, p.slot.callee)
            if recs is None:
                vs = [("function-not-reported", {"function": p.name})]
            else:
                vs = judge_record(p, recs, "ok")
                mine = recs_of(p.im["calls"], p.slot.callee)
                if sorted(map(json.dumps, map(list, recs))) != sorted(map(json.dumps, map(list, mine))):
                    res.disagreements.append({"case": case_of(p, channel + "-ir"),
                                              "diff": f"printed IR records {recs} != in-process FunctionAnalyser records {mine}"})
            record_verdicts(res, p, channel + "-ir", vs, {"module_header": header})
        if r_res["doc"] is not None:
            res.evaluations += 1
            res.nontrivial.add(common.digest(["args", channel + "-results", p.slot.id, p.expr]))
            ent = r_res["doc"].get(p.name)
            vs = [("function-not-reported", {"function": p.name})] if ent is None else judge_e2e(p, ent)
            record_verdicts(res, p, channel + "-results", vs, {"module_header": header, "entry": ent})


def _bisect(project, ps, header, output, extra):
    lo = list(ps)
    while len(lo) > 1:
        half = lo[:len(lo) // 2]
        (project / "one.py").write_text(header + "".join("\n\n" + p.src_fn for p in half))
        r = cli(project, "one.py", output, extra)
        lo = half if (r["exit"] != 0 or r["doc"] is None) else lo[len(lo) // 2:]
    return lo[0] if lo else None


# ------------------------------------------------------------------ the stage


def run_stage(res, tier, rng, seed, model):
    probes = generate(tier, rng, seed)
    probes = attach_spec(probes, model, res)
    res.extra["args_probes"] = len(probes)
    res.extra["args_abort_class_probes_thinned"] = getattr(generate, "thinned", 0)
    for p, im, mo in run_ir(probes, model):
        res.evaluations += 1
        res.nontrivial.add(common.digest(["args", "ir", p.slot.id, p.expr]))
        res.count("args:slot:" + p.slot.id)
        res.count("args:expr:" + expr_class(p.arg_node))
        res.count("args:ir:outcome:" + im["outcome"])
        res.count("args:fragment:" + ("documented" if p.doc else ("abort:" + p.abort if p.abort else "interp")))
        d = "model error: " + str(mo["__error__"]) if "__error__" in mo else vl.compare(im, mo)
        recs = recs_of(im["calls"], p.slot.callee)
        if d is None:
            d = namer_tie(p, im, recs)
        if d is not None:
            res.disagreements.append({"case": case_of(p, "ir"), "diff": d[:1500]})
        vs = judge_record(p, recs, im["outcome"])
        p.verdicts = record_verdicts(res, p, "ir", vs, {"outcome": [im["outcome"], im["exc"]],
                                                        "recorded": [c for c in im["calls"] if c["name"] == p.slot.callee][:3]})
        if not vs and len(res.samples) < 6 and expr_class(p.arg_node) == "call-on-xattr-result":
            res.sample({"case": {"stage": "args", "slot": p.slot.id, "source": p.src_fn}, "documented": p.S, "recorded": recs})
    run_files(res, probes, tier, seed)
    return probes


# ------------------------------------------------------------------ replay


def replay_case(case):
    import random

    slot = SLOT[case["slot"]]
    p = make_probe(1, slot, case.get("tree"), case["expr"])
    p.name = case.get("function", p.name)
    p.src_fn = case["source"].split("\n\n\n")[-1] if "source" in case else p.src_fn
    p.name = p.src_fn.split("(")[0].split()[-1]
    res = common.Result("C09")
    model = common.Model()
    ps = attach_spec([p], model, res)
    out = {"case": {"slot": slot.id, "expr": case["expr"], "source": p.src_fn}}
    if not ps:
        out["internal_errors"] = res.internal_errors
        print(json.dumps(out, indent=1, default=str))
        return 2
    (p0, im, mo), = run_ir(ps, model)
    recs = recs_of(im["calls"], slot.callee)
    out["documented"] = {"spelling": p.S, "in_fragment": p.doc, "abort_class": p.abort, "expected_record": p.want}
    out["ir"] = {"outcome": [im["outcome"], im["exc"]], "recorded": recs,
                 "verdict": [s for s, _ in judge_record(p, recs, im["outcome"])],
                 "model_agrees": ("__error__" not in mo) and vl.compare(im, mo) is None and namer_tie(p, im, recs) is None}
    project = Path(tempfile.mkdtemp(prefix="rattr-c09args-"))
    try:
        (project / "target.py").write_text(HEADER + "\n\n" + p.src_fn)
        r = cli(project, "target.py", "ir")
        out["cli_ir"] = {"exit": r["exit"], "recorded": ir_records(r["doc"], p.name, slot.callee) if r["doc"] else None,
                         "stderr": r["stderr"][-300:] if r["exit"] else ""}
        r = cli(project, "target.py", "results")
        out["cli_results"] = {"exit": r["exit"], "entry": (r["doc"] or {}).get(p.name)}
        if r["doc"] and p.name in r["doc"]:
            out["cli_results"]["verdict"] = [s for s, _ in judge_e2e(p, r["doc"][p.name])]
    finally:
        shutil.rmtree(project, ignore_errors=True)
    print(json.dumps(out, indent=1, default=str))
    return 0
